# E1: LLVM IR (text) -> C for CBMC.  Byte-offset GEPs on char*, typed loads/stores, SSA values as locals,
# phi as parallel edge copies, invoke as call + "exception pending" flag.  Unknown externals stay declarations
# (CBMC: nondeterministic return) and are listed by the caller in the evidence.
import re, struct
from llir import *
from symx import Interp

def cname(n): return re.sub(r'\W', '_', n.strip('"'))
def vname(n): return 'v_' + cname(n[1:])
def fname(n): return 'f_' + cname(n[1:])
def lname(n): return 'L_' + cname(n[1:])

class Translator:
    def __init__(s, module, rename=None):
        s.m = module; s.it = Interp(module); s.funcs = {}; s.externs = {}; s.structs = {}; s.globals_used = []; s.ginit = []
        s.rename = rename or {}      # external name -> C name supplied by a model file
        s.fptosi_sites = 0
    # ---- types ----
    def cty(s, ty):
        ty = s.it.resolve(ty)
        if isinstance(ty, IntTy):
            if ty.bits <= 8: return 'unsigned char'
            if ty.bits <= 16: return 'unsigned short'
            if ty.bits <= 32: return 'unsigned int'
            if ty.bits <= 64: return 'unsigned long'
            raise Exception('int width %d' % ty.bits)
        if isinstance(ty, FloatTy): return 'double' if ty.bits == 64 else 'float'
        if isinstance(ty, (PtrTy, FnTy)): return 'char*'
        if isinstance(ty, StructTy):
            key = repr(ty)
            if key not in s.structs:
                nm = 'agg%d' % len(s.structs); s.structs[key] = (nm, None)
                flds = '; '.join('%s m%d' % (s.cty(e), i) for i, e in enumerate(ty.els))
                s.structs[key] = (nm, 'struct %s { %s; };' % (nm, flds))
            return 'struct ' + s.structs[key][0]
        if isinstance(ty, VoidTy): return 'void'
        raise Exception('cty %r' % (ty,))
    def sty(s, bits): return {8: 'signed char', 16: 'short', 32: 'int', 64: 'long'}[8 if bits <= 8 else 16 if bits <= 16 else 32 if bits <= 32 else 64]
    def sx(s, x, bits):
        if bits in (8, 16, 32, 64): return '((%s)%s)' % (s.sty(bits), x)
        # odd widths (i1 etc.): sign-extend manually
        w = 8 if bits <= 8 else 16 if bits <= 16 else 32 if bits <= 32 else 64
        return '((%s)((%s)(%s << %d)) >> %d)' % (s.sty(w), s.sty(w), '(%s)%s' % (s.cty(IntTy(w)), x), w - bits, w - bits)
    def mask(s, x, bits):
        if bits in (8, 16, 32, 64): return x
        return '(%s & %dUL)' % (x, (1 << bits) - 1)
    # ---- values ----
    def val(s, v):
        if isinstance(v, Ref): return vname(v.name)
        if isinstance(v, GRef): return s.gref(v.name)
        k = v.kind
        ty = s.it.resolve(v.ty) if v.ty is not None else None
        if k == 'int':
            bits = ty.bits if isinstance(ty, IntTy) else 64
            return '%dUL' % (v.v & ((1 << bits) - 1))
        if k == 'fp':
            f = float(v.v)
            if f != f: return '(0.0/0.0)'
            if f in (float('inf'), float('-inf')): return '(%s1.0/0.0)' % ('-' if f < 0 else '')
            return f.hex()
        if k == 'null': return '((char*)0)'
        if k in ('undef',):
            if isinstance(ty, FloatTy): return '0.0'
            if isinstance(ty, StructTy): return '(%s){0}' % s.cty(ty)
            if isinstance(ty, (PtrTy,)): return '((char*)0)'
            return '0UL'
        if k == 'zeroinitializer':
            if isinstance(ty, StructTy): return '(%s){0}' % s.cty(ty)
            if isinstance(ty, FloatTy): return '0.0'
            if isinstance(ty, PtrTy): return '((char*)0)'
            return '0UL'
        if k == 'cast':
            o = s.val(v.ops[0])
            if v.v in ('bitcast', 'addrspacecast'): return o
            if v.v == 'ptrtoint': return '((unsigned long)%s)' % o
            if v.v == 'inttoptr': return '((char*)%s)' % o
            return o
        if k == 'gep':
            base = s.val(v.ops[0]); off = s.const_gep_off(v.v, v.ops[1:])
            return '(%s + %d)' % (base, off)
        raise Exception('val %r' % (v,))
    def const_gep_off(s, sty, idx):
        it = s.it; off = 0; ty = sty
        for n, i in enumerate(idx):
            iv = i.v if isinstance(i, Const) else None
            if iv is None: raise Exception('non-constant const-gep index')
            if n == 0: off += iv * it.size(ty)
            else:
                ty = it.resolve(ty)
                if isinstance(ty, StructTy): off += it.field_off(ty, iv); ty = ty.els[iv]
                else: off += iv * it.size(ty.el); ty = ty.el
        return off
    def gref(s, name):
        if name in s.m.funcs or name in s.m.decls:
            s.need_func(name); return '((char*)%s)' % s.fn_c(name)
        if name not in [g for g, _ in s.globals_used]: s.globals_used.append((name, None)); s.emit_global(name)
        return '((char*)g_%s)' % cname(name[1:])
    def fn_c(s, name): return s.rename.get(name, fname(name))
    def emit_global(s, name):
        rest = s.m.globals.get(name)
        if rest is None: raise Exception('unknown global ' + name)
        toks = tokenize(rest); p = P(toks)
        while p.peek() in ('private', 'internal', 'external', 'linkonce_odr', 'weak_odr', 'linkonce', 'weak', 'common', 'available_externally', 'dso_local', 'unnamed_addr', 'local_unnamed_addr', 'hidden', 'appending', 'thread_local', 'extern_weak'): p.next()
        kind = p.next()
        ty = parse_type(p); size = max(1, s.it.size(ty))
        g = 'g_' + cname(name[1:])
        s.ginit.append(('decl', 'char %s[%d];' % (g, size)))
        if not p.done() and p.peek() != ',':
            init = parse_value(p, ty); s.init_const(g, 0, ty, init)
    def init_const(s, g, off, ty, c):
        it = s.it; ty = it.resolve(ty)
        if isinstance(c, Const) and c.kind in ('zeroinitializer', 'undef'): return
        if isinstance(c, Const) and c.kind == 'bytes':
            for i, b in enumerate(c.v):
                if b: s.ginit.append(('init', '%s[%d] = %d;' % (g, off + i, b if b < 128 else b - 256)))
            return
        if isinstance(c, Const) and c.kind == 'agg':
            if isinstance(ty, ArrTy):
                es = it.size(ty.el)
                for i, e in enumerate(c.ops): s.init_const(g, off + i * es, ty.el, e)
            else:
                for i, e in enumerate(c.ops): s.init_const(g, off + it.field_off(ty, i), ty.els[i], e)
            return
        s.ginit.append(('init', '*(%s*)(%s + %d) = %s;' % (s.cty(ty), g, off, s.val(c))))
    # ---- functions ----
    def need_func(s, name):
        if name in s.funcs or name in s.externs: return
        if name in s.m.funcs and name not in s.rename:
            s.funcs[name] = None; s.funcs[name] = s.func(name)
        else:
            s.externs[name] = None
    def proto(s, name, rty, atys):
        return '%s %s(%s)' % (rty, s.fn_c(name), ', '.join(atys) if atys else 'void')
    def func(s, name):
        f = s.m.funcs[name]; it = s.it
        locs = {}; body = []
        def decl(res, ty): locs[vname(res)] = s.cty(ty)
        retty = s.cty(f.ret)
        zero_ret = '' if retty == 'void' else (' (%s){0}' % retty if retty.startswith('struct') else ' 0')
        for lbl in f.order:
            body.append('%s: ;' % lname(lbl))
            insl = [parse_ins(l) for l in f.blocks[lbl]]
            def edge(to):
                asg = []; tmp = []
                for l2 in f.blocks[to]:
                    i2 = parse_ins(l2)
                    if i2.op != 'phi': break
                    for v, l in i2.inc:
                        if l == lbl:
                            t = vname(i2.res) + '_n'; locs[t] = s.cty(i2.ty)
                            asg.append('%s = %s;' % (t, s.val(v))); tmp.append('%s = %s;' % (vname(i2.res), t)); break
                return '{ %s %s goto %s; }' % (' '.join(asg), ' '.join(tmp), lname(to))
            for ins in insl:
                op = ins.op
                if op == 'phi': decl(ins.res, ins.ty); continue
                if op == 'gep':
                    decl(ins.res, PtrTy(IntTy(8)))
                    expr = s.val(ins.base); ty = ins.sty
                    for n, i in enumerate(ins.idx):
                        ibits = it.resolve(i.ty).bits if isinstance(i, (Ref, Const)) and i.ty is not None else 64
                        iv = '(long)' + s.sx(s.val(i), ibits)
                        if n == 0: expr += ' + %s*%dL' % (iv, it.size(ty))
                        else:
                            rty = it.resolve(ty)
                            if isinstance(rty, StructTy): k = i.v; expr += ' + %d' % it.field_off(rty, k); ty = rty.els[k]
                            else: expr += ' + %s*%dL' % (iv, it.size(rty.el)); ty = rty.el
                    body.append('%s = %s;' % (vname(ins.res), expr))
                elif op == 'load':
                    decl(ins.res, ins.ty); body.append('%s = *(%s*)%s;' % (vname(ins.res), s.cty(ins.ty), s.val(ins.ptr)))
                elif op == 'store':
                    body.append('*(%s*)%s = %s;' % (s.cty(ins.ty), s.val(ins.ptr), s.val(ins.v)))
                elif op in ('fadd', 'fsub', 'fmul', 'fdiv'):
                    decl(ins.res, ins.ty); body.append('%s = %s %s %s;' % (vname(ins.res), s.val(ins.a), {'fadd': '+', 'fsub': '-', 'fmul': '*', 'fdiv': '/'}[op], s.val(ins.b)))
                elif op == 'fneg':
                    decl(ins.res, ins.ty); body.append('%s = -%s;' % (vname(ins.res), s.val(ins.a)))
                elif op in ('add', 'sub', 'mul', 'and', 'or', 'xor', 'shl', 'lshr', 'udiv', 'urem'):
                    decl(ins.res, ins.ty); bits = it.resolve(ins.ty).bits
                    o = {'add': '+', 'sub': '-', 'mul': '*', 'and': '&', 'or': '|', 'xor': '^', 'shl': '<<', 'lshr': '>>', 'udiv': '/', 'urem': '%'}[op]
                    ct = s.cty(ins.ty)
                    body.append('%s = %s;' % (vname(ins.res), s.mask('(%s)((%s)%s %s (%s)%s)' % (ct, ct, s.val(ins.a), o, ct, s.val(ins.b)), bits)))
                elif op in ('sdiv', 'srem', 'ashr'):
                    decl(ins.res, ins.ty); bits = it.resolve(ins.ty).bits; o = {'sdiv': '/', 'srem': '%', 'ashr': '>>'}[op]
                    body.append('%s = %s;' % (vname(ins.res), s.mask('(%s)(%s %s %s)' % (s.cty(ins.ty), s.sx(s.val(ins.a), bits), o, s.sx(s.val(ins.b), bits)), bits)))
                elif op == 'icmp':
                    decl(ins.res, IntTy(1)); ty = it.resolve(ins.ty); bits = ty.bits if isinstance(ty, IntTy) else 64
                    a, b = s.val(ins.a), s.val(ins.b)
                    if not isinstance(ty, IntTy): a, b = '(unsigned long)' + a, '(unsigned long)' + b
                    if ins.pred[0] == 's': a, b = s.sx(a, bits), s.sx(b, bits)
                    o = {'eq': '==', 'ne': '!=', 'ult': '<', 'ule': '<=', 'ugt': '>', 'uge': '>=', 'slt': '<', 'sle': '<=', 'sgt': '>', 'sge': '>='}[ins.pred]
                    body.append('%s = (%s %s %s);' % (vname(ins.res), a, o, b))
                elif op == 'fcmp':
                    decl(ins.res, IntTy(1)); a, b = s.val(ins.a), s.val(ins.b); p = ins.pred
                    unord = '(%s != %s || %s != %s)' % (a, a, b, b)
                    core = {'eq': '==', 'ne': '!=', 'lt': '<', 'le': '<=', 'gt': '>', 'ge': '>='}
                    if p == 'true': e = '1'
                    elif p == 'false': e = '0'
                    elif p == 'ord': e = '!' + unord
                    elif p == 'uno': e = unord
                    elif p[0] == 'o': e = '(!%s && %s %s %s)' % (unord, a, core[p[1:]], b)
                    else: e = '(%s || %s %s %s)' % (unord, a, core[p[1:]], b)
                    body.append('%s = %s;' % (vname(ins.res), e))
                elif op == 'select':
                    decl(ins.res, ins.ty); body.append('%s = %s ? %s : %s;' % (vname(ins.res), s.val(ins.c), s.val(ins.a), s.val(ins.b)))
                elif op == 'cast':
                    decl(ins.res, ins.dty); k = ins.kind; a = s.val(ins.a); sb = it.resolve(ins.ty); db = it.resolve(ins.dty)
                    r = vname(ins.res)
                    if k == 'fptosi':
                        s.fptosi_sites += 1
                        body.append('__CPROVER_assert(%s >= -0x1p63 && %s < 0x1p63, "UBCLASS fptosi operand in range");' % (a, a))
                        body.append('%s = (%s)(long)%s;' % (r, s.cty(ins.dty), a))
                    elif k == 'fptoui': body.append('%s = (%s)%s;' % (r, s.cty(ins.dty), a))
                    elif k == 'sitofp': body.append('%s = (%s)%s;' % (r, s.cty(ins.dty), s.sx(a, sb.bits)))
                    elif k == 'uitofp': body.append('%s = (%s)%s;' % (r, s.cty(ins.dty), a))
                    elif k == 'sext': body.append('%s = %s;' % (r, s.mask('(%s)%s' % (s.cty(ins.dty), s.sx(a, sb.bits)), db.bits)))
                    elif k == 'zext': body.append('%s = (%s)%s;' % (r, s.cty(ins.dty), a))
                    elif k == 'trunc': body.append('%s = %s;' % (r, s.mask('(%s)%s' % (s.cty(ins.dty), a), db.bits)))
                    elif k in ('bitcast', 'addrspacecast'):
                        if isinstance(sb, FloatTy) != isinstance(db, FloatTy) and not isinstance(db, PtrTy):
                            body.append('{ %s t_ = %s; __builtin_memcpy(&%s, &t_, sizeof t_); }' % (s.cty(ins.ty), a, r))
                        else: body.append('%s = (%s)%s;' % (r, s.cty(ins.dty), a))
                    elif k == 'ptrtoint': body.append('%s = (%s)(unsigned long)%s;' % (r, s.cty(ins.dty), a))
                    elif k == 'inttoptr': body.append('%s = (char*)(unsigned long)%s;' % (r, a))
                    elif k in ('fpext', 'fptrunc'): body.append('%s = (%s)%s;' % (r, s.cty(ins.dty), a))
                    else: raise Exception('cast ' + k)
                elif op in ('call', 'invoke'):
                    done = False
                    if isinstance(ins.callee, GRef) and ins.callee.name.strip('@"').startswith('llvm.'):
                        done = s.intrinsic(ins, body, decl)
                    if not done:
                        args = ', '.join(s.val(a) for a in ins.args if a is not None)
                        rty = s.cty(ins.rty); atys = [s.cty(a.ty) for a in ins.args if a is not None]
                        if isinstance(ins.callee, GRef):
                            s.need_func(ins.callee.name); callee = s.fn_c(ins.callee.name)
                            if ins.callee.name in s.externs and s.externs[ins.callee.name] is None: s.externs[ins.callee.name] = s.proto(ins.callee.name, rty, atys) + ';'
                        else:
                            callee = '((%s(*)(%s))%s)' % (rty, ', '.join(atys), s.val(ins.callee))
                        if ins.res and rty != 'void': decl(ins.res, ins.rty); body.append('%s = %s(%s);' % (vname(ins.res), callee, args))
                        else: body.append('%s(%s);' % (callee, args))
                    if op == 'invoke': body.append('if (verif_thrown) %s else %s' % (edge(ins.unwind), edge(ins.normal)))
                    elif not done: body.append('if (verif_thrown) return%s;' % zero_ret)
                elif op == 'br':
                    if ins.cond is None: body.append(edge(ins.t))
                    else: body.append('if (%s) %s else %s' % (s.val(ins.cond), edge(ins.t), edge(ins.f)))
                elif op == 'switch':
                    bits = it.resolve(ins.v.ty).bits
                    for cv, l in ins.cases: body.append('if (%s == %dUL) %s' % (s.val(ins.v), cv & ((1 << bits) - 1), edge(l)))
                    body.append(edge(ins.dflt))
                elif op == 'ret':
                    body.append('return%s;' % ('' if ins.v is None else ' ' + s.val(ins.v)))
                elif op == 'alloca':
                    decl(ins.res, PtrTy(IntTy(8))); n = '1' if ins.n is None else s.val(ins.n)
                    st = vname(ins.res) + '_st'
                    if ins.n is None:
                        locs['%s[%d]' % (st, max(1, it.size(ins.ty)))] = 'char'; body.append('%s = %s;' % (vname(ins.res), st))
                    else: body.append('%s = __builtin_alloca(%d * %s);' % (vname(ins.res), it.size(ins.ty), n))
                elif op == 'extractvalue':
                    ty = it.resolve(ins.ty); e = s.val(ins.a)
                    for i in ins.idx: e += '.m%d' % i; ty = it.resolve(ty.els[i])
                    decl(ins.res, ty); body.append('%s = %s;' % (vname(ins.res), e))
                elif op == 'insertvalue':
                    decl(ins.res, ins.ty); body.append('%s = %s; %s%s = %s;' % (vname(ins.res), s.val(ins.a), vname(ins.res), ''.join('.m%d' % i for i in ins.idx), s.val(ins.e)))
                elif op == 'landingpad':
                    decl(ins.res, StructTy([PtrTy(IntTy(8)), IntTy(32)])); body.append('%s.m0 = verif_exn; %s.m1 = 1; verif_thrown = 0;' % (vname(ins.res), vname(ins.res)))
                elif op == 'lpclause': pass
                elif op == 'resume':
                    body.append('verif_thrown = 1; return%s;' % zero_ret)
                elif op == 'unreachable':
                    body.append('__CPROVER_assume(0);')
                elif op == 'freeze':
                    decl(ins.res, ins.a.ty); body.append('%s = %s;' % (vname(ins.res), s.val(ins.a)))
                else: raise Exception('ir2c: op ' + op)
        params = ', '.join('%s %s' % (s.cty(ty), vname(pn)) for pn, ty in f.params)
        decls = '\n  '.join('%s %s;' % (t, n) for n, t in locs.items())
        return '%s %s(%s) {\n  %s\n  %s\n}\n' % (retty, s.fn_c(name), params or 'void', decls, '\n  '.join(body))
    def intrinsic(s, ins, body, decl):
        n = ins.callee.name.strip('@"'); a = [s.val(x) if x is not None else None for x in ins.args]
        r = vname(ins.res) if ins.res else None
        if n.startswith(('llvm.lifetime', 'llvm.dbg', 'llvm.experimental.noalias', 'llvm.prefetch')): return True
        if n.startswith('llvm.assume'): body.append('__CPROVER_assume(%s);' % a[0]); return True
        if n.startswith(('llvm.memcpy', 'llvm.memmove')): body.append('__builtin_memmove(%s, %s, %s);' % (a[0], a[1], a[2])); return True
        if n.startswith('llvm.memset'): body.append('__builtin_memset(%s, (int)%s, %s);' % (a[0], a[1], a[2])); return True
        one = {'llvm.floor': 'floor', 'llvm.ceil': 'ceil', 'llvm.round': 'round', 'llvm.trunc': 'trunc', 'llvm.fabs': 'fabs', 'llvm.sqrt': 'sqrt'}
        for k, cf in one.items():
            if n.startswith(k + '.'):
                decl(ins.res, FloatTy(64)); body.append('%s = %s(%s);' % (r, cf, a[0])); return True
        m = re.match(r'llvm\.(s|u)(min|max)\.i(\d+)', n)
        if m:
            bits = int(m.group(3)); decl(ins.res, IntTy(bits))
            x, y = (s.sx(a[0], bits), s.sx(a[1], bits)) if m.group(1) == 's' else (a[0], a[1])
            body.append('%s = (%s %s %s) ? %s : %s;' % (r, x, '<' if m.group(2) == 'min' else '>', y, a[0], a[1])); return True
        m = re.match(r'llvm\.abs\.i(\d+)', n)
        if m:
            bits = int(m.group(1)); decl(ins.res, IntTy(bits)); body.append('%s = (%s < 0) ? (%s)(-%s) : %s;' % (r, s.sx(a[0], bits), s.cty(IntTy(bits)), s.sx(a[0], bits), a[0])); return True
        if n.startswith('llvm.expect'): decl(ins.res, ins.rty); body.append('%s = %s;' % (r, a[0])); return True
        raise Exception('ir2c: intrinsic ' + n)
    # ---- output ----
    def translate(s, roots):
        for r in roots: s.need_func(r)
        out = ['#include <math.h>', '#include <stdlib.h>', '#include <string.h>', 'extern int verif_thrown; extern char* verif_exn;']
        for nm, d in s.structs.values(): out.append(d)
        for k, t in s.ginit:
            if k == 'decl': out.append(t)
        protos = []
        for n, body in s.funcs.items():
            hdr = body.split('{', 1)[0].strip(); protos.append(hdr + ';')
        out += protos
        for n, p in s.externs.items():
            if p and n not in s.rename: out.append(p)
            elif p and n in s.rename: out.append(p)
        out.append('void verif_init_globals(void) {\n  %s\n}' % '\n  '.join(t for k, t in s.ginit if k == 'init'))
        out += list(s.funcs.values())
        return '\n'.join(out)

PRELUDE = '''/* common models for E1 harnesses */
#include <stdlib.h>
#ifndef __CPROVER
#define __CPROVER_assert(c, m) ((void)0)
#define __CPROVER_assume(c) ((void)0)
#endif
int verif_thrown = 0; char* verif_exn = 0;
'''
