# Solver helpers: obligations as "assumptions AND negated goal is unsat", UF axioms, parallel discharge.
import time, os, sys, subprocess, tempfile
import z3
from concurrent.futures import ProcessPoolExecutor, as_completed

def walk(e, seen=None):
    seen = seen if seen is not None else {}
    stack = [e]
    while stack:
        x = stack.pop()
        k = x.get_id()
        if k in seen: continue
        seen[k] = x
        stack.extend(x.children())
    return seen

def uf_apps(exprs, names=('sqrt', 'exp', 'log', 'acos', 'sin', 'cos')):
    seen = {}
    for e in exprs:
        if z3.is_expr(e): walk(e, seen)
    out = {}
    for x in seen.values():
        if z3.is_app(x) and x.decl().kind() == z3.Z3_OP_UNINTERPRETED and x.num_args() == 1 and x.decl().name() in names:
            out[x.get_id()] = x
    return list(out.values())

def purify_div(constraints):
    """x / y with a non-constant divisor becomes a fresh q with q*y == x (measured: z3 decides the rounding queries in
    milliseconds in this form and times out on the division form).  Only sound where y != 0, which the callers' path
    conditions guarantee (box edges > 0); y != 0 is added so that the rewriting can only lose models, never add them."""
    seen = {}
    for c in constraints:
        if z3.is_expr(c): walk(c, seen)
    divs = [x for x in seen.values() if z3.is_app(x) and x.decl().kind() == z3.Z3_OP_DIV and not z3.is_rational_value(x.arg(1))]
    if not divs: return list(constraints)
    divs.sort(key=lambda x: len(walk(x)))
    subs = []; ax = []
    for i, x in enumerate(divs):
        q = z3.Real('div!q%d' % i)
        num = z3.substitute(x.arg(0), *subs) if subs else x.arg(0); den = z3.substitute(x.arg(1), *subs) if subs else x.arg(1)
        ax += [q * den == num, den != 0]
        subs.append((x, q))
    out = [z3.substitute(c, *reversed(subs)) for c in constraints]
    out = [z3.substitute(c, *reversed(subs)) for c in out]
    return out + ax

def purify(constraints):
    """Replace every math-UF application by a fresh real constant plus its defining constraints, so that the
    query is pure (non)linear arithmetic and reaches nlsat instead of the UF+NRA combination."""
    apps = uf_apps(constraints)
    if not apps: return list(constraints)
    # innermost first
    apps.sort(key=lambda x: len(walk(x)))
    subs = []; ax = []
    for i, x in enumerate(apps):
        n = x.decl().name(); v = z3.Real('%s!p%d' % (n, i))
        a = z3.substitute(x.arg(0), *subs) if subs else x.arg(0)
        if n == 'sqrt': ax += [v >= 0, v * v == a]
        elif n == 'exp': ax += [v > 0]
        elif n == 'acos': ax += [v >= 0]
        subs.append((x, v))
    # substitute outermost first so that nested applications are replaced consistently
    out = [z3.substitute(c, *reversed(subs)) for c in constraints]
    out = [z3.substitute(c, *reversed(subs)) for c in out]
    return out + ax

def uf_axioms(exprs):
    """Defining constraints for the math UF applications that occur in exprs."""
    ax = []
    for x in uf_apps(exprs):
        n = x.decl().name(); a = x.arg(0)
        if n == 'sqrt': ax += [x >= 0, x * x == a]
        elif n == 'exp': ax += [x > 0]
        elif n == 'acos': ax += [x >= 0]
    return ax

VERBOSE = bool(os.environ.get('VERIF_VERBOSE'))

def _worker(text, timeout_s, conn):
    try:
        t0 = time.time(); r = z3.unknown
        if '(mod ' in text or '(div ' in text or '(rem ' in text:
            # integer mod/div: eliminate them first (default solver was measured to time out where this is instant)
            s = z3.Then('simplify', 'purify-arith', 'smt').solver(); s.set('timeout', int(min(timeout_s, 20) * 1000))
            s.from_string(text); r = s.check()
        if r == z3.unknown:
            s = z3.Solver(); s.set('timeout', int(max(1, timeout_s - (time.time() - t0)) * 1000))
            s.from_string(text); r = s.check()
        dt = time.time() - t0
        mdl = None
        if r == z3.sat:
            m = s.model(); mdl = {d.name(): str(m[d]) for d in m.decls() if d.arity() == 0}
        conn.send((str(r), dt, mdl))
    except Exception as e:
        conn.send(('unknown', 0.0, {'error': str(e)[:300]}))
    finally:
        conn.close()

def run_queries(jobs, timeout_s=60, workers=None):
    """jobs: [(key, smt2 text)].  Each query runs in its own forked process with a hard kill at
    timeout_s + 5 (z3's soft timeout is not always honoured inside nlsat).  Returns {key: (status, dt, model)}."""
    import multiprocessing as mp
    ctx = mp.get_context('fork')
    workers = workers or min(16, os.cpu_count() or 4)
    pending = list(jobs); running = {}; out = {}
    while pending or running:
        while pending and len(running) < workers:
            k, text = pending.pop(0)
            pc, cc = ctx.Pipe(duplex=False)
            p = ctx.Process(target=_worker, args=(text, timeout_s, cc)); p.start(); cc.close()
            running[k] = (p, pc, time.time())
        done = []
        for k, (p, pc, t0) in running.items():
            if pc.poll(0.005):
                try: out[k] = pc.recv()
                except EOFError: out[k] = ('unknown', time.time() - t0, {'error': 'worker died'})
                p.join(1); done.append(k)
            elif not p.is_alive():
                out[k] = ('unknown', time.time() - t0, {'error': 'worker died'}); done.append(k)
            elif time.time() - t0 > timeout_s + 5:
                p.kill(); p.join(1); out[k] = ('unknown', time.time() - t0, {'error': 'hard timeout'}); done.append(k)
        for k in done:
            running[k][1].close(); del running[k]
        if not done: time.sleep(0.01)
    return out

def to_smt2(constraints):
    s = z3.Solver()
    for c in constraints: s.add(c)
    return s.to_smt2()

def check(constraints, timeout_s=60, tactic=None):
    r = run_queries([(0, to_smt2(constraints))], timeout_s, 1)[0]
    return r

def parallel_check(jobs, timeout_s=60, workers=None):
    """jobs: list of (key, constraints). Returns {key: (status, dt, model_dict)}."""
    return run_queries([(k, to_smt2(c)) for k, c in jobs], timeout_s, workers)

def prove(ck, name, assumptions, negated_goal, timeout_s=60, probe=None, detail=None, expect_sat_ok=False, divform=False):
    """Discharge one obligation. Returns (status, model).  probe: constraint list for the triviality
    probe (the same negated goal with the code-derived facts removed); sat there => non-trivial."""
    cons = purify(list(assumptions) + (list(negated_goal) if isinstance(negated_goal, (list, tuple)) else [negated_goal]))
    if divform: cons = purify_div(cons)
    r, dt, mdl = check(cons, timeout_s)
    if r == 'unsat' and assumptions and os.environ.get('VERIF_NO_VACUITY') is None:
        # vacuity guard: the assumptions alone must be satisfiable (an unsat core inside them would make every goal 'hold')
        a_only = purify(list(assumptions))
        if divform: a_only = purify_div(a_only)
        vr, vdt, _ = check(a_only, min(timeout_s, 15))
        if vr == 'unsat':
            ck.obligation(name, 'unknown', dt, None, {'vacuous': 'the assumptions of this obligation are contradictory'})
            if VERBOSE: print('  [VACUOUS] %s' % name, flush=True)
            return 'unknown', None
    nontriv = None
    if probe is not None:
        pr, pdt, _ = check(probe, min(timeout_s, 20))
        nontriv = (pr == 'sat')
    st = {'unsat': 'unsat', 'sat': 'sat'}.get(r, 'unknown')
    d = detail
    if st == 'sat' and mdl is not None:
        d = dict(detail or {}); d['model'] = mdl
    if st == 'unknown' and mdl: d = dict(detail or {}); d['solver'] = mdl
    ck.obligation(name, st, dt, nontriv, d)
    if VERBOSE: print('  [%s] %s %.2fs nontrivial=%s' % (st, name, dt, nontriv), flush=True)
    return st, mdl

def model_dict(m, limit=60):
    out = {}
    for d in m.decls()[:limit]:
        try:
            v = m[d]
            out[d.name()] = str(v)
        except Exception: pass
    return out

def mval(m, e):
    """Model value of a real/int expression as a Fraction (algebraic numbers are approximated)."""
    from fractions import Fraction
    v = m.eval(e, model_completion=True)
    if z3.is_int_value(v): return Fraction(v.as_long())
    if z3.is_rational_value(v): return Fraction(v.numerator_as_long(), v.denominator_as_long())
    if z3.is_algebraic_value(v):
        a = v.approx(30); return Fraction(a.numerator_as_long(), a.denominator_as_long())
    if z3.is_true(v): return 1
    if z3.is_false(v): return 0
    raise ValueError('no numeric value for %s: %s' % (e, v))



def agg_core(ck, name, queries, timeout_s=60, purify_all=False, probe=None):
    """One obligation made of several path queries [(assumptions, negated_goal)], all of which must be unsat.
    Non-triviality is measured on the first query: its negated goal WITHOUT the code-derived assumptions must be satisfiable."""
    if not queries: return None, None
    jobs = []
    for i, (a, g) in enumerate(queries):
        c = list(a) + list(g)
        jobs.append((i, purify(c) if purify_all else c))
    out = parallel_check(jobs, timeout_s=timeout_s)
    bad = [i for i in out if out[i][0] != 'unsat']
    st = 'unsat' if not bad else ('sat' if any(out[i][0] == 'sat' for i in bad) else 'unknown')
    nontriv = None
    g0 = list(queries[0][1])
    if probe is not None:
        nontriv = check(purify(list(probe)) if purify_all else list(probe), min(timeout_s, 15))[0] == 'sat'
    elif g0:
        pr = check(purify(g0) if purify_all else g0, min(timeout_s, 15))[0]
        nontriv = (pr == 'sat')
    else:
        nontriv = True      # the obligation is "this path is infeasible": it depends entirely on the path condition
    sat_i = [i for i in bad if out[i][0] == 'sat']
    mdl = out[sat_i[0]][2] if sat_i else None
    ck.obligation('%s (%d path queries)' % (name, len(jobs)), st, sum(v[1] for v in out.values()), nontriv, {'model': mdl} if mdl else ({'undecided_queries': len(bad)} if bad else None))
    if VERBOSE: print('  [%s] %s (%d queries) nontrivial=%s' % (st, name, len(jobs), nontriv), flush=True)
    return st, mdl
