# File-system environment for text round trips: std::ofstream / std::ifstream objects opened by name, FILE* streams written with
# fprintf, all backed by a Python dictionary name -> list of lines.  Numbers cross the text channel as placeholder tokens
# ($k = an arbitrary real, ~k = an arbitrary integer), padded to the printed field width where the writer gives one, so that
# column positions are kept while the printed precision is abstracted away (stated in the checks that use this).
import re, z3
from fractions import Fraction
import symx, models
from symx import Ptr, NULL, is_sym, Unsupported, UNDEF
from llir import NamedTy

OF_IOS = 248      # offset of the virtual base basic_ios inside std::ofstream (vptr 8 + filebuf 240), libstdc++ x86-64
IF_IOS = 256      # ... inside std::ifstream (vptr 8 + gcount 8 + filebuf 240)
STATE_OFF = 32    # ios_base::_M_streambuf_state
CTYPE_OFF = 240   # basic_ios::_M_ctype
_MASK = {}
def _ctype_mask(c):
    ch = chr(c); m = 0
    if c < 128:
        if ch.isupper(): m |= 0x100
        if ch.islower(): m |= 0x200
        if ch.isalpha(): m |= 0x400
        if ch.isdigit(): m |= 0x800
        if ch in '0123456789abcdefABCDEF': m |= 0x1000
        if ch in ' \t\n\v\f\r': m |= 0x2000
        if 32 <= c < 127: m |= 0x4000
        if 33 <= c < 127: m |= 0x8000
        if ch in ' \t': m |= 0x1
        if c < 32 or c == 127: m |= 0x2
        if 33 <= c < 127 and not ch.isalnum(): m |= 0x4
        if ch.isalnum(): m |= 0x8
    return m

class FileIO:
    def __init__(s): s.reset()
    def reset(s, phs=None, iphs=None):
        s.fs = {}            # name -> list of lines (lists of bytes)
        s.streams = {}       # (obj, off) of the stream object -> dict(kind, name, buf, pos, lines, ios)
        s.fbs = {}           # (obj, off) of the filebuf -> stream key
        s.files = {}         # FILE* object id -> dict(name, buf)
        s.phs = list(phs or [])     # real placeholders  $k
        s.iphs = list(iphs or [])   # integer placeholders @k
        s.facet = None; s.log = []
        s.fullwidth = set()   # printed field widths at which a real is rendered as a token filling the whole field (no leading blank)
    # ---------- helpers ----------
    def _facet(s, it):
        if s.facet is None or s.facet[0] is not it:
            fac = it.alloc(1024, 'ctype<char>(model)'); it.zerofill(fac, 1024)
            tab = it.alloc(2 * 384 + 2 * 256, 'ctype-table(model)')
            for c in range(256): it.store(Ptr(tab.obj, 2 * c), _ctype_mask(c), 2)
            it.store(Ptr(fac.obj, 48), tab, 8)
            it.store(Ptr(fac.obj, 56), 1, 1)
            for c in range(256): it.store(Ptr(fac.obj, 57 + c), c, 1)
            s.facet = (it, fac)
        return s.facet[1]
    def _setup(s, it, this, ios_off, kind):
        size = ios_off + 264
        it.zerofill(this, size)
        vt = it.alloc(128, 'fstream-vtable(model)'); it.zerofill(vt, 128)
        it.store(Ptr(this.obj, this.off), Ptr(vt.obj, 64), 8); it.store(Ptr(vt.obj, 64 - 24), ios_off, 8)
        it.store(Ptr(this.obj, this.off + ios_off + CTYPE_OFF), s._facet(it), 8)
        it.store(Ptr(this.obj, this.off + ios_off + 8), 6, 8)          # default precision
        key = (this.obj, this.off)
        s.streams[key] = {'kind': kind, 'name': None, 'buf': [], 'pos': 0, 'lines': None, 'ios': ios_off, 'open': False}
        fb = (this.obj, this.off + (8 if kind == 'o' else 16)); s.fbs[fb] = key
    def _stream(s, p):
        return s.streams.get((p.obj, p.off)) if isinstance(p, Ptr) else None
    @staticmethod
    def split_lines(buf):
        lines = [[]]
        for b in buf:
            if not is_sym(b) and (b & 0xff) == 10: lines.append([])
            else: lines[-1].append(b if is_sym(b) else b & 0xff)
        if lines and lines[-1] == []: lines.pop()
        return lines
    def text(s, name):
        return [bytes(b for b in l if not is_sym(b)).decode('latin1') for l in s.fs.get(name, [])]
    # ---------- fstream models ----------
    def m_of_ctor(s, it, a): s._setup(it, a[0], OF_IOS, 'o'); return None
    def m_if_ctor(s, it, a): s._setup(it, a[0], IF_IOS, 'i'); return None
    def m_fb_open(s, it, a):
        fb, namep, mode = a[0], a[1], a[2]
        st = s.streams[s.fbs[(fb.obj, fb.off)]]; name = it.cstr(namep).decode('latin1')
        s.log.append(('open', st['kind'], name))
        if st['kind'] == 'o':
            st['name'] = name; st['buf'] = []; st['open'] = True; return fb
        if name not in s.fs: return NULL
        st['name'] = name; st['lines'] = [list(l) for l in s.fs[name]]; st['pos'] = 0; st['open'] = True
        return fb
    def _flush(s, st):
        if st['kind'] == 'o' and st['open'] and st['name'] is not None: s.fs[st['name']] = s.split_lines(st['buf'])
    def m_fb_close(s, it, a):
        fb = a[0]; st = s.streams[s.fbs[(fb.obj, fb.off)]]
        if not st['open']: return NULL
        s._flush(st); st['open'] = False; s.log.append(('close', st['kind'], st['name'])); return fb
    def m_dtor(s, it, a):
        st = s._stream(a[0])
        if st is not None and st['open']: s._flush(st); st['open'] = False
        return None
    def m_ios_clear(s, it, a):
        ios, state = a; it.store(Ptr(ios.obj, ios.off + STATE_OFF), state & 0xffffffff if not is_sym(state) else state, 4); return None
    def _setstate(s, it, this, st, bits):
        p = Ptr(this.obj, this.off + st['ios'] + STATE_OFF); cur = it.load(p, 4); it.store(p, (cur | bits) & 0xffffffff, 4)
    def m_getline(s, it, a):
        ins, strp = a[0], a[1]; st = s._stream(ins)
        if st is None: raise Unsupported('getline on a stream that is not modelled')
        if st['lines'] is None or st['pos'] >= len(st['lines']):
            s._setstate(it, ins, st, 2 | 4); models.sset(it, strp, []); return ins
        models.sset(it, strp, st['lines'][st['pos']]); st['pos'] += 1; return ins
    # ---------- output ----------
    def _tok_real(s, v, width=0):
        s.phs.append(v if is_sym(v) else z3.RealVal(Fraction(v)))
        t = '$%d' % (len(s.phs) - 1)
        if width > len(t) and width in s.fullwidth: t = '$' + '0' * (width - len(t)) + t[1:]
        if width > len(t): t = ' ' * (width - len(t)) + t
        return list(t.encode())
    def _tok_int(s, v, width=0, left=False):
        if is_sym(v):
            s.iphs.append(v); t = '~%d' % (len(s.iphs) - 1)
            if width > len(t): t = ' ' * (width - len(t)) + t
        else:
            t = str(symx.sgn64(v))
            if width > len(t): t = (t + ' ' * (width - len(t))) if left else (' ' * (width - len(t)) + t)
        return list(t.encode())
    def m_ins_double(s, it, a):
        st = s._stream(a[0])
        if st is not None:
            w = it.load(Ptr(a[0].obj, a[0].off + st['ios'] + 16), 8)
            st['buf'] += s._tok_real(a[1], w if isinstance(w, int) else 0)
            it.store(Ptr(a[0].obj, a[0].off + st['ios'] + 16), 0, 8)
        return a[0]
    def m_ins_long(s, it, a):
        st = s._stream(a[0])
        if st is not None:
            w = it.load(Ptr(a[0].obj, a[0].off + st['ios'] + 16), 8)
            st['buf'] += s._tok_int(a[1], w if isinstance(w, int) else 0)
            it.store(Ptr(a[0].obj, a[0].off + st['ios'] + 16), 0, 8)
        return a[0]
    def m_ins_str(s, it, a):
        st = s._stream(a[0])
        if st is not None:
            b = models.rd(it, a[1], a[2]); w = it.load(Ptr(a[0].obj, a[0].off + st['ios'] + 16), 8)
            if isinstance(w, int) and w > len(b):
                flags = it.load(Ptr(a[0].obj, a[0].off + st['ios'] + 24), 4)
                pad = [32] * (w - len(b)); b = (b + pad) if (isinstance(flags, int) and flags & 0x20) else (pad + b)
            st['buf'] += b
            it.store(Ptr(a[0].obj, a[0].off + st['ios'] + 16), 0, 8)
        return a[0]
    def m_put(s, it, a):
        st = s._stream(a[0])
        if st is not None: st['buf'].append(a[1])
        return a[0]
    # ---------- C stdio ----------
    def m_fopen(s, it, a):
        name = it.cstr(a[0]).decode('latin1'); mode = it.cstr(a[1]).decode('latin1')
        f = it.alloc(16, 'FILE(model):' + name); s.files[f.obj] = {'name': name, 'buf': [], 'mode': mode}; s.log.append(('fopen', mode, name)); return f
    def m_fclose(s, it, a):
        f = s.files.get(a[0].obj)
        if f is not None: s.fs[f['name']] = s.split_lines(f['buf'])
        return 0
    def m_fflush(s, it, a):
        f = s.files.get(a[0].obj) if isinstance(a[0], Ptr) else None
        if f is not None: s.fs[f['name']] = s.split_lines(f['buf'])
        return 0
    def format(s, it, fmt, args):
        out = []; i = 0; ai = 0
        while i < len(fmt):
            c = fmt[i]
            if c != '%': out.append(ord(c)); i += 1; continue
            m = re.match(r'%([-+ 0#]*)(\d*)(?:\.(\d+))?(l|ll|h|z)?([dfsgeiuc%])', fmt[i:])
            if not m: raise Unsupported('fprintf format %r' % fmt[i:i + 8])
            flags, width, prec, ln, conv = m.groups(); i += m.end(); width = int(width) if width else 0
            if conv == '%': out.append(37); continue
            v = args[ai]; ai += 1
            if conv in 'feg': out += s._tok_real(v, width)
            elif conv in 'diu': out += s._tok_int(v, width, '-' in flags)
            elif conv == 'c': out.append(v & 0xff)
            elif conv == 's':
                b = list(it.cstr(v))
                if prec is not None: b = b[:int(prec)]
                if width > len(b): b = (b + [32] * (width - len(b))) if '-' in flags else ([32] * (width - len(b)) + b)
                out += b
        return out
    def m_fprintf(s, it, a):
        f = s.files.get(a[0].obj) if isinstance(a[0], Ptr) else None
        fmt = it.cstr(a[1]).decode('latin1'); b = s.format(it, fmt, a[2:])
        if f is not None: f['buf'] += b
        return len(b)
    def m_sprintf(s, it, a):
        fmt = it.cstr(a[1]).decode('latin1'); b = s.format(it, fmt, a[2:])
        for i, c in enumerate(b): it.store(Ptr(a[0].obj, a[0].off + i), c, 1)
        it.store(Ptr(a[0].obj, a[0].off + len(b)), 0, 1); return len(b)
    def m_is_open(s, it, a):
        p = a[0]
        for (obj, off), st in s.streams.items():
            if obj == p.obj and off <= p.off < off + st['ios']: return 1 if st['open'] else 0
        return 0
    def m_fputc(s, it, a):
        f = s.files.get(a[1].obj) if isinstance(a[1], Ptr) else None
        if f is not None: f['buf'].append(a[0] & 0xff)
        return a[0]
    def m_fwrite(s, it, a):
        f = s.files.get(a[3].obj) if isinstance(a[3], Ptr) else None
        if f is not None: f['buf'] += models.rd(it, a[0], a[1] * a[2])
        return a[2]
    # ---------- number parsing ----------
    def m_strtod(s, it, a):
        sp, endp = a; b = []; k = 0
        while True:
            c = it.load(Ptr(sp.obj, sp.off + k), 1)
            if is_sym(c) or c is UNDEF or c == 0: break
            b.append(c & 0xff); k += 1
        b = bytes(b)
        def end(n):
            if isinstance(endp, Ptr) and endp.obj != 0: it.store(endp, Ptr(sp.obj, sp.off + n), 8)
        mm = re.match(rb'\s*\$(\d+)', b)
        if mm: end(mm.end()); return s.phs[int(mm.group(1))]
        mm = re.match(rb'\s*~(\d+)', b)
        if mm: end(mm.end()); return z3.ToReal(s.iphs[int(mm.group(1))]) if is_sym(s.iphs[int(mm.group(1))]) else Fraction(s.iphs[int(mm.group(1))])
        mm = re.match(rb'\s*[-+]?(\d+\.?\d*([eE][-+]?\d+)?|\.\d+([eE][-+]?\d+)?)', b)
        if not mm: end(0); return Fraction(0) if it.fpmode == 'real' else 0.0
        end(mm.end()); return Fraction(mm.group(0).strip().decode()) if it.fpmode == 'real' else float(mm.group(0))
    def m_lexcast_double(s, it, a):
        # votca::tools::lexical_cast<double>(const std::string&, const std::string& error): the decimal conversion of one token
        b = bytes(c & 0xff for c in models.sget(it, a[0]) if not is_sym(c))
        mm = re.fullmatch(rb'\s*\$(\d+)\s*', b)
        if mm: return s.phs[int(mm.group(1))]
        mm = re.fullmatch(rb'\s*~(\d+)\s*', b)
        if mm: v = s.iphs[int(mm.group(1))]; return z3.ToReal(v) if is_sym(v) else Fraction(v)
        mm = re.fullmatch(rb'\s*[-+]?(\d+\.?\d*([eE][-+]?\d+)?|\.\d+([eE][-+]?\d+)?)\s*', b)
        if not mm: raise symx.Thrown(NULL)
        return Fraction(b.strip().decode()) if it.fpmode == 'real' else float(b)
    def m_strtol(s, it, a):
        sp, endp = a[0], a[1]; b = it.cstr(sp)
        def end(n):
            if isinstance(endp, Ptr) and endp.obj != 0: it.store(endp, Ptr(sp.obj, sp.off + n), 8)
        mm = re.match(rb'\s*~(\d+)', b)
        if mm: end(mm.end()); return s.iphs[int(mm.group(1))]
        mm = re.match(rb'\s*[-+]?\d+', b)
        if not mm: end(0); return 0
        end(mm.end()); return int(mm.group(0)) & ((1 << 64) - 1)
    def models(s):
        M = models.all_models()
        errno = [None]
        def m_errno(it, a):
            if errno[0] is None or errno[0][0] is not it:
                p = it.alloc(4, 'errno'); it.store(p, 0, 4); errno[0] = (it, p)
            return errno[0][1]
        none = lambda it, a: None
        M.update({
            're:^@_ZNSt14basic_ofstreamIcSt11char_traitsIcEEC[12]Ev': s.m_of_ctor, 're:^@_ZNSt14basic_ifstreamIcSt11char_traitsIcEEC[12]Ev': s.m_if_ctor,
            're:^@_ZNSt14basic_ofstreamIcSt11char_traitsIcEED[012]Ev': s.m_dtor, 're:^@_ZNSt14basic_ifstreamIcSt11char_traitsIcEED[012]Ev': s.m_dtor,
            're:^@_ZNSt13basic_filebufIcSt11char_traitsIcEE4openEPKcSt13_Ios_Openmode': s.m_fb_open, 're:^@_ZNSt13basic_filebufIcSt11char_traitsIcEE5closeEv': s.m_fb_close,
            're:^@_ZNSt13basic_filebufIcSt11char_traitsIcEED[012]Ev': none, 're:^@_ZNSt13basic_filebufIcSt11char_traitsIcEEC[12]Ev': none,
            're:^@_ZNSt9basic_iosIcSt11char_traitsIcEE5clearE': s.m_ios_clear,
            're:^@_ZSt7getlineIcSt11char_traitsIcESaIcEERSt13basic_istream': s.m_getline,
            '@_ZNSo9_M_insertIdEERSoT_': s.m_ins_double, '@_ZNSo9_M_insertIlEERSoT_': s.m_ins_long, '@_ZNSo9_M_insertImEERSoT_': s.m_ins_long, '@_ZNSolsEi': s.m_ins_long,
            're:^@_ZSt16__ostream_insertIcSt11char_traitsIcEE': s.m_ins_str, 're:^@_ZNSo3putEc': s.m_put,
            're:^@_ZSt9use_facetISt5ctypeIcEERKT_RKSt6locale': lambda it, a: s._facet(it), 're:^@_ZNKSt5ctypeIcE13_M_widen_initEv': none,
            '@fopen': s.m_fopen, '@fclose': s.m_fclose, '@fflush': s.m_fflush, '@fprintf': s.m_fprintf, '@fputc': s.m_fputc, '@putc': s.m_fputc, '@fwrite': s.m_fwrite,
            '@sprintf': s.m_sprintf, 're:^@_ZNKSt12__basic_fileIcE7is_openEv': s.m_is_open,
            're:^@_ZNSt8ios_base7failureB5cxx11C[12]E': none, 're:^@_ZNSt8ios_base7failureB5cxx11D[012]Ev': none, '@_ZSt17iostream_categoryv': lambda it, a: NULL,
            're:^@_ZN5votca5tools12lexical_castIdNSt7__cxx1112basic_stringIcSt11char_traitsIcESaIcEEEEET_RKT0_RKS7_': s.m_lexcast_double,
            '@strtod': s.m_strtod, '@strtol': s.m_strtol, '@__errno_location': m_errno,
            '@isspace': lambda it, a: int(chr(a[0] & 0xff) in ' \t\n\v\f\r'), '@ispunct': lambda it, a: int(chr(a[0] & 0xff) in '!"#$%&\'()*+,-./:;<=>?@[\\]^_`{|}~'),
        })
        return M
