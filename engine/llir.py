# Throwaway prototype: minimal LLVM-14 textual IR parser (typed pointers).
import re, sys

# ---------------- types ----------------
class Ty:
    pass
class IntTy(Ty):
    def __init__(s, bits): s.bits = bits
    def __repr__(s): return 'i%d' % s.bits
class FloatTy(Ty):
    def __init__(s, bits): s.bits = bits
    def __repr__(s): return 'double' if s.bits == 64 else 'float'
class PtrTy(Ty):
    def __init__(s, to): s.to = to
    def __repr__(s): return '%r*' % (s.to,)
class ArrTy(Ty):
    def __init__(s, n, el): s.n = n; s.el = el
    def __repr__(s): return '[%d x %r]' % (s.n, s.el)
class VecTy(Ty):
    def __init__(s, n, el): s.n = n; s.el = el
    def __repr__(s): return '<%d x %r>' % (s.n, s.el)
class StructTy(Ty):
    def __init__(s, els, packed=False): s.els = els; s.packed = packed
    def __repr__(s): return '{%s}' % ','.join(map(repr, s.els))
class NamedTy(Ty):
    def __init__(s, name): s.name = name
    def __repr__(s): return s.name
class FnTy(Ty):
    def __init__(s, ret, args, vararg): s.ret = ret; s.args = args; s.vararg = vararg
    def __repr__(s): return 'fn'
class VoidTy(Ty):
    def __repr__(s): return 'void'
class OtherTy(Ty):
    def __init__(s, n): s.n = n
    def __repr__(s): return s.n
VOID = VoidTy()

TOK = re.compile(r'''\s*(
    c"(?:[^"\\]|\\.)*" | "(?:[^"\\]|\\.)*" |
    [%@]"(?:[^"\\]|\\.)*" | [%@][-\w.$]+ |
    !\d+ | ![\w.]+ | \#\d+ |
    0x[0-9A-Fa-f]+ | -?\d+\.\d*(?:[eE][-+]?\d+)? | -?\d+ |
    \.\.\. | <\{ | \}> |
    [\w.]+ | [()\[\]{}<>,=*:!]
)''', re.X)

def tokenize(s):
    out = []; pos = 0; n = len(s)
    while pos < n:
        m = TOK.match(s, pos)
        if not m:
            if s[pos:].strip() == '': break
            raise ValueError('tok fail at %r' % s[pos:pos+40])
        t = m.group(1)
        if t.startswith(';'): break
        out.append(t); pos = m.end()
    return out

class P:
    def __init__(s, toks): s.t = toks; s.i = 0
    def peek(s, k=0): return s.t[s.i+k] if s.i+k < len(s.t) else None
    def next(s): x = s.t[s.i]; s.i += 1; return x
    def accept(s, x):
        if s.peek() == x: s.i += 1; return True
        return False
    def expect(s, x):
        y = s.next()
        if y != x: raise ValueError('expected %r got %r in %r' % (x, y, ' '.join(s.t[max(0,s.i-8):s.i+8])))
    def done(s): return s.i >= len(s.t)

PARAM_ATTRS = set('noundef nonnull nocapture readonly writeonly noalias signext zeroext inreg returned immarg readnone nofree nest swiftself swifterror'.split())
def skip_attrs(p):
    while True:
        t = p.peek()
        if t in PARAM_ATTRS: p.next(); continue
        if t in ('align', 'dereferenceable', 'dereferenceable_or_null'):
            p.next()
            if p.accept('('): p.next(); p.expect(')')
            else: p.next()
            continue
        if t in ('sret', 'byval', 'byref', 'inalloca', 'preallocated', 'elementtype'):
            p.next(); p.expect('('); parse_type(p); p.expect(')'); continue
        break

def parse_type(p):
    t = p.next()
    if t == 'void': ty = VOID
    elif re.fullmatch(r'i\d+', t): ty = IntTy(int(t[1:]))
    elif t == 'double': ty = FloatTy(64)
    elif t == 'float': ty = FloatTy(32)
    elif t in ('x86_fp80',): ty = FloatTy(80)
    elif t in ('label', 'metadata', 'opaque', 'token'): ty = OtherTy(t)
    elif t == '[':
        n = int(p.next()); p.expect('x'); el = parse_type(p); p.expect(']'); ty = ArrTy(n, el)
    elif t == '<':
        n = int(p.next()); p.expect('x'); el = parse_type(p); p.expect('>'); ty = VecTy(n, el)
    elif t == '{' or t == '<{':
        els = []
        close = '}' if t == '{' else '}>'
        if not p.accept(close):
            while True:
                els.append(parse_type(p))
                if p.accept(close): break
                p.expect(',')
        ty = StructTy(els, t == '<{')
    elif t.startswith('%'):
        ty = NamedTy(t)
    else:
        raise ValueError('type? %r near %r' % (t, ' '.join(p.t[max(0,p.i-6):p.i+6])))
    while True:
        if p.peek() == '*': p.next(); ty = PtrTy(ty)
        elif p.peek() == '(':
            # function type
            p.next(); args = []; va = False
            if not p.accept(')'):
                while True:
                    if p.accept('...'): va = True
                    else:
                        args.append(parse_type(p)); skip_attrs(p)
                    if p.accept(')'): break
                    p.expect(',')
            ty = FnTy(ty, args, va)
        else: break
    return ty

# ---------------- values ----------------
class Const:
    def __init__(s, kind, ty, v=None, ops=None): s.kind = kind; s.ty = ty; s.v = v; s.ops = ops
    def __repr__(s): return 'C(%s,%r)' % (s.kind, s.v)
class Ref:
    def __init__(s, name, ty): s.name = name; s.ty = ty   # %local
    def __repr__(s): return s.name
class GRef:
    def __init__(s, name, ty): s.name = name; s.ty = ty   # @global
    def __repr__(s): return s.name

def hexdouble(h):
    import struct
    return struct.unpack('>d', int(h, 16).to_bytes(8, 'big'))[0]

CE_OPS = ('getelementptr', 'bitcast', 'ptrtoint', 'inttoptr', 'add', 'sub', 'mul', 'trunc', 'zext', 'sext', 'select', 'icmp', 'addrspacecast')
def parse_value(p, ty):
    t = p.next()
    if t.startswith('%'): return Ref(t, ty)
    if t.startswith('@'): return GRef(t, ty)
    if t in ('null', 'zeroinitializer', 'undef', 'poison', 'none'): return Const(t if t != 'poison' else 'undef', ty)
    if t in ('true', 'false'): return Const('int', ty, 1 if t == 'true' else 0)
    if t.startswith('0x'): return Const('fp', ty, hexdouble(t))
    if re.fullmatch(r'-?\d+', t):
        if isinstance(ty, FloatTy): return Const('fp', ty, float(t))
        return Const('int', ty, int(t))
    if re.fullmatch(r'-?\d+\.\d*(?:[eE][-+]?\d+)?', t): return Const('fp', ty, float(t))
    if t.startswith('c"'):
        raw = t[2:-1]; b = bytearray(); i = 0
        while i < len(raw):
            if raw[i] == '\\': b.append(int(raw[i+1:i+3], 16)); i += 3
            else: b.append(ord(raw[i])); i += 1
        return Const('bytes', ty, bytes(b))
    if t == '[' or t == '{' or t == '<{' or t == '<':
        close = {'[': ']', '{': '}', '<{': '}>', '<': '>'}[t]
        els = []
        if not p.accept(close):
            while True:
                ety = parse_type(p); els.append(parse_value(p, ety))
                if p.accept(close): break
                p.expect(',')
        return Const('agg', ty, ops=els)
    if t in CE_OPS:
        flags = []
        while p.peek() in ('inbounds', 'nuw', 'nsw', 'exact'): flags.append(p.next())
        p.expect('(')
        if t == 'getelementptr':
            sty = parse_type(p); p.expect(',')
            ops = []
            while True:
                if p.peek() == 'inrange': p.next()
                oty = parse_type(p); ops.append(parse_value(p, oty))
                if p.accept(')'): break
                p.expect(',')
            return Const('gep', ty, v=sty, ops=ops)
        if t in ('bitcast', 'ptrtoint', 'inttoptr', 'trunc', 'zext', 'sext', 'addrspacecast'):
            oty = parse_type(p); o = parse_value(p, oty); p.expect('to'); dty = parse_type(p); p.expect(')')
            return Const('cast', dty, v=t, ops=[o])
        if t == 'icmp':
            pred = p.next(); oty = parse_type(p); a = parse_value(p, oty); p.expect(','); oty2 = parse_type(p); b = parse_value(p, oty2); p.expect(')')
            return Const('icmp', ty, v=pred, ops=[a, b])
        ops = []
        while True:
            oty = parse_type(p); ops.append(parse_value(p, oty))
            if p.accept(')'): break
            p.expect(',')
        return Const('bin', ty, v=t, ops=ops)
    raise ValueError('value? %r ty=%r ctx=%r' % (t, ty, ' '.join(p.t[max(0,p.i-8):p.i+8])))

def parse_tv(p):
    ty = parse_type(p); skip_attrs(p); return parse_value(p, ty)

# ---------------- instructions ----------------
class Ins:
    def __init__(s, op, res=None, **kw): s.op = op; s.res = res; s.__dict__.update(kw)
    def __repr__(s): return '%s=%s' % (s.res, s.op)

BINOPS = set('add sub mul sdiv udiv srem urem shl lshr ashr and or xor fadd fsub fmul fdiv frem'.split())
CASTS = set('bitcast zext sext trunc sitofp uitofp fptosi fptoui ptrtoint inttoptr fpext fptrunc addrspacecast'.split())
FMF = set('nnan ninf nsz arcp contract afn reassoc fast nuw nsw exact'.split())

def strip_meta(toks):
    # drop trailing ", !tbaa !5, !range !18" and "#13"
    out = []; i = 0
    while i < len(toks):
        if toks[i] == ',' and i+1 < len(toks) and toks[i+1].startswith('!') : break
        out.append(toks[i]); i += 1
    out = [t for t in out if not re.fullmatch(r'#\d+', t)]
    return out

def parse_call_tail(p, op, res):
    # after 'call'/'invoke' [fmf] [cconv] [ret attrs] type [fnty] callee(args)
    while p.peek() in FMF or p.peek() in ('fastcc', 'ccc', 'coldcc', 'tail', 'musttail', 'notail'): p.next()
    skip_attrs(p)
    rty = parse_type(p)
    fty = None
    if isinstance(rty, PtrTy) and isinstance(rty.to, FnTy) and (p.peek().startswith('@') or p.peek().startswith('%')) and p.peek(1) == '(':
        # explicit fn pointer type given (varargs); result type is fn ret
        fty = rty.to; rty = fty.ret
    elif isinstance(rty, FnTy):
        fty = rty; rty = fty.ret
    callee_tok = p.next()
    if callee_tok.startswith('@'): callee = GRef(callee_tok, None)
    elif callee_tok.startswith('%'): callee = Ref(callee_tok, None)
    else:
        # constant expr callee e.g. bitcast (...)
        p.i -= 1; callee = parse_value(p, None)
    p.expect('(')
    args = []
    if not p.accept(')'):
        while True:
            aty = parse_type(p); skip_attrs(p)
            if isinstance(aty, OtherTy) and aty.n == 'metadata':
                # skip metadata arg
                depth = 0
                while not (depth == 0 and p.peek() in (',', ')')):
                    t = p.next()
                    if t in ('(', '{'): depth += 1
                    if t in (')', '}'): depth -= 1
                args.append(None)
            else:
                args.append(parse_value(p, aty))
            if p.accept(')'): break
            p.expect(',')
    ins = Ins(op, res, rty=rty, callee=callee, args=args)
    return ins

def parse_ins(line):
    toks = strip_meta(tokenize(line))
    p = P(toks)
    res = None
    if p.peek(1) == '=' and p.peek().startswith('%'):
        res = p.next(); p.next()
    op = p.next()
    if op in ('tail', 'musttail', 'notail'): op = p.next()
    if op in BINOPS:
        while p.peek() in FMF: p.next()
        ty = parse_type(p); a = parse_value(p, ty); p.expect(','); b = parse_value(p, ty)
        return Ins(op, res, ty=ty, a=a, b=b)
    if op == 'fneg':
        while p.peek() in FMF: p.next()
        ty = parse_type(p); a = parse_value(p, ty); return Ins(op, res, ty=ty, a=a)
    if op in ('icmp', 'fcmp'):
        while p.peek() in FMF: p.next()
        pred = p.next(); ty = parse_type(p); a = parse_value(p, ty); p.expect(','); b = parse_value(p, ty)
        return Ins(op, res, pred=pred, ty=ty, a=a, b=b)
    if op in CASTS:
        ty = parse_type(p); a = parse_value(p, ty); p.expect('to'); dty = parse_type(p)
        return Ins('cast', res, kind=op, ty=ty, a=a, dty=dty)
    if op == 'load':
        if p.peek() in ('volatile', 'atomic'): p.next()
        ty = parse_type(p); p.expect(','); pty = parse_type(p); ptr = parse_value(p, pty)
        return Ins(op, res, ty=ty, ptr=ptr)
    if op == 'store':
        if p.peek() in ('volatile', 'atomic'): p.next()
        ty = parse_type(p); v = parse_value(p, ty); p.expect(','); pty = parse_type(p); ptr = parse_value(p, pty)
        return Ins(op, res, ty=ty, v=v, ptr=ptr)
    if op == 'getelementptr':
        p.accept('inbounds')
        sty = parse_type(p); p.expect(','); pty = parse_type(p); base = parse_value(p, pty); idx = []
        while p.accept(','):
            ity = parse_type(p); idx.append(parse_value(p, ity))
        return Ins('gep', res, sty=sty, base=base, idx=idx)
    if op == 'alloca':
        ty = parse_type(p); n = None
        if p.accept(','):
            if p.peek() == 'align': pass
            else:
                nty = parse_type(p); n = parse_value(p, nty)
        return Ins(op, res, ty=ty, n=n)
    if op == 'br':
        if p.peek() == 'label': p.next(); return Ins(op, res, cond=None, t=p.next(), f=None)
        ty = parse_type(p); c = parse_value(p, ty); p.expect(','); p.expect('label'); t = p.next(); p.expect(','); p.expect('label'); f = p.next()
        return Ins(op, res, cond=c, t=t, f=f)
    if op == 'ret':
        ty = parse_type(p)
        if isinstance(ty, VoidTy): return Ins(op, res, v=None)
        return Ins(op, res, v=parse_value(p, ty))
    if op == 'phi':
        while p.peek() in FMF: p.next()
        ty = parse_type(p); inc = []
        while True:
            p.expect('['); v = parse_value(p, ty); p.expect(','); lbl = p.next(); p.expect(']'); inc.append((v, lbl))
            if not p.accept(','): break
        return Ins(op, res, ty=ty, inc=inc)
    if op == 'select':
        while p.peek() in FMF: p.next()
        cty = parse_type(p); c = parse_value(p, cty); p.expect(','); ty = parse_type(p); a = parse_value(p, ty); p.expect(','); ty2 = parse_type(p); b = parse_value(p, ty2)
        return Ins(op, res, c=c, ty=ty, a=a, b=b)
    if op == 'switch':
        ty = parse_type(p); v = parse_value(p, ty); p.expect(','); p.expect('label'); dflt = p.next(); p.expect('[')
        cases = []
        while not p.accept(']'):
            cty = parse_type(p); cv = parse_value(p, cty); p.expect(','); p.expect('label'); cases.append((cv.v, p.next()))
        return Ins(op, res, v=v, dflt=dflt, cases=cases)
    if op == 'call':
        return parse_call_tail(p, 'call', res)
    if op == 'invoke':
        ins = parse_call_tail(p, 'invoke', res)
        p.expect('to'); p.expect('label'); ins.normal = p.next(); p.expect('unwind'); p.expect('label'); ins.unwind = p.next()
        return ins
    if op == 'extractvalue':
        ty = parse_type(p); a = parse_value(p, ty); idx = []
        while p.accept(','): idx.append(int(p.next()))
        return Ins(op, res, ty=ty, a=a, idx=idx)
    if op == 'insertvalue':
        ty = parse_type(p); a = parse_value(p, ty); p.expect(','); ety = parse_type(p); e = parse_value(p, ety); idx = []
        while p.accept(','): idx.append(int(p.next()))
        return Ins(op, res, ty=ty, a=a, e=e, idx=idx)
    if op == 'landingpad':
        return Ins(op, res, raw=toks)
    if op == 'resume':
        ty = parse_type(p); return Ins(op, res, v=parse_value(p, ty))
    if op == 'unreachable': return Ins(op, res)
    if op == 'freeze':
        ty = parse_type(p); return Ins('freeze', res, a=parse_value(p, ty))
    if op in ('cleanup', 'catch', 'filter'): return Ins('lpclause', res, raw=toks)
    raise ValueError('unsupported instruction: ' + line.strip())

class Func:
    def __init__(s, name, ret, params): s.name = name; s.ret = ret; s.params = params; s.blocks = {}; s.order = []
class Module:
    def __init__(s): s.types = {}; s.funcs = {}; s.decls = set(); s.globals = {}

def parse_module(text):
    m = Module()
    lines = text.split('\n'); i = 0
    while i < len(lines):
        ln = lines[i]
        if ln.startswith('%') and ' = type ' in ln:
            name, rest = ln.split(' = type ', 1)
            toks = tokenize(rest)
            if toks[0] == 'opaque': m.types[name.strip()] = StructTy([])
            else: m.types[name.strip()] = parse_type(P(toks))
        elif ln.startswith('@') and ' = ' in ln:
            name, rest = ln.split(' = ', 1)
            m.globals[name.strip()] = rest
        elif ln.startswith('declare '):
            mm = re.search(r'@("[^"]+"|[-\w.$]+)\(', ln)
            m.decls.add('@' + mm.group(1))
        elif ln.startswith('define '):
            hdr = ln
            mm = re.search(r'@("[^"]+"|[-\w.$]+)\(', hdr)
            name = '@' + mm.group(1)
            # parse params
            # parameter list only: from the '(' after the name to its matching ')' (attributes such as comdat($sym) follow it)
            st = mm.end() - 1; depth = 0; en = st
            for en in range(st, len(hdr)):
                if hdr[en] == '(': depth += 1
                elif hdr[en] == ')':
                    depth -= 1
                    if depth == 0: break
            toks = tokenize(hdr[st:en + 1])
            p = P(toks); p.expect('(')
            params = []
            k = 0
            if not p.accept(')'):
                while True:
                    if p.accept('...'): pass
                    else:
                        ty = parse_type(p); skip_attrs(p)
                        if p.peek() and p.peek().startswith('%'): pn = p.next()
                        else: pn = '%%%d' % k
                        params.append((pn, ty)); k += 1
                    if p.accept(')'): break
                    p.expect(',')
            f = Func(name, None, params)
            # ret type: tokens between 'define' and '@name'
            pre = tokenize(hdr[:mm.start()])
            # find last type in pre: try progressively
            for s0 in range(len(pre)):
                try:
                    pp = P(pre[s0:]); skip_attrs(pp); ty = parse_type(pp)
                    if pp.done(): f.ret = ty; break
                except Exception: continue
            i += 1
            cur = '%%%d' % k  # entry label is next unnamed value
            f.order.append(cur); f.blocks[cur] = []
            while not lines[i].startswith('}'):
                l = lines[i]
                if l.strip() == '' or l.lstrip().startswith(';'): i += 1; continue
                lm = re.match(r'^("[^"]+"|[-\w.$]+):', l)
                if lm:
                    cur = '%' + lm.group(1); f.order.append(cur); f.blocks[cur] = []
                else:
                    st = l.strip()
                    if st.startswith('to label') and f.blocks[cur]:
                        f.blocks[cur][-1] += ' ' + st
                    elif f.blocks[cur] and re.match(r'\s+(%[\w.]+ = )?switch ', f.blocks[cur][-1]) and not f.blocks[cur][-1].rstrip().endswith(']'):
                        f.blocks[cur][-1] += ' ' + st
                    else:
                        f.blocks[cur].append(l)
                i += 1
            m.funcs[name] = f
        i += 1
    return m
