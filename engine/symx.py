# E2: symbolic interpreter over LLVM IR text (concrete control/pointers, symbolic data over R/Z via z3).
# fpmode 'real': doubles are exact rationals / z3 Reals.  fpmode 'float': doubles are Python floats (IEEE) for
# encoder validation against native execution (no symbolic data allowed in that mode).
import os
import sys, math, time, re
from fractions import Fraction
import z3
from llir import *

sys.setrecursionlimit(100000)

class Ptr:
    __slots__ = ('obj', 'off')
    def __init__(s, obj, off=0): s.obj = obj; s.off = off
    def __repr__(s): return 'P(%s+%d)' % (s.obj, s.off)
    def __eq__(s, o): return isinstance(o, Ptr) and s.obj == o.obj and s.off == o.off
    def __hash__(s): return hash((s.obj, s.off))
NULL = Ptr(0, 0)
class NegP:
    """integer value -(address of obj+off)-1, produced by `xor ptrtoint, -1`"""
    def __init__(s, obj, off): s.obj = obj; s.off = off
class SymPtr:
    """pointer into a constant table with one symbolic index: address = obj + off + idx*stride"""
    def __init__(s, obj, off, idx, stride): s.obj = obj; s.off = off; s.idx = idx; s.stride = stride
class FnPtr:
    def __init__(s, name): s.name = name
    def __eq__(s, o): return isinstance(o, FnPtr) and s.name == o.name
    def __hash__(s): return hash(s.name)
    def __repr__(s): return 'F(%s)' % s.name
class Undef:
    def __repr__(s): return 'undef'
UNDEF = Undef()

FEAS_TIMEOUT_MS = 2000

import itertools as _it
_LAYOUT = {}
_FRESH = _it.count(1)
_RAT = {}
def rationalise(f):
    """Real-mode reading of a double literal: if it is the nearest double to a rational p/q with q <= 1000
    (the source wrote 1.0/6.0, 0.1, ...), take p/q; otherwise its exact binary value."""
    r = _RAT.get(f)
    if r is None:
        ex = Fraction(f); sm = ex.limit_denominator(1000)
        r = sm if float(sm) == f else ex
        if r is ex and f > 0:
            # nearest double to the square root of a small rational (std::sqrt(3) folded by the compiler): keep it as that square root
            sq = (ex * ex).limit_denominator(100)
            # ... or one ulp next to it (2./std::sqrt(3) evaluated in doubles is one ulp above the nearest double to sqrt(4/3))
            if sq > 0 and (math.sqrt(sq) == f or math.nextafter(math.sqrt(sq), math.inf) == f or math.nextafter(math.sqrt(sq), -math.inf) == f):
                rn = math.isqrt(sq.numerator); rd = math.isqrt(sq.denominator)
                if not (rn * rn == sq.numerator and rd * rd == sq.denominator):
                    import z3 as _z3
                    r = _z3.Function('sqrt', _z3.RealSort(), _z3.RealSort())(_z3.RealVal(sq))
        _RAT[f] = r
    return r

class Thrown(Exception):
    def __init__(s, exn): s.exn = exn
class PathEnd(Exception): pass
class Unsupported(Exception): pass

def is_sym(v): return z3.is_expr(v)

class Obj:
    def __init__(s, size, name=''):
        s.size = size; s.cells = {}; s.name = name; s.freed = False

class Interp:
    def __init__(s, module, models=None):
        s.m = module; s.objs = {}; s.nobj = 0; s.gaddr = {}
        s.models = models or {}
        s.pc = []            # path condition (z3 bools)
        s.solver = z3.Solver(); s.solver.set('timeout', FEAS_TIMEOUT_MS)
        s.unknown_feas = 0
        s.decisions = []     # prefix to follow
        s.dpos = 0
        s.pending = []       # alternative prefixes
        s.icount = 0
        s.parsed = {}
        s.fresh = 0
        s.trace = []
        s.sizes = {}
        s.fpmode = 'real'
        s.cur_exn = None
        s.fptosi_log = []
        s.table_loads = []
        s.round_log = []
        s.deadline = None
        s.typeid_matches = 0
        s.undef_reads = 0
        s._lay = _LAYOUT.setdefault(id(module), {})
        s.div_by_sym = []
        s.watch = {}
        s.events = []
        s._mcache = {}
        s.models_used = set()
        s.funcs_run = set()
        s.max_instr = 50_000_000
        s.on_call = None
        s.callstack = []
    # ----- layout -----
    def resolve(s, ty):
        while isinstance(ty, NamedTy): ty = s.m.types[ty.name]
        return ty
    def align(s, ty):
        if isinstance(ty, NamedTy):
            r = s._lay.get(('a', ty.name))
            if r is None: r = s._align(ty); s._lay[('a', ty.name)] = r
            return r
        return s._align(ty)
    def _align(s, ty):
        ty = s.resolve(ty)
        if isinstance(ty, IntTy): return max(1, min(8, (ty.bits + 7) // 8)) if ty.bits <= 64 else 16
        if isinstance(ty, FloatTy): return 8 if ty.bits == 64 else (4 if ty.bits == 32 else 16)
        if isinstance(ty, PtrTy) or isinstance(ty, FnTy): return 8
        if isinstance(ty, ArrTy): return s.align(ty.el)
        if isinstance(ty, VecTy): return min(16, s.size(ty))
        if isinstance(ty, StructTy):
            if ty.packed or not ty.els: return 1
            return max(s.align(e) for e in ty.els)
        raise Unsupported('align %r' % ty)
    def size(s, ty):
        if isinstance(ty, NamedTy):
            r = s._lay.get(('s', ty.name))
            if r is None: r = s._size(ty); s._lay[('s', ty.name)] = r
            return r
        return s._size(ty)
    def _size(s, ty):
        ty = s.resolve(ty)
        if isinstance(ty, IntTy): return (ty.bits + 7) // 8 if ty.bits <= 64 else 16
        if isinstance(ty, FloatTy): return ty.bits // 8 if ty.bits != 80 else 16
        if isinstance(ty, PtrTy) or isinstance(ty, FnTy): return 8
        if isinstance(ty, ArrTy): return ty.n * s.size(ty.el)
        if isinstance(ty, VecTy): return ty.n * s.size(ty.el)
        if isinstance(ty, StructTy):
            off = 0
            for e in ty.els:
                if not ty.packed:
                    a = s.align(e); off = (off + a - 1) // a * a
                off += s.size(e)
            if not ty.packed and ty.els:
                a = s.align(ty); off = (off + a - 1) // a * a
            return off
        raise Unsupported('size %r' % ty)
    def field_off(s, ty, k):
        if isinstance(ty, NamedTy):
            key = ('f', ty.name, k); r = s._lay.get(key)
            if r is None: r = s._field_off(ty, k); s._lay[key] = r
            return r
        return s._field_off(ty, k)
    def _field_off(s, ty, k):
        ty = s.resolve(ty); off = 0
        for j, e in enumerate(ty.els):
            if not ty.packed:
                a = s.align(e); off = (off + a - 1) // a * a
            if j == k: return off
            off += s.size(e)
        raise IndexError
    # ----- memory -----
    def alloc(s, size, name=''):
        s.nobj += 1; s.objs[s.nobj] = Obj(size, name); return Ptr(s.nobj, 0)
    def store(s, ptr, v, size):
        if not isinstance(ptr, Ptr) or ptr.obj == 0: raise Unsupported('store to %r' % (ptr,))
        if s.watch and (ptr.obj, ptr.off) in s.watch:
            s.watch[(ptr.obj, ptr.off)]('store', s, ptr, size, v)
        o = s.objs[ptr.obj]
        if ptr.off < 0 or ptr.off + size > o.size: raise Unsupported('OOB store %r size %d objsize %d (%s)' % (ptr, size, o.size, o.name))
        # remove overlapping cells
        for k in [k for k, (vv, sz) in o.cells.items() if k < ptr.off + size and ptr.off < k + sz]:
            if k == ptr.off and o.cells[k][1] == size: continue
            # split concrete ints if partially overlapped
            vv, sz = o.cells.pop(k)
            if isinstance(vv, int):
                for b in range(sz):
                    if not (ptr.off <= k + b < ptr.off + size): o.cells[k + b] = ((vv >> (8 * b)) & 0xff, 1)
        o.cells[ptr.off] = (v, size)
    def load(s, ptr, size, ty=None):
        if isinstance(ptr, SymPtr):
            o = s.objs[ptr.obj]; n = (o.size - ptr.off) // ptr.stride if ptr.stride > 0 else 0
            vals = [s.load(Ptr(ptr.obj, ptr.off + k * ptr.stride), size, ty) for k in range(n) if ptr.off + k * ptr.stride + size <= o.size]
            if not vals: raise Unsupported('empty symbolic table')
            isf = isinstance(s.resolve(ty), FloatTy) if ty is not None else False
            conv = s.R if isf else s.I
            idx = ptr.idx
            s.assume(z3.And(idx >= 0, idx < len(vals)))      # in-bounds: the guarding icmp of the switch lowering was already taken
            e = conv(vals[-1])
            for k in range(len(vals) - 2, -1, -1): e = z3.If(idx == k, conv(vals[k]), e)
            s.table_loads.append((o.name, len(vals)))
            return e
        if not isinstance(ptr, Ptr) or ptr.obj == 0: raise Unsupported('load from %r' % (ptr,))
        if s.watch and (ptr.obj, ptr.off) in s.watch:
            r = s.watch[(ptr.obj, ptr.off)]('load', s, ptr, size, None)
            if r is not None: return r[0]
        o = s.objs[ptr.obj]
        if ptr.off < 0 or ptr.off + size > o.size: raise Unsupported('OOB load %r size %d objsize %d (%s)' % (ptr, size, o.size, o.name))
        c = o.cells.get(ptr.off)
        if c is not None and c[1] == size: return s.coerce(c[0], ty)
        # assemble from bytes / slice of a larger concrete int
        val = 0; ok = True
        for b in range(size):
            cb = o.cells.get(ptr.off + b)
            if cb is not None and cb[1] == 1 and isinstance(cb[0], int): val |= (cb[0] & 0xff) << (8 * b); continue
            # find covering cell
            found = False
            for k, (vv, sz) in o.cells.items():
                if k <= ptr.off + b < k + sz and isinstance(vv, int):
                    val |= ((vv >> (8 * (ptr.off + b - k))) & 0xff) << (8 * b); found = True; break
            if not found:
                # byte never written (e.g. the unused tail of a small-string buffer copied as a whole): reads as 0, counted
                if any(k2 <= ptr.off + b < k2 + sz2 for k2, (vv2, sz2) in o.cells.items()): ok = False; break
                s.undef_reads += 1
        if ok: return s.coerce(val, ty)
        if c is None and not any(k < ptr.off + size and ptr.off < k + sz for k, (vv, sz) in o.cells.items()):
            return UNDEF
        raise Unsupported('misaligned/partial load %r size %d cells %r' % (ptr, size, sorted(o.cells.items())[:6]))
    def coerce(s, v, ty):
        if ty is None: return v
        ty = s.resolve(ty)
        if isinstance(ty, PtrTy) and isinstance(v, int) and v == 0: return NULL
        if isinstance(ty, FloatTy) and isinstance(v, int) and not isinstance(v, bool):
            if v == 0: return Fraction(0) if s.fpmode == 'real' else 0.0
            import struct
            f = struct.unpack('<d', (v & ((1 << 64) - 1)).to_bytes(8, 'little'))[0]
            return f if s.fpmode == 'float' else Fraction(f)
        if isinstance(ty, IntTy) and isinstance(v, (Fraction, float)):
            import struct
            return int.from_bytes(struct.pack('<d', float(v)), 'little')
        return v
    def memcpy(s, dst, src, n):
        if n == 0: return
        so = s.objs[src.obj]; items = [(k, c) for k, c in so.cells.items() if src.off <= k < src.off + n]
        do = s.objs[dst.obj]
        for k in [k for k, (vv, sz) in do.cells.items() if k < dst.off + n and dst.off < k + sz]: del do.cells[k]
        for k, (vv, sz) in items:
            if k + sz > src.off + n:
                if isinstance(vv, int):
                    for b in range(src.off + n - k): do.cells[dst.off + k - src.off + b] = ((vv >> (8 * b)) & 0xff, 1)
                continue
            do.cells[dst.off + (k - src.off)] = (vv, sz)
    def cstr(s, ptr):
        out = bytearray()
        while True:
            b = s.load(Ptr(ptr.obj, ptr.off + len(out)), 1)
            if b is UNDEF or b == 0: break
            out.append(b & 0xff)
        return bytes(out)
    # ----- globals -----
    def global_ptr(s, name):
        if name in s.gaddr: return s.gaddr[name]
        if name in s.m.funcs or name in s.m.decls: return FnPtr(name)
        if name in ('@_ZSt4cout', '@_ZSt4cerr', '@_ZSt4clog'):
            r = make_ostream(s, name); s.gaddr[name] = r; return r
        if name.startswith('@_ZTTNSt7__cxx11') and 'stringstream' in name:
            # VTT of the string streams (inlined destructors): basic_ios at 128 (stringstream), 112 (ostringstream), 120 (istringstream)
            off = 112 if 'basic_ostringstream' in name else (120 if 'basic_istringstream' in name else 128)
            vt = s.alloc(128, name + '-vtable(model)'); s.zerofill(vt, 128); s.store(Ptr(vt.obj, 64 - 24), off, 8)
            r = s.alloc(128, name + '(model)')
            for k in range(16): s.store(Ptr(r.obj, 8 * k), Ptr(vt.obj, 64), 8)
            s.gaddr[name] = r; return r
        if name.startswith('@_ZTTSt14basic_ofstream') or name.startswith('@_ZTTSt14basic_ifstream'):
            # VTT of the file streams (used by their inlined destructors): every entry points to a vtable whose
            # virtual-base offset is that of basic_ios inside the stream object (libstdc++ x86-64: 248 / 256)
            vt = s.alloc(128, name + '-vtable(model)'); s.zerofill(vt, 128); s.store(Ptr(vt.obj, 64 - 24), 248 if 'ofstream' in name else 256, 8)
            r = s.alloc(64, name + '(model)')
            for k in range(8): s.store(Ptr(r.obj, 8 * k), Ptr(vt.obj, 64), 8)
            s.gaddr[name] = r; return r
        if re.match(r'^@_ZTI[a-z]$', name):
            # type_info of a fundamental type lives in libsupc++ (external): { vptr, name } with the one-letter mangled name
            r = s.alloc(16, name + '(model)'); s.zerofill(r, 16)
            nm = s.alloc(2, name + '-name(model)'); s.store(Ptr(nm.obj, 0), ord(name[-1]), 1); s.store(Ptr(nm.obj, 1), 0, 1)
            s.store(Ptr(r.obj, 8), nm, 8); s.gaddr[name] = r; return r
        rest = s.m.globals.get(name)
        if rest is None: raise Unsupported('unknown global ' + name)
        toks = tokenize(rest); p = P(toks)
        while p.peek() in ('private', 'internal', 'external', 'linkonce_odr', 'weak_odr', 'linkonce', 'weak', 'common', 'available_externally', 'dso_local', 'unnamed_addr', 'local_unnamed_addr', 'hidden', 'appending', 'thread_local', 'extern_weak'): p.next()
        kind = p.next()  # global / constant / alias
        if kind == 'alias':
            ty = parse_type(p); p.expect(','); v = parse_tv(p); r = s.const(v); s.gaddr[name] = r; return r
        ty = parse_type(p)
        ptr = s.alloc(max(1, s.size(ty)), name); s.gaddr[name] = ptr
        if not p.done() and p.peek() not in (',',):
            init = parse_value(p, ty); s.store_const(ptr, ty, init)
        return ptr
    def store_const(s, ptr, ty, c):
        ty = s.resolve(ty)
        if isinstance(c, Const) and c.kind == 'zeroinitializer':
            s.zero(ptr, ty); return
        if isinstance(c, Const) and c.kind == 'undef': return
        if isinstance(c, Const) and c.kind == 'bytes':
            for i, b in enumerate(c.v): s.store(Ptr(ptr.obj, ptr.off + i), b, 1)
            return
        if isinstance(c, Const) and c.kind == 'agg':
            if isinstance(ty, ArrTy):
                es = s.size(ty.el)
                for i, e in enumerate(c.ops): s.store_const(Ptr(ptr.obj, ptr.off + i * es), ty.el, e)
            else:
                for i, e in enumerate(c.ops): s.store_const(Ptr(ptr.obj, ptr.off + s.field_off(ty, i)), ty.els[i], e)
            return
        s.store(ptr, s.const(c), s.size(ty))
    def zero(s, ptr, ty):
        ty = s.resolve(ty)
        if isinstance(ty, ArrTy):
            es = s.size(ty.el)
            for i in range(ty.n): s.zero(Ptr(ptr.obj, ptr.off + i * es), ty.el)
        elif isinstance(ty, StructTy):
            for i, e in enumerate(ty.els): s.zero(Ptr(ptr.obj, ptr.off + s.field_off(ty, i)), e)
        elif isinstance(ty, (PtrTy, FnTy)): s.store(ptr, NULL, 8)
        elif isinstance(ty, FloatTy): s.store(ptr, Fraction(0) if s.fpmode == 'real' else 0.0, s.size(ty))
        else: s.store(ptr, 0, s.size(ty))
    # ----- constants -----
    def const(s, c):
        if isinstance(c, GRef): return s.global_ptr(c.name)
        k = c.kind
        if k == 'int': return c.v & ((1 << s.resolve(c.ty).bits) - 1) if isinstance(s.resolve(c.ty), IntTy) else c.v
        if k == 'fp':
            if s.fpmode == 'float': return float(c.v)
            if math.isinf(c.v) or math.isnan(c.v): return c.v
            return rationalise(c.v)
        if k == 'null': return NULL
        if k == 'undef': return UNDEF
        if k == 'zeroinitializer':
            ty = s.resolve(c.ty)
            if isinstance(ty, IntTy): return 0
            if isinstance(ty, FloatTy): return Fraction(0) if s.fpmode == 'real' else 0.0
            if isinstance(ty, PtrTy): return NULL
            if isinstance(ty, StructTy): return [s.const(Const('zeroinitializer', e)) for e in ty.els]
            if isinstance(ty, ArrTy): return [s.const(Const('zeroinitializer', ty.el)) for _ in range(ty.n)]
            raise Unsupported('zeroinit %r' % ty)
        if k == 'cast':
            v = s.val_c(c.ops[0])
            if c.v in ('bitcast', 'addrspacecast'): return v
            if c.v == 'ptrtoint':
                return v
            return v
        if k == 'gep':
            base = s.val_c(c.ops[0]); return s.gep(c.v, base, [s.val_c(o) for o in c.ops[1:]])
        if k == 'agg': return [s.val_c(o) for o in c.ops]
        raise Unsupported('const %r' % c)
    def val_c(s, v):
        if isinstance(v, GRef) or isinstance(v, Const): return s.const(v)
        raise Unsupported('non-constant in constant expr')
    def gep(s, sty, base, idxs):
        if isinstance(base, FnPtr): return base
        if not isinstance(base, Ptr): raise Unsupported('gep on non-pointer base %r in %s' % (base, s.callstack[-1] if s.callstack else '?'))
        off = 0; ty = sty
        for n, i in enumerate(idxs):
            if is_sym(i): raise Unsupported('symbolic GEP index')
            if isinstance(i, int) and i >= 1 << 63: i -= 1 << 64
            if isinstance(i, int) and n > 0 and False: pass
            if n == 0: off += i * s.size(ty)
            else:
                ty = s.resolve(ty)
                if isinstance(ty, StructTy): off += s.field_off(ty, i); ty = ty.els[i]
                elif isinstance(ty, (ArrTy, VecTy)): off += i * s.size(ty.el); ty = ty.el
                else: raise Unsupported('gep into %r' % ty)
        return Ptr(base.obj, base.off + off)
    # ----- solver helpers -----
    def feasible(s, cond):
        s.solver.push(); s.solver.add(cond); r = s.solver.check(); s.solver.pop()
        if r == z3.unknown:
            # over-approximate: an undecided side is explored (its obligations are still discharged by the
            # solver later; a path that is in fact infeasible only adds vacuous obligations)
            s.unknown_feas += 1; return True
        return r == z3.sat
    def assume(s, cond):
        s.pc.append(cond); s.solver.add(cond)
    def branch(s, cond):
        """cond: z3 Bool. returns python bool chosen for this path."""
        cond = z3.simplify(cond)
        if z3.is_true(cond): return True
        if z3.is_false(cond): return False
        if s.deadline is not None and time.time() > s.deadline: raise Unsupported('exploration deadline exceeded')
        dec = s.__dict__.setdefault('_decided', {})
        hit = dec.get(cond.get_id())         # same condition already decided on this path (AST kept alive in the entry)
        if hit is not None: return hit[1]
        us = s.__dict__.get('_uniq_subst')
        if us is not None:
            # the path condition has exactly one model on the tracked variables: a condition over them alone is decided by evaluation
            c2 = z3.simplify(z3.substitute(cond, us))
            if z3.is_true(c2) or z3.is_false(c2):
                d = z3.is_true(c2); dec[cond.get_id()] = (cond, d); s.uniq_evals = s.__dict__.get('uniq_evals', 0) + 1; return d
        d = s._branch(cond); dec[cond.get_id()] = (cond, d); return d
    def _after_decision(s, fresh):
        """Tracked variables (set by the harness in s.track_vars): once the path condition determines all of them, later
        conditions over them are evaluated instead of sent to the solver.  The point where this happens is recorded in the
        decision list (('uniq',)) so that a replay of the prefix switches at exactly the same place."""
        tv = s.__dict__.get('track_vars')
        if not tv or s.__dict__.get('_uniq_subst') is not None: return
        if not fresh:
            if s.dpos < len(s.decisions) and s.decisions[s.dpos] == ('uniq',):
                s.dpos += 1
                sv = z3.Solver(); sv.set('timeout', 60000); sv.add(*s.pc)
                if sv.check() != z3.sat: raise Unsupported('replay: unique-model marker but path condition not satisfiable')
                m = sv.model(); s._uniq_subst = [(v, m.eval(v, model_completion=True)) for v in tv]
            return
        if s.solver.check() != z3.sat: return
        m = s.solver.model(); vals = [(v, m.eval(v, model_completion=True)) for v in tv]
        s.solver.push(); s.solver.add(z3.Or([v != x for v, x in vals])); r = s.solver.check(); s.solver.pop()
        if r == z3.unsat:
            s._uniq_subst = vals; s.decisions.append(('uniq',)); s.dpos += 1
    def _branch(s, cond):
        if s.dpos < len(s.decisions):
            d = s.decisions[s.dpos]; s.dpos += 1
            s.assume(cond if d else z3.Not(cond)); s._after_decision(False)
            return d
        else:
            ft = s.feasible(cond); ff = s.feasible(z3.Not(cond))
            if ft and ff:
                s.pending.append(s.decisions[:s.dpos] + [False]); d = True
            elif ft: d = True
            elif ff: d = False
            else: raise PathEnd()
            s.decisions.append(d); s.dpos += 1
        s.assume(cond if d else z3.Not(cond))
        if ft and ff: s._after_decision(True)
        return d
    def choose(s, e, lo=-1, hi=4096):
        """Case-split a symbolic integer by model-guided choice: the solver proposes a value, the alternative (all other values)
        is queued.  Decisions are recorded as ('pick', v) / ('excl', [..]) so that decision prefixes replay deterministically."""
        e = s.I(e)
        if s.deadline is not None and time.time() > s.deadline: raise Unsupported('exploration deadline exceeded')
        known = s.__dict__.setdefault('_chosen', {})
        hit = known.get(e.get_id())          # the AST is kept alive in the entry, so its id cannot be reused
        if hit is not None: return hit[1]
        us = s.__dict__.get('_uniq_subst')
        if us is not None:
            e2 = z3.simplify(z3.substitute(e, us))
            if z3.is_int_value(e2):
                v = e2.as_long(); known[e.get_id()] = (e, v); return v
        v = s._choose(e, lo, hi); known[e.get_id()] = (e, v); return v
    def _choose(s, e, lo, hi):
        excl = []
        if s.dpos < len(s.decisions):
            d = s.decisions[s.dpos]
            if d[0] == 'pick':
                s.dpos += 1; s.assume(e == d[1]); s._after_decision(False); return d[1]
            excl = list(d[1])
        else:
            s.decisions.append(('excl', []))
        s.solver.push()
        for x in excl: s.solver.add(e != x)
        r = s.solver.check(); sv = s.solver
        if r == z3.unknown:
            # the incremental solver ran into its (short) feasibility timeout: once more from scratch with a generous one
            sv = z3.Solver(); sv.set('timeout', 60000); sv.add(*s.pc)
            for x in excl: sv.add(e != x)
            r = sv.check()
        if r != z3.sat:
            s.solver.pop()
            if r == z3.unknown: raise Unsupported('choose: solver answered unknown')
            raise PathEnd()
        v = sv.model().eval(e, model_completion=True).as_long()
        sv.add(e != v); more = sv.check(); s.solver.pop()
        if not (lo <= v <= hi): raise Unsupported('symbolic index %d outside [%d,%d]' % (v, lo, hi))
        if more != z3.unsat: s.pending.append(s.decisions[:s.dpos] + [('excl', excl + [v])])
        s.decisions[s.dpos] = ('pick', v); s.dpos += 1
        s.assume(e == v)
        s._after_decision(True)
        return v
    def concretize(s, e, limit=None):
        """case-split a symbolic integer (an allocation size, typically) over 0..limit; deterministic, so that decision
        prefixes replay.  Values above the limit end the path as outside the stated bound."""
        limit = limit if limit is not None else getattr(s, 'alloc_limit', 256)
        for v in range(0, limit + 1):
            if s.branch(s.I(e) == v): return v
        s.bound_cut = getattr(s, 'bound_cut', 0) + 1
        raise PathEnd()
    def newsym(s, prefix, sort='real'):
        # globally unique across interpreter instances: obligations routinely combine the path conditions of several runs
        s.fresh = next(_FRESH)
        n = '%s!%d' % (prefix, s.fresh)
        return z3.Real(n) if sort == 'real' else z3.Int(n)
    # ----- arithmetic helpers -----
    @staticmethod
    def R(x):
        if is_sym(x): return x
        if isinstance(x, Fraction): return z3.RealVal(x)
        if isinstance(x, int): return z3.RealVal(x)
        raise Unsupported('R(%r)' % (x,))
    @staticmethod
    def I(x):
        if is_sym(x): return x
        return z3.IntVal(x)
    def fbin(s, op, a, b):
        if a is UNDEF or b is UNDEF: return UNDEF
        if not is_sym(a) and not is_sym(b):
            if op == 'fadd': return a + b
            if op == 'fsub': return a - b
            if op == 'fmul': return a * b
            if op == 'fdiv':
                if b == 0:
                    if s.fpmode == 'float': return math.copysign(math.inf, a) * math.copysign(1.0, b) if a != 0 else math.nan
                    raise Unsupported('concrete fdiv by zero')
                return a / b
        a = s.R(a); b = s.R(b)
        if op == 'fadd': return a + b
        if op == 'fsub': return a - b
        if op == 'fmul': return a * b
        if op == 'fdiv':
            if getattr(s, 'simplify_divisor', False):
                b2 = z3.simplify(b)
                if z3.is_rational_value(b2) and b2.numerator_as_long() != 0: b = b2
            return a / b
        raise Unsupported(op)
    def ibin(s, op, a, b, bits):
        mask = (1 << bits) - 1
        def sgn(x): return x - (1 << bits) if x >> (bits - 1) else x
        if a is UNDEF or b is UNDEF: return UNDEF
        if isinstance(a, NegP) or isinstance(b, NegP):
            if isinstance(b, NegP): a, b = b, a
            if op == 'add' and isinstance(b, Ptr) and b.obj == a.obj: return (b.off - a.off - 1) & mask
            if op == 'add' and isinstance(b, int): return NegP(a.obj, a.off - sgn(b))
            raise Unsupported('negptr op %s' % op)
        if isinstance(a, Ptr) and op == 'xor' and b == mask: return NegP(a.obj, a.off)
        if isinstance(a, Ptr) or isinstance(b, Ptr):
            # pointer arithmetic through integers
            if op == 'sub' and isinstance(a, Ptr) and isinstance(b, Ptr) and a.obj == b.obj: return (a.off - b.off) & mask
            if op == 'add' and isinstance(a, Ptr) and isinstance(b, int): return Ptr(a.obj, a.off + sgn(b))
            if op == 'add' and isinstance(b, Ptr) and isinstance(a, int): return Ptr(b.obj, b.off + sgn(a))
            if op == 'sub' and isinstance(a, Ptr) and isinstance(b, int): return Ptr(a.obj, a.off - sgn(b))
            if op == 'and' and isinstance(a, Ptr) and isinstance(b, int):
                # alignment masking: assume objects 16-aligned
                if b == (mask & ~15) or b == (mask & -16): return Ptr(a.obj, a.off & ~15)
                return a.off & b
            raise Unsupported('ptr int op %s %r %r' % (op, a, b))
        if not is_sym(a) and not is_sym(b):
            if op == 'add': return (a + b) & mask
            if op == 'sub': return (a - b) & mask
            if op == 'mul': return (a * b) & mask
            if op == 'and': return a & b
            if op == 'or': return a | b
            if op == 'xor': return a ^ b
            if op == 'shl': return (a << b) & mask
            if op == 'lshr': return a >> b
            if op == 'ashr': return (sgn(a) >> b) & mask
            if op == 'udiv': return a // b
            if op == 'urem': return a % b
            if op == 'sdiv':
                x, y = sgn(a), sgn(b); q = abs(x) // abs(y); q = q if (x < 0) == (y < 0) else -q; return q & mask
            if op == 'srem':
                x, y = sgn(a), sgn(b); q = abs(x) // abs(y); q = q if (x < 0) == (y < 0) else -q; return (x - q * y) & mask
        # symbolic: mathematical ints (signed interpretation)
        A = s.I(sgn(a) if not is_sym(a) else a); B = s.I(sgn(b) if not is_sym(b) else b)
        if bits == 1:
            A = a if is_sym(a) else z3.BoolVal(bool(a)); B = b if is_sym(b) else z3.BoolVal(bool(b))
            if op == 'and': return z3.And(A, B)
            if op == 'or': return z3.Or(A, B)
            if op == 'xor': return z3.Xor(A, B)
        if op == 'add': return A + B
        if op == 'sub': return A - B
        if op == 'mul': return A * B
        if op == 'shl' and not is_sym(b): return A * (1 << b)
        if op == 'ashr' and not is_sym(b): return A / (1 << b)
        if op == 'srem':
            if not is_sym(b):
                bb = sgn(b); r = A % abs(bb)   # z3 mod is non-negative for positive divisor
                return z3.If(z3.And(A < 0, r != 0), r - abs(bb), r)
        if op in ('urem', 'udiv') and not is_sym(b) and b > 0:
            # unsigned reading of the (signed-integer) operand: negative values stand for value + 2^bits
            U = z3.If(A < 0, A + (1 << bits), A)
            if op == 'urem': return U % b
            q = U / b
            return q if b > 1 else A
        if op == 'sdiv' and not is_sym(b):
            bb = sgn(b)
            if bb > 0: return z3.If(A >= 0, A / bb, -((-A) / bb))
        if op in ('sdiv', 'srem'):
            # C semantics: truncation toward zero; z3's Int division is floor for non-negative operands
            absA = z3.If(A >= 0, A, -A); absB = z3.If(B >= 0, B, -B)
            s.assume(B != 0)                       # division by zero is UB: outside the explored behaviour (recorded)
            s.div_by_sym.append(B)
            q = absA / absB
            if op == 'sdiv': return z3.If((A >= 0) == (B > 0), q, -q)
            r = absA % absB
            return z3.If(A >= 0, r, -r)
        if op in ('and', 'or', 'xor', 'lshr', 'shl', 'ashr') and bits in (8, 16, 32, 64):
            # bit-precise fallback: machine-word semantics through bit-vectors (wraps like the hardware), result read back as a signed integer
            X = z3.Int2BV(A, bits); Y = z3.Int2BV(B, bits)
            R = {'and': lambda: X & Y, 'or': lambda: X | Y, 'xor': lambda: X ^ Y, 'lshr': lambda: z3.LShR(X, Y), 'shl': lambda: X << Y, 'ashr': lambda: X >> Y}[op]()
            s.bitprecise_ops = getattr(s, 'bitprecise_ops', 0) + 1
            return z3.BV2Int(R, is_signed=True)
        raise Unsupported('symbolic int op %s' % op)
    def icmp(s, pred, a, b, bits):
        def sgn(x): return x - (1 << bits) if x >> (bits - 1) else x
        if isinstance(a, int) and a == 0 and isinstance(b, (Ptr, FnPtr)): a = NULL
        if isinstance(b, int) and b == 0 and isinstance(a, (Ptr, FnPtr)): b = NULL
        if isinstance(a, (Ptr, FnPtr)) or isinstance(b, (Ptr, FnPtr)):
            if pred == 'eq': return int(a == b)
            if pred == 'ne': return int(a != b)
            if isinstance(a, Ptr) and isinstance(b, Ptr) and a.obj == b.obj:
                x, y = a.off, b.off
                return int({'ult': x < y, 'ule': x <= y, 'ugt': x > y, 'uge': x >= y, 'slt': x < y, 'sle': x <= y, 'sgt': x > y, 'sge': x >= y}[pred])
            if isinstance(a, Ptr) and isinstance(b, Ptr):
                # different objects: any fixed total order serves ordered containers keyed by pointers (allocation order here)
                x, y = (a.obj, a.off), (b.obj, b.off)
                return int({'ult': x < y, 'ule': x <= y, 'ugt': x > y, 'uge': x >= y, 'slt': x < y, 'sle': x <= y, 'sgt': x > y, 'sge': x >= y}[pred])
            raise Unsupported('ptr compare %s %r %r' % (pred, a, b))
        if a is UNDEF or b is UNDEF: return 0
        if not is_sym(a) and not is_sym(b):
            if pred[0] == 's': a, b = sgn(a), sgn(b)
            return int({'eq': a == b, 'ne': a != b, 'ult': a < b, 'ule': a <= b, 'ugt': a > b, 'uge': a >= b, 'slt': a < b, 'sle': a <= b, 'sgt': a > b, 'sge': a >= b}[pred])
        if bits == 1:
            A = a if is_sym(a) else z3.BoolVal(bool(a)); B = b if is_sym(b) else z3.BoolVal(bool(b))
            return A == B if pred == 'eq' else A != B
        A = s.I(sgn(a) if not is_sym(a) else a); B = s.I(sgn(b) if not is_sym(b) else b)
        if pred[0] == 'u':
            # symbolic machine integers are mathematical ints in signed interpretation; unsigned view = x mod 2^bits
            U = lambda x: z3.If(x >= 0, x, x + (1 << bits))
            A = z3.IntVal(a) if not is_sym(a) else U(A); B = z3.IntVal(b) if not is_sym(b) else U(B)
        return {'eq': A == B, 'ne': A != B, 'ult': A < B, 'ule': A <= B, 'ugt': A > B, 'uge': A >= B, 'slt': A < B, 'sle': A <= B, 'sgt': A > B, 'sge': A >= B}[pred]
    def fcmp(s, pred, a, b):
        if pred in ('true',): return 1
        if pred in ('false',): return 0
        if pred in ('ord',): return 1
        if pred in ('uno',): return 0
        p = pred[1:]
        if not is_sym(a) and not is_sym(b):
            return int({'eq': a == b, 'ne': a != b, 'lt': a < b, 'le': a <= b, 'gt': a > b, 'ge': a >= b}[p])
        # a symbolic real is finite: comparisons with an infinite or NaN constant are decided outright (isinf/isnan tests in the code)
        for x, y, flip in ((a, b, False), (b, a, True)):
            if isinstance(y, float) and (math.isinf(y) or math.isnan(y)) and is_sym(x):
                if math.isnan(y): return int(pred[0] == 'u')
                q = p if not flip else {'lt': 'gt', 'gt': 'lt', 'le': 'ge', 'ge': 'le'}.get(p, p)
                if y > 0: return int(q in ('ne', 'lt', 'le'))
                return int(q in ('ne', 'gt', 'ge'))
        A = s.R(a); B = s.R(b)
        return {'eq': A == B, 'ne': A != B, 'lt': A < B, 'le': A <= B, 'gt': A > B, 'ge': A >= B}[p]
    # ----- execution -----
    def get_ins(s, f, lbl):
        key = (f.name, lbl)
        if key not in s.parsed:
            s.parsed[key] = [parse_ins(l) for l in f.blocks[lbl]]
        return s.parsed[key]
    def value(s, env, v):
        if type(v) is Ref: return env[v.name]
        if type(v) is Const and v.kind == 'int':
            c = v.__dict__.get('_cv')
            if c is None: c = v._cv = s.const(v)
            return c
        return s.const(v)
    def tobool(s, c):
        if is_sym(c):
            if z3.is_bool(c): return s.branch(c)
            return s.branch(c != 0)
        return bool(c)
    def find_model(s, fname):
        if fname in s._mcache: return s._mcache[fname]
        r = s.models.get(fname)
        if r is None:
            for pat, fn in s.models.items():
                if pat.startswith('re:') and re.search(pat[3:], fname): r = fn; s.models_used.add(pat[3:]); break
        else: s.models_used.add(fname)
        s._mcache[fname] = r
        return r
    def call(s, fname, args):
        if s.on_call is not None:
            r = s.on_call(s, fname, args)
            if r is not None: return r[0]
        mdl = s.find_model(fname)
        if mdl is not None: return mdl(s, args)
        f = s.m.funcs.get(fname)
        if f is None: raise Unsupported('external function without model: ' + fname)
        s.funcs_run.add(fname); s.callstack.append(fname)
        try: return s._run(f, fname, args)
        except Unsupported as e:
            if not getattr(e, 'where', None):
                e.where = list(s.callstack); ci = s.__dict__.get('cur_ins')
                if ci: e.at = '%s %s: %s %s' % (ci[0][-60:], ci[1], ci[2].op, {k: v for k, v in ci[2].__dict__.items() if k in ('res', 'ptr', 'callee')})
            raise
        finally: s.callstack.pop()
    def _run(s, f, fname, args):
        env = {}
        for (pn, pty), a in zip(f.params, args): env[pn] = a
        lbl = f.order[0]; prev = None
        allocas = []
        while True:
            insl = s.get_ins(f, lbl)
            # phis first (parallel)
            newv = {}
            k = 0
            while k < len(insl) and insl[k].op == 'phi':
                ins = insl[k]
                for v, l in ins.inc:
                    if l == prev: newv[ins.res] = s.value(env, v); break
                else: raise Unsupported('phi no incoming from %s in %s' % (prev, fname))
                k += 1
            env.update(newv)
            nxt = None
            for ins in insl[k:]:
                s.cur_ins = (fname, lbl, ins)
                s.icount += 1
                if s.icount > s.max_instr: raise Unsupported('instruction budget exceeded')
                op = ins.op
                if op == 'gep':
                    co = ins.__dict__.get('_coff', -1)
                    if co == -1:
                        # constant-index GEPs: the byte offset is a property of the instruction, computed once
                        co = None
                        if all(isinstance(i, Const) and i.kind == 'int' for i in ins.idx):
                            try: co = s.gep(ins.sty, Ptr(1, 0), [s.const(i) for i in ins.idx]).off
                            except Unsupported: co = None
                        ins._coff = co
                    b = s.value(env, ins.base)
                    if co is not None and type(b) is Ptr: env[ins.res] = Ptr(b.obj, b.off + co)
                    else: env[ins.res] = s.gep_sym(ins.sty, b, [s.value(env, i) for i in ins.idx])
                elif op == 'load':
                    sz = ins.__dict__.get('_sz')
                    if sz is None: sz = ins._sz = s.size(ins.ty)
                    env[ins.res] = s.load(s.value(env, ins.ptr), sz, ins.ty)
                elif op == 'store':
                    v = s.value(env, ins.v)
                    ty = s.resolve(ins.ty)
                    if isinstance(v, list): s.store_agg(s.value(env, ins.ptr), ty, v)
                    else: s.store(s.value(env, ins.ptr), v, s.size(ty))
                elif op in ('fadd', 'fsub', 'fmul', 'fdiv'):
                    env[ins.res] = s.fbin(op, s.value(env, ins.a), s.value(env, ins.b))
                elif op == 'fneg':
                    a = s.value(env, ins.a); env[ins.res] = -a if not is_sym(a) else -a
                elif op in BINOPS:
                    env[ins.res] = s.ibin(op, s.value(env, ins.a), s.value(env, ins.b), s.resolve(ins.ty).bits)
                elif op == 'icmp':
                    ty = s.resolve(ins.ty); bits = ty.bits if isinstance(ty, IntTy) else 64
                    env[ins.res] = s.icmp(ins.pred, s.value(env, ins.a), s.value(env, ins.b), bits)
                elif op == 'fcmp':
                    env[ins.res] = s.fcmp(ins.pred, s.value(env, ins.a), s.value(env, ins.b))
                elif op == 'cast':
                    env[ins.res] = s.cast(ins.kind, s.value(env, ins.a), s.resolve(ins.ty), s.resolve(ins.dty))
                elif op == 'select':
                    c = s.value(env, ins.c); a = s.value(env, ins.a); b = s.value(env, ins.b)
                    if is_sym(c):
                        cb = c if z3.is_bool(c) else c != 0
                        ty = s.resolve(ins.ty)
                        if isinstance(ty, FloatTy) and not getattr(s,'fork_fselect',False): env[ins.res] = z3.If(cb, s.R(a), s.R(b))
                        elif isinstance(ty, IntTy) and ty.bits == 1:
                            A = a if is_sym(a) else z3.BoolVal(bool(a)); B = b if is_sym(b) else z3.BoolVal(bool(b)); env[ins.res] = z3.If(cb, A, B)
                        elif isinstance(ty, IntTy) and (is_sym(a) or is_sym(b)) and a is not UNDEF and b is not UNDEF and not getattr(s, 'fork_minmax', False):
                            def sg(x, bits=ty.bits): return x - (1 << bits) if (not is_sym(x)) and x >> (bits - 1) else x
                            env[ins.res] = z3.If(cb, s.I(sg(a)), s.I(sg(b)))
                        else:
                            env[ins.res] = a if s.branch(cb) else b
                    else: env[ins.res] = a if c else b
                elif op == 'alloca':
                    n = 1 if ins.n is None else s.value(env, ins.n)
                    env[ins.res] = s.alloc(max(1, s.size(ins.ty) * n), 'alloca:' + fname[-30:])
                elif op == 'call' or op == 'invoke':
                    callee = ins.callee
                    if isinstance(callee, GRef): cname = callee.name
                    else:
                        cv = s.value(env, callee)
                        if not isinstance(cv, FnPtr): raise Unsupported('indirect call through %r' % (cv,))
                        cname = cv.name
                    args_v = [s.value(env, a) if a is not None else None for a in ins.args]
                    if op == 'call':
                        r = s.call_any(cname, args_v, ins)
                        if ins.res: env[ins.res] = r
                    else:
                        try:
                            r = s.call_any(cname, args_v, ins)
                            if ins.res: env[ins.res] = r
                            nxt = ins.normal
                        except Thrown as t:
                            if os.environ.get('VERIF_TRACE_THROW'): print('  [throw] caught in %s (callee %s)' % (fname[-60:], cname[-70:]), flush=True)
                            s.cur_exn = t.exn; nxt = ins.unwind
                        break
                elif op == 'br':
                    if ins.cond is None: nxt = ins.t
                    else: nxt = ins.t if s.tobool(s.value(env, ins.cond)) else ins.f
                    break
                elif op == 'switch':
                    v = s.value(env, ins.v)
                    if is_sym(v):
                        nxt = None
                        for cv, l in ins.cases:
                            if s.branch(v == cv): nxt = l; break
                        if nxt is None: nxt = ins.dflt
                    else:
                        nxt = ins.dflt
                        bits = s.resolve(ins.v.ty).bits
                        for cv, l in ins.cases:
                            if (cv & ((1 << bits) - 1)) == v: nxt = l; break
                    break
                elif op == 'ret':
                    return None if ins.v is None else s.value(env, ins.v)
                elif op == 'extractvalue':
                    a = s.value(env, ins.a)
                    for i in ins.idx: a = a[i]
                    env[ins.res] = a
                elif op == 'insertvalue':
                    a = s.value(env, ins.a)
                    a = list(a) if isinstance(a, list) else [UNDEF] * 8
                    a[ins.idx[0]] = s.value(env, ins.e); env[ins.res] = a
                elif op == 'landingpad':
                    env[ins.res] = [s.cur_exn, 0]
                elif op == 'lpclause': pass
                elif op == 'resume':
                    raise Thrown(s.value(env, ins.v)[0])
                elif op == 'unreachable':
                    raise Unsupported('reached unreachable in ' + fname)
                elif op == 'freeze': env[ins.res] = s.value(env, ins.a)
                else: raise Unsupported('exec ' + op)
            if nxt is None: raise Unsupported('block fell through in %s %s' % (fname, lbl))
            prev = lbl; lbl = nxt
    def store_agg(s, ptr, ty, v):
        if isinstance(ty, StructTy):
            for i, e in enumerate(ty.els):
                p2 = Ptr(ptr.obj, ptr.off + s.field_off(ty, i)); e2 = s.resolve(e)
                if isinstance(v[i], list): s.store_agg(p2, e2, v[i])
                else: s.store(p2, v[i], s.size(e2))
        else: raise Unsupported('store agg %r' % ty)
    def gep_sym(s, sty, base, idxs):
        if (getattr(s, 'sym_ptr_any', False) or (getattr(s, 'table_ite', False) and isinstance(base, Ptr) and s.objs[base.obj].name.startswith('@'))) and sum(1 for i in idxs if is_sym(i)) == 1 and isinstance(base, Ptr):
            # constant lookup table indexed by a symbolic value: keep the index symbolic (load builds an ite chain)
            k = [n for n, i in enumerate(idxs) if is_sym(i)][0]
            p0 = s.gep(sty, base, [0 if n == k else i for n, i in enumerate(idxs)])
            p1 = s.gep(sty, base, [1 if n == k else i for n, i in enumerate(idxs)])
            return SymPtr(p0.obj, p0.off, idxs[k], p1.off - p0.off)
        if any(is_sym(i) for i in idxs):
            # concretise symbolic index by case split within object bounds
            out = []
            for i in idxs:
                if is_sym(i):
                    out.append(s.choose(i))
                else: out.append(i)
            idxs = out
        return s.gep(sty, base, idxs)
    def cast(s, kind, a, sty, dty):
        if a is UNDEF: return UNDEF
        if kind in ('bitcast', 'addrspacecast'):
            if isinstance(sty, FloatTy) != isinstance(dty, FloatTy) and not isinstance(dty, PtrTy): raise Unsupported('bitcast fp<->int')
            return a
        if kind in ('ptrtoint', 'inttoptr'): return a
        if kind == 'zext':
            if is_sym(a):
                if z3.is_bool(a): return z3.If(a, z3.IntVal(1), z3.IntVal(0))
                return a
            return a
        if kind == 'sext':
            if is_sym(a):
                if z3.is_bool(a): return z3.If(a, z3.IntVal(-1), z3.IntVal(0))
                return a
            v = a - (1 << sty.bits) if a >> (sty.bits - 1) else a
            return v & ((1 << dty.bits) - 1)
        if kind == 'trunc':
            if is_sym(a):
                if dty.bits == 1: raise Unsupported('trunc sym to i1')
                return a
            return a & ((1 << dty.bits) - 1)
        if kind == 'sitofp':
            if is_sym(a): return z3.ToReal(a)
            v = a - (1 << sty.bits) if a >> (sty.bits - 1) else a
            return Fraction(v) if s.fpmode == 'real' else float(v)
        if kind == 'uitofp':
            if is_sym(a): return z3.ToReal(a)
            return Fraction(a) if s.fpmode == 'real' else float(a)
        if kind == 'fptosi':
            if is_sym(a):
                k = s.newsym('trunc', 'int'); kr = z3.ToReal(k)
                s.assume(z3.If(a >= 0, z3.And(kr <= a, a < kr + 1), z3.And(kr - 1 < a, a <= kr)))
                s.fptosi_log.append((k, dty.bits))
                lim = getattr(s, 'concretize_fptosi', None)
                if lim is not None:
                    # stated bound: the truncated value is case-split over 0..lim (one path per value); larger or negative values end the path
                    return s.concretize(k, lim)
                return k
            if isinstance(a, float) and (math.isnan(a) or math.isinf(a) or abs(a) >= 2.0 ** (dty.bits - 1)): return 1 << (dty.bits - 1)
            v = int(a) if a >= 0 else -int(-a)
            return v & ((1 << dty.bits) - 1)
        if kind in ('fpext', 'fptrunc'): return a
        raise Unsupported('cast ' + kind)
    def call_any(s, cname, args, ins):
        n = cname[1:].strip('"')
        if n.startswith('llvm.'):
            return s.intrinsic(n, args)
        return s.call(cname, args)
    def intrinsic(s, n, a):
        if n.startswith('llvm.lifetime') or n.startswith('llvm.dbg') or n.startswith('llvm.experimental.noalias') or n.startswith('llvm.assume') or n.startswith('llvm.prefetch'): return None
        if n.startswith('llvm.memcpy') or n.startswith('llvm.memmove'):
            s.memcpy(a[0], a[1], a[2]); return None
        if n.startswith('llvm.memset'):
            ptr, val, ln = a[0], a[1], a[2]
            o = s.objs[ptr.obj]
            for k in [k for k, (vv, sz) in o.cells.items() if k < ptr.off + ln and ptr.off < k + sz]: del o.cells[k]
            if val == 0:
                # zero fill as 8-byte zero cells (works for ints, ptr-as-null, doubles)
                s.zerofill(ptr, ln)
            else:
                for i in range(ln): s.store(Ptr(ptr.obj, ptr.off + i), val, 1)
            return None
        if n.startswith('llvm.fabs'):
            x = a[0]
            if is_sym(x): return z3.If(x >= 0, x, -x)
            return abs(x)
        if n.startswith('llvm.floor') or n.startswith('llvm.round') or n.startswith('llvm.ceil') or n.startswith('llvm.trunc'):
            x = a[0]; kind = n.split('.')[1]
            if is_sym(x):
                rc_ = s.__dict__.setdefault('_round_cache', {})
                hit = rc_.get((kind, x.get_id()))        # the same rounding of the same expression is the same integer (AST kept alive)
                if hit is not None: return hit[1]
                k = s.newsym(kind, 'int'); kr = z3.ToReal(k); rc_[(kind, x.get_id())] = (x, kr)
                if kind == 'floor': s.assume(z3.And(kr <= x, x < kr + 1))
                elif kind == 'round': s.assume(z3.If(x >= 0, z3.And(kr <= x + 0.5, x + 0.5 < kr + 1), z3.And(kr - 1 < x - 0.5, x - 0.5 <= kr)))
                else: raise Unsupported(n)
                s.round_log.append((kind, k, x))
                return kr
            if s.fpmode == 'float':
                if math.isinf(x) or math.isnan(x): return x
                if kind == 'floor': return float(math.floor(x))
                if kind == 'ceil': return float(math.ceil(x))
                if kind == 'trunc': return float(math.trunc(x))
                if kind == 'round':
                    fx = Fraction(x); r = math.floor(fx + Fraction(1, 2)) if fx >= 0 else -math.floor(-fx + Fraction(1, 2)); return float(r)
            if kind == 'floor': return Fraction(math.floor(x))
            if kind == 'ceil': return Fraction(math.ceil(x))
            if kind == 'round': return Fraction(math.floor(x + Fraction(1, 2))) if x >= 0 else Fraction(-math.floor(-x + Fraction(1, 2)))
        if n.startswith('llvm.sqrt'): return s.models['@sqrt'](s, a)
        if n.startswith('llvm.smax') or n.startswith('llvm.smin') or n.startswith('llvm.umax') or n.startswith('llvm.umin'):
            x, y = a
            if is_sym(x) or is_sym(y):
                bits = int(n.rsplit('.i', 1)[1])
                sg = lambda v: v if is_sym(v) else (v - (1 << bits) if v >> (bits - 1) else v)
                X = s.I(sg(x)); Y = s.I(sg(y))
                if getattr(s, 'fork_minmax', False):
                    if 'max' in n: return x if s.branch(X >= Y) else y
                    return x if s.branch(X <= Y) else y
                return z3.If(X >= Y, X, Y) if 'max' in n else z3.If(X <= Y, X, Y)
            bits = int(n.rsplit('.i', 1)[1])
            if n.startswith('llvm.s'):
                sg = lambda v: v - (1 << bits) if v >> (bits - 1) else v
                r = max(sg(x), sg(y)) if 'max' in n else min(sg(x), sg(y)); return r & ((1 << bits) - 1)
            return max(x, y) if 'max' in n else min(x, y)
        if n.startswith('llvm.abs'):
            x = a[0]; bits = int(n.rsplit('.i', 1)[1]); v = x - (1 << bits) if x >> (bits - 1) else x; return abs(v) & ((1 << bits) - 1)
        if n.startswith('llvm.expect'): return a[0]
        if n.startswith('llvm.ctlz'):
            bits = int(n.rsplit('.i', 1)[1]); x = a[0]
            if is_sym(x): raise Unsupported('ctlz of a symbolic value')
            return bits - (x & ((1 << bits) - 1)).bit_length()
        if n.startswith('llvm.eh.typeid.for'):
            # catch clauses are not type-matched (DESIGN §2.2): the selector delivered by landingpad is 0 and every typeid is 0,
            # i.e. the first catch clause of a landing pad takes the exception; recorded so that checks can state it
            s.typeid_matches += 1; return 0
        if n.startswith('llvm.umul.with.overflow'):
            bits = int(n.rsplit('.i', 1)[1]); r = a[0] * a[1]; return [r & ((1 << bits) - 1), int(r >> bits != 0)]
        raise Unsupported('intrinsic ' + n)
    def zerofill(s, ptr, ln):
        o = s.objs[ptr.obj]; off = ptr.off; end = ptr.off + ln
        while off < end:
            if off % 8 == 0 and off + 8 <= end: o.cells[off] = (0, 8); off += 8
            else: o.cells[off] = (0, 1); off += 1

# A zero 8-byte int cell must read back as NULL pointer / 0.0 double depending on use; handled by coercions below.
def coerce_ptr(v): return NULL if (isinstance(v, int) and v == 0) else v


# ---------------------------------------------------------------------------------------------
def explore(module, models, body, max_paths=20000, parsed=None, fpmode='real', timeout=None, on_call=None, partial=False):
    """Run body(it) once per feasible path (fork by re-execution along decision prefixes).
    body returns a result object; a path that ends in PathEnd (infeasible) is dropped.
    Returns (results, stats).  results = [(it, result)]."""
    results = []; pending = [[]]; n = 0; ic = 0
    parsed = parsed if parsed is not None else {}
    t0 = time.time(); used = set(); run = set()
    while pending:
        dec = pending.pop()
        it = Interp(module, models); it.parsed = parsed; it.decisions = list(dec); it.fpmode = fpmode; it.on_call = on_call
        if timeout: it.deadline = t0 + timeout
        try:
            r = body(it)
            results.append((it, r))
        except PathEnd:
            pass
        except Unsupported as e:
            e.pc = list(it.pc); raise
        pending.extend(it.pending); n += 1; ic += it.icount
        used |= it.models_used; run |= it.funcs_run
        if n > max_paths or (timeout and time.time() - t0 > timeout):
            why = 'path budget %d exceeded' % max_paths if n > max_paths else 'exploration timeout %ds' % timeout
            # partial=True: hand back the paths explored so far (each is a real path of the code; a failure found on one of
            # them is a failure), flagged as truncated so that the caller never reports the exploration as complete
            if partial: return results, {'paths': n, 'feasible': len(results), 'instructions': ic, 'time_s': round(time.time() - t0, 2), 'models_used': used, 'funcs_run': run, 'truncated': why}
            raise Unsupported(why)
    return results, {'paths': n, 'feasible': len(results), 'instructions': ic, 'time_s': round(time.time() - t0, 2), 'models_used': used, 'funcs_run': run}

def alloc_doubles(it, name, vals):
    p = it.alloc(8 * max(1, len(vals)), name)
    for i, v in enumerate(vals): it.store(Ptr(p.obj, 8 * i), v, 8)
    return p
def read_doubles(it, p, n):
    return [it.load(Ptr(p.obj, p.off + 8 * i), 8, FloatTy(64)) for i in range(n)]
def alloc_i64(it, name, vals):
    p = it.alloc(8 * max(1, len(vals)), name)
    for i, v in enumerate(vals): it.store(Ptr(p.obj, 8 * i), v if is_sym(v) else v & ((1 << 64) - 1), 8)
    return p
def sgn64(x): return x - (1 << 64) if isinstance(x, int) and x >> 63 else x


def make_ostream(it, name):
    """A minimal std::ostream object for code that writes progress messages to std::cout: vptr with virtual-base offset,
    basic_ios with a ctype facet whose widen() table is the identity; everything written goes to the output sinks."""
    tys = it.m.types
    obj = it.alloc(1024, name + '(model)')
    vt = it.alloc(128, 'ostream-vtable(model)')
    it.zerofill(obj, 1024); it.zerofill(vt, 128)
    it.store(Ptr(obj.obj, 0), Ptr(vt.obj, 64), 8)
    it.store(Ptr(vt.obj, 64 - 24), 8, 8)                       # vbase offset: basic_ios lives at +8
    try:
        ios = NamedTy('%"class.std::basic_ios"'); ct = NamedTy('%"class.std::ctype"')
        off_ctype = it.field_off(ios, 5)
        fac = it.alloc(max(1024, it.size(ct)), 'ctype<char>(model)'); it.zerofill(fac, max(1024, it.size(ct)))
        it.store(Ptr(obj.obj, 8 + off_ctype), fac, 8)
        it.store(Ptr(fac.obj, it.field_off(ct, 6)), 1, 1)      # _M_widen_ok
        w = it.field_off(ct, 7)
        for c in range(256): it.store(Ptr(fac.obj, w + c), c, 1)
    except Exception:
        pass
    return obj
