# Running CBMC on generated C + harness, parsing verdicts and counterexample traces.
import os, re, subprocess, time, json, resource

FLAGS = ['--unwinding-assertions', '--pointer-overflow-check', '--undefined-shift-check', '--signed-overflow-check', '--drop-unused-functions', '--no-malloc-may-fail', '--bounds-check', '--pointer-check', '--div-by-zero-check']

def run(files, unwind, defs=(), incs=(), timeout_s=300, mem_gb=16, extra=(), function='main', trace=True, backend=()):
    cmd = ['cbmc'] + list(files) + ['--function', function, '--unwind', str(unwind)] + FLAGS + ['-D' + d for d in defs] + ['-I' + i for i in incs] + list(backend) + list(extra)
    if trace: cmd.append('--trace')
    def lim():
        try: resource.setrlimit(resource.RLIMIT_AS, (mem_gb << 30, mem_gb << 30))
        except Exception: pass
    t0 = time.time()
    try:
        p = subprocess.run(cmd, stdout=subprocess.PIPE, stderr=subprocess.STDOUT, text=True, timeout=timeout_s, preexec_fn=lim)
        out = p.stdout; rc = p.returncode
    except subprocess.TimeoutExpired as e:
        out = (e.stdout or b'').decode() if isinstance(e.stdout, bytes) else (e.stdout or ''); rc = -9
    dt = time.time() - t0
    res = {'cmd': ' '.join(cmd), 'rc': rc, 'time_s': round(dt, 2), 'props': [], 'verdict': None, 'trace': {}, 'raw_tail': out[-1500:]}
    for m in re.finditer(r'^\[([^\]]+)\] (?:line (\d+) )?(.*): (SUCCESS|FAILURE)$', out, re.M):
        res['props'].append({'id': m.group(1), 'line': m.group(2), 'desc': m.group(3), 'status': m.group(4)})
    if rc == -9: res['verdict'] = 'timeout'
    elif 'VERIFICATION SUCCESSFUL' in out: res['verdict'] = 'success'
    elif 'VERIFICATION FAILED' in out: res['verdict'] = 'failed'
    else: res['verdict'] = 'error'
    m = re.search(r'(\d+) variables, (\d+) clauses', out)
    if m: res['sat_vars'] = int(m.group(1)); res['sat_clauses'] = int(m.group(2))
    if trace and res['verdict'] == 'failed':
        # traces per failed property: "Trace for main.assertion.1:" ... assignments "  name=value (bits)"
        for tm in re.finditer(r'Trace for ([^\n:]+):\n(.*?)(?=\nTrace for |\n\*\* |\Z)', out, re.S):
            asg = {}
            for am in re.finditer(r"^\s+([A-Za-z_][\w\.\[\]!@]*)=('(?:[^'\\]|\\.)+'|[^\s]+)(?: \(([01 ]+)\))?$", tm.group(2), re.M):
                asg[am.group(1)] = am.group(2)
            res['trace'][tm.group(1).strip()] = asg
    return res

def failed(res, include_ub=False):
    return [p for p in res['props'] if p['status'] == 'FAILURE' and (include_ub or not p['desc'].startswith('UBCLASS'))]
def ubclass_failed(res):
    return [p for p in res['props'] if p['status'] == 'FAILURE' and p['desc'].startswith('UBCLASS')]
