# Shared infrastructure for all checks: front end (clang -> IR), native builds for
# encoder validation / replay, result classes, known findings, evidence files.
import os, sys, re, json, time, shutil, subprocess, tempfile, atexit, hashlib, resource

VERIF = os.path.dirname(os.path.dirname(os.path.abspath(__file__)))
REPO = os.environ.get('VERIF_REPO', '/repo')
SEED = int(os.environ.get('VERIF_SEED', '1') or 1)

CLANG = 'clang++-14'
IRFLAGS = ['-std=c++17', '-O1', '-fno-vectorize', '-fno-slp-vectorize', '-fno-unroll-loops',
           '-DEIGEN_DONT_VECTORIZE', '-ffp-contract=off', '-DNDEBUG', '-S', '-emit-llvm', '-w']

_workdir = None
def workdir():
    global _workdir
    if _workdir is None:
        base = os.environ.get('VERIF_TMP') or tempfile.gettempdir()
        _workdir = tempfile.mkdtemp(prefix='verif-', dir=base)
        if not os.environ.get('VERIF_KEEP'):
            atexit.register(lambda: shutil.rmtree(_workdir, ignore_errors=True))
    return _workdir

def _gen_config(dst, src, defines=()):
    txt = open(src).read()
    out = []
    for ln in txt.split('\n'):
        m = re.match(r'\s*#cmakedefine\s+(\w+)', ln)
        if m:
            if m.group(1) in defines: out.append('#define ' + m.group(1))
            continue
        out.append(ln)
    os.makedirs(os.path.dirname(dst), exist_ok=True)
    open(dst, 'w').write('\n'.join(out))

def include_dirs():
    """Include path for harness TUs. Generated config headers come from /repo/_build when it
    is there (the shipped configuration), otherwise from the .h.in files."""
    gen = os.path.join(workdir(), 'gen')
    if not os.path.isdir(gen):
        os.makedirs(gen)
        t = build_dir() + '/tools/include/votca/tools/votca_tools_config.h'
        d = gen + '/votca/tools/votca_tools_config.h'
        os.makedirs(os.path.dirname(d), exist_ok=True)
        if os.path.exists(t): shutil.copy(t, d)
        else: _gen_config(d, REPO + '/tools/include/votca/tools/votca_tools_config.h.in', ('FFTW3_FOUND',))
        shutil.copy(d, gen + '/votca_tools_config.h')
        c = build_dir() + '/csg/src/libcsg/votca_csg_config.h'
        d = gen + '/votca_csg_config.h'
        if os.path.exists(c): shutil.copy(c, d)
        else: _gen_config(d, REPO + '/csg/src/libcsg/votca_csg_config.h.in', ())
        os.makedirs(gen + '/votca/xtp', exist_ok=True)
        _gen_config(gen + '/votca/xtp/votca_xtp_config.h', REPO + '/xtp/include/votca/xtp/votca_xtp_config.h.in', ())
        shutil.copy(gen + '/votca/xtp/votca_xtp_config.h', gen + '/votca_xtp_config.h')
    return [REPO + '/tools/include', REPO + '/csg/include', REPO + '/xtp/include', gen, gen + '/votca/tools',
            '/usr/include/eigen3', '/usr/include/hdf5/serial', REPO + '/csg/src/libcsg', REPO + '/csg/src/tools']

def _run(cmd, timeout=None, **kw):
    t0 = time.time()
    p = subprocess.run(cmd, stdout=subprocess.PIPE, stderr=subprocess.PIPE, text=True, timeout=timeout, **kw)
    return p.returncode, p.stdout, p.stderr, time.time() - t0

class Inconclusive(Exception): pass
class EncoderError(Exception): pass

def build_dir():
    for d in ('_build', '_b'):
        if os.path.isdir(os.path.join(REPO, d)): return os.path.join(REPO, d)
    return os.path.join(REPO, '_build')

def votca_libs(csg=True):
    b = build_dir(); l = []
    if csg: l += ['-L%s/csg/src/libcsg' % b, '-lvotca_csg', '-Wl,-rpath,%s/csg/src/libcsg' % b]
    l += ['-L%s/tools/src/libtools' % b, '-lvotca_tools', '-Wl,-rpath,%s/tools/src/libtools' % b]
    return l

def harness_path(name): return os.path.join(VERIF, 'harness', name)

def compile_ir(src, tag=None, extra=(), defs=()):
    """clang++ -O1 -emit-llvm on a harness TU that #includes /repo's .cc files. Returns IR text."""
    tag = tag or os.path.splitext(os.path.basename(src))[0]
    out = os.path.join(workdir(), tag + '.ll')
    cmd = [CLANG] + IRFLAGS + ['-DVERIF_REPO="%s"' % REPO] + ['-I' + d for d in include_dirs()] + ['-D' + d for d in defs] + list(extra) + [src, '-o', out]
    rc, so, se, dt = _run(cmd)
    if rc != 0:
        raise Inconclusive('clang failed on %s:\n%s' % (src, se[-3000:]))
    return open(out).read(), dt

def native_build(srcs, tag, extra=(), defs=(), san=False, opt='-O1', libs=(), cxx='g++'):
    """g++ build of a harness TU (+driver) against the real sources, for encoder validation and replay."""
    out = os.path.join(workdir(), tag + '.bin')
    cmd = [cxx, '-std=c++17', opt, '-w', '-DNDEBUG', '-ffp-contract=off', '-DVERIF_REPO="%s"' % REPO]
    cmd += ['-I' + d for d in include_dirs()] + ['-D' + d for d in defs]
    if cxx.startswith('clang'): cmd += ['-fno-vectorize', '-fno-slp-vectorize', '-fno-unroll-loops', '-DEIGEN_DONT_VECTORIZE']
    if san: cmd += ['-fsanitize=address,undefined', '-fno-omit-frame-pointer', '-g']
    cmd += list(extra) + list(srcs) + ['-o', out] + list(libs)
    rc, so, se, dt = _run(cmd)
    if rc != 0: raise Inconclusive('g++ failed (%s):\n%s' % (tag, se[-3000:]))
    return out

def run_native(binpath, stdin_text='', args=(), timeout=120, cwd=None):
    p = subprocess.run([binpath] + list(args), input=stdin_text, stdout=subprocess.PIPE, stderr=subprocess.PIPE, text=True, timeout=timeout, cwd=cwd)
    return p.returncode, p.stdout, p.stderr

def peak_rss_mb():
    return max(resource.getrusage(resource.RUSAGE_SELF).ru_maxrss, resource.getrusage(resource.RUSAGE_CHILDREN).ru_maxrss) / 1024.0

# ---------------------------------------------------------------------------------------------
class Check:
    """Collects obligations, witnesses, encoder-validation results, violations; writes evidence; sets exit code."""
    def __init__(s, pid, tier, level='other'):
        s.pid = pid; s.tier = tier; s.level = level
        s.t0 = time.time()
        s.obl = []          # dict(name, status, time, nontrivial, detail)
        s.functions = {}    # name -> IR lines
        s.bounds = {}
        s.stubs = set()
        s.assumptions = []
        s.samples = []
        s.witness = []      # (name, fired)
        s.validation = []   # (name, vectors, ok)
        s.viol = []         # dict(key, what, replay, reproduced)
        s.known_hit = []
        s.ubclass = []
        s.inconclusive = []
        s.notes = []
        s.units = []
        s.solver_time = 0.0
        s.extra = {}
        s.states = 0; s.transitions = 0; s.traces_validated = 0
        kf = os.path.join(VERIF, 'known_findings.json')
        s.known = json.load(open(kf)) if os.path.exists(kf) else {'findings': [], 'fixed': []}
    # --- recording ---
    def obligation(s, name, status, dt=0.0, nontrivial=None, detail=None):
        """status: 'unsat' (holds) | 'sat' (counterexample) | 'unknown'"""
        s.obl.append({'name': name, 'status': status, 'time_s': round(dt, 3), 'nontrivial': nontrivial, 'detail': detail})
        s.solver_time += dt
        if status == 'unknown': s.inconclusive.append('obligation %s: solver gave no verdict' % name)
    def add_witness(s, name, fired):
        s.witness.append((name, bool(fired)))
        if not fired: s.inconclusive.append('witness %s did not fire (vacuous harness)' % name)
    def add_validation(s, name, vectors, ok, detail=''):
        s.validation.append((name, vectors, bool(ok)))
        if not ok: raise EncoderError('encoder validation failed for %s: %s' % (name, detail))
    def sample(s, x):
        if len(s.samples) < 12: s.samples.append(x)
    def violation(s, key, what, replay_dir=None, reproduced=True):
        """key: stable identifier matched against known_findings.json"""
        for kfi in s.known.get('findings', []):
            if kfi['property'] == s.pid and kfi['key'] == key:
                s.known_hit.append((key, kfi.get('what', what))); return 'known'
        s.viol.append({'key': key, 'what': what, 'replay': replay_dir, 'reproduced': reproduced})
        return 'new'
    def ub_class(s, what): s.ubclass.append(what)
    def inconc(s, why): s.inconclusive.append(why)
    # --- finishing ---
    def finish(s):
        wall = time.time() - s.t0
        n_obl = len(s.obl); n_unsat = sum(1 for o in s.obl if o['status'] == 'unsat')
        n_sat = sum(1 for o in s.obl if o['status'] == 'sat'); n_unk = sum(1 for o in s.obl if o['status'] == 'unknown')
        nontriv = len({o['name'] for o in s.obl if o['nontrivial']})
        cov = {
            'explanation': 'bounded symbolic execution of the real functions (clang IR of /repo, regenerated this run) + SMT/SAT; every obligation is a solver query over all values within the stated bounds; unsat = holds within bounds',
            'evaluations': n_obl, 'distinct_nontrivial': nontriv,
            'rule': 'one evaluation = one obligation (one solver query, or one group of per-path queries that must all be unsat); an obligation counts as non-trivial when the same negated property WITHOUT the code-derived constraints (or with the code result replaced by a fresh unconstrained symbol) is satisfiable, i.e. the verdict depends on what the code computes; measured by a second query (for grouped obligations on the first path). CBMC obligations count as non-trivial when the reachability witness of the same harness fired; obligations decided on the executed event trace without a solver query (call order, lock bracketing, stencil duplicates) count when the trace contains the events they speak about. Distinctness is by obligation name.',
            'obligations': n_obl, 'discharged': n_unsat, 'sat': n_sat, 'unknown': n_unk,
            'checker_cmd': './check %s --tier %s' % (s.pid, s.tier),
            'trusted_base': ['clang++-14 -O1 lowering of the harness TU', 'engine/llir.py IR parser', 'engine/symx.py interpreter (validated each run against native execution, see encoder_validation)', 'z3 4.x', 'cbmc 6.11 (E1 harnesses)', 'environment models listed under stubs'],
            'functions_encoded': s.functions, 'units': s.units, 'bounds': s.bounds, 'stubs_and_models': sorted(s.stubs),
            'witnesses': [{'name': n, 'fired': f} for n, f in s.witness],
            'encoder_validation': [{'name': n, 'vectors': v, 'agree': ok} for n, v, ok in s.validation],
            'solver_time_s': round(s.solver_time, 2), 'peak_rss_mb': round(peak_rss_mb(), 1),
            'samples': s.samples or [o for o in s.obl[:5]],
            'obligation_list': s.obl if len(s.obl) <= 400 else s.obl[:400],
            'known_findings_hit': [k for k, _ in s.known_hit], 'ub_class': s.ubclass, 'undecided': s.inconclusive, 'notes': s.notes,
            'exhaustive': False,
        }
        if s.level == 'model_checking':
            cov['states'] = max(1, s.states); cov['transitions'] = max(1, s.transitions); cov['traces_validated_against_impl'] = s.traces_validated
        cov.update(s.extra)
        ev = {'property_id': s.pid, 'tier': s.tier, 'seed': SEED, 'level': s.level, 'coverage': cov,
              'assumptions': s.assumptions, 'wall_s': round(wall, 2), 'violations': len(s.viol)}
        evd = os.environ.get('VERIF_EVIDENCE_DIR') or os.path.join(VERIF, 'evidence')
        os.makedirs(evd, exist_ok=True)
        json.dump(ev, open(os.path.join(evd, s.pid + '.json'), 'w'), indent=1, default=str)
        for k, w in s.known_hit: print('KNOWN-FINDING: property=%s %s' % (s.pid, w))
        for u in s.ubclass: print('UB-CLASS: property=%s %s' % (s.pid, u))
        real = [v for v in s.viol if v['reproduced']]
        unrep = [v for v in s.viol if not v['reproduced']]
        for v in real: print('VIOLATION property=%s replay=%s   # %s' % (s.pid, v['replay'], v['what']))
        print('%s %s: %d obligations, %d unsat, %d sat, %d unknown, %d witnesses, wall %.1fs' % (s.pid, s.tier, n_obl, n_unsat, n_sat, n_unk, len(s.witness), wall))
        if n_sat > len(s.viol) + len(s.known_hit):
            s.inconclusive.append('%d obligation(s) refuted by the solver but not turned into a replayed violation by the check' % n_sat)
        if real: return 1
        if unrep:
            for v in unrep: print('ENCODER-ERROR: counterexample did not reproduce on the real code: %s' % v['what'])
            return 3
        if s.inconclusive:
            for i in s.inconclusive: print('INCONCLUSIVE: ' + i)
            return 2
        print('HOLDS property=%s within stated bounds' % s.pid)
        return 0

def write_replay(pid, key, files, meta):
    """Persist a replay directory under /verif/replays/<pid>-<hash>/ ."""
    h = hashlib.sha1((pid + key + json.dumps(meta, sort_keys=True, default=str)).encode()).hexdigest()[:10]
    d = os.path.join(os.environ.get('VERIF_REPLAY_DIR') or os.path.join(VERIF, 'replays'), '%s-%s' % (pid, h))
    os.makedirs(d, exist_ok=True)
    for n, txt in files.items(): open(os.path.join(d, n), 'w').write(txt)
    json.dump(meta, open(os.path.join(d, 'input.json'), 'w'), indent=1, default=str)
    return d

def ir_func_sizes(module, pattern=None):
    out = {}
    for n, f in module.funcs.items():
        if pattern is None or re.search(pattern, n):
            out[n[1:].strip('"')] = sum(len(b) for b in f.blocks.values())
    return out

def main_wrapper(pid, fn, level='other'):
    """Standard driver: fn(check, tier) fills the Check; handles INCONCLUSIVE / encoder errors."""
    import argparse
    ap = argparse.ArgumentParser(); ap.add_argument('--tier', default=os.environ.get('VERIF_TIER', 'quick')); ap.add_argument('--replay', default=None)
    a = ap.parse_args(sys.argv[2:] if len(sys.argv) > 1 and sys.argv[1] == pid else sys.argv[1:])
    ck = Check(pid, a.tier, level)
    try:
        if a.replay: return fn(ck, a.tier, replay=a.replay)
        fn(ck, a.tier)
    except Inconclusive as e:
        ck.inconc(str(e))
    except Exception as e:
        if type(e).__name__ in ('Unsupported', 'TermCap'): ck.inconc('%s: %s' % (type(e).__name__, e))
        else: raise
    except EncoderError as e:
        print('ENCODER-ERROR: %s' % e); ck.inconc('encoder error: %s' % e)
        ck.finish(); return 3
    return ck.finish()
