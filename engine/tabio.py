# Text-stream environment for the Table reader/writer: an istream whose lines come from a Python list (bytes, symbolic flag
# bytes, numeric fields as placeholder tokens $k standing for arbitrary reals) and an ostream whose output is captured.
import re, z3
from fractions import Fraction
import symx, models
from symx import Ptr, is_sym, Unsupported
from llir import NamedTy
IOS_OFF = 16           # basic_ios subobject of the stream models (read through the vbase offset of the fake vtable)
STATE_OFF = 32         # ios_base::_M_streambuf_state (x86-64 libstdc++)
def make_stream(it, name):
    obj = it.alloc(1024, name + '(model)'); vt = it.alloc(128, name + '-vtable(model)')
    it.zerofill(obj, 1024); it.zerofill(vt, 128)
    it.store(Ptr(obj.obj, 0), Ptr(vt.obj, 64), 8); it.store(Ptr(vt.obj, 64 - 24), IOS_OFF, 8)
    # ctype facet with an identity widen() table (std::getline(is, str) and std::endl widen '\n')
    try:
        ios = NamedTy('%"class.std::basic_ios"'); ct = NamedTy('%"class.std::ctype"')
        off_ctype = it.field_off(ios, 5); wok = it.field_off(ct, 6); w = it.field_off(ct, 7); csz = it.size(ct)
    except Exception:
        off_ctype, wok, w, csz = 240, 56, 57, 576
    fac = it.alloc(max(1024, csz), 'ctype<char>(model)'); it.zerofill(fac, max(1024, csz))
    it.store(Ptr(obj.obj, IOS_OFF + off_ctype), fac, 8); it.store(Ptr(fac.obj, wok), 1, 1)
    for c in range(256): it.store(Ptr(fac.obj, w + c), c, 1)
    return obj

class TextIO:
    """lines: list of lists of bytes (ints or z3 Int in 0..255); placeholders: list of z3 Reals addressed by $k tokens"""
    def __init__(s): s.reset(None, [], [])
    def reset(s, it, lines, phs):
        s.it = it; s.lines = [list(l) for l in lines]; s.pos = 0; s.phs = list(phs); s.out = []
    # ---- input side ----
    def m_getline(s, it, a):
        ins, strp = a[0], a[1]
        if s.pos >= len(s.lines):
            it.store(Ptr(ins.obj, ins.off + IOS_OFF + STATE_OFF), 2 | 4, 4)      # eofbit | failbit
            models.sset(it, strp, []); return ins
        models.sset(it, strp, s.lines[s.pos]); s.pos += 1; return ins
    def m_strtod(s, it, a):
        sp, endp = a; b = []; k = 0
        while True:
            c = it.load(Ptr(sp.obj, sp.off + k), 1)
            if is_sym(c) or c is symx.UNDEF or c == 0: break
            b.append(c & 0xff); k += 1
        b = bytes(b)
        def end(n):
            if isinstance(endp, Ptr) and endp.obj != 0: it.store(endp, Ptr(sp.obj, sp.off + n), 8)
        mm = re.match(rb'\$(\d+)', b)
        if mm: end(mm.end()); return s.phs[int(mm.group(1))]
        mm = re.match(rb'\s*[-+]?(\d+\.?\d*([eE][-+]?\d+)?|\.\d+([eE][-+]?\d+)?)', b)
        if not mm: end(0); return Fraction(0) if it.fpmode == 'real' else 0.0
        end(mm.end()); return Fraction(mm.group(0).strip().decode()) if it.fpmode == 'real' else float(mm.group(0))
    # ---- output side ----
    def m_ins_double(s, it, a):
        os_, v = a
        if is_sym(v): s.phs.append(v); s.out += list(('$%d' % (len(s.phs) - 1)).encode())
        else: s.phs.append(z3.RealVal(Fraction(v)) if not isinstance(v, float) else z3.RealVal(Fraction(v))); s.out += list(('$%d' % (len(s.phs) - 1)).encode())
        return os_
    def m_ins_str(s, it, a):
        os_, p, n = a; s.out += models.rd(it, p, n); return os_
    def m_put(s, it, a): s.out.append(a[1]); return a[0]
    def out_lines(s):
        lines = [[]]
        for b in s.out:
            if not is_sym(b) and (b & 0xff) == 10: lines.append([])
            else: lines[-1].append(b if is_sym(b) else b & 0xff)
        if lines and lines[-1] == []: lines.pop()
        return lines
    def models(s):
        M = models.all_models()
        errno = [None]
        def m_errno(it, a):
            if errno[0] is None or errno[0][0] is not it:
                p = it.alloc(4, 'errno'); it.store(p, 0, 4); errno[0] = (it, p)
            return errno[0][1]
        ret0 = lambda it, a: a[0]
        M.update({'re:^@_ZSt7getlineIcSt11char_traitsIcESaIcEERSt13basic_istream': s.m_getline, '@strtod': s.m_strtod, '@__errno_location': m_errno,
                  're:^@_ZNSo9_M_insertI': s.m_ins_double, 're:^@_ZSt16__ostream_insertIcSt11char_traitsIcEE': s.m_ins_str, 're:^@_ZNSo3putEc': s.m_put})
        return M
