# Throwaway prototype of the algebra layer: rational functions with canonical radicals + AD.
from fractions import Fraction as F
import itertools

class Poly:
    __slots__ = ('t',)
    def __init__(s, t=None): s.t = t or {}
    @staticmethod
    def const(c): return Poly({(): F(c)}) if c != 0 else Poly()
    @staticmethod
    def var(v): return Poly({((v, 1),): F(1)})
    def copy(s): return Poly(dict(s.t))
    def __add__(a, b):
        r = dict(a.t)
        for m, c in b.t.items():
            x = r.get(m, 0) + c
            if x == 0: r.pop(m, None)
            else: r[m] = x
        return Poly(r)
    def __neg__(a): return Poly({m: -c for m, c in a.t.items()})
    def __sub__(a, b): return a + (-b)
    def scale(a, k): return Poly({m: c * k for m, c in a.t.items()}) if k != 0 else Poly()
    def __mul__(a, b):
        r = {}
        for m1, c1 in a.t.items():
            d1 = dict(m1)
            for m2, c2 in b.t.items():
                d = dict(d1)
                for v, e in m2: d[v] = d.get(v, 0) + e
                m = tuple(sorted(d.items()))
                x = r.get(m, 0) + c1 * c2
                if x == 0: r.pop(m, None)
                else: r[m] = x
        return Poly(r)
    def is_zero(s): return not s.t
    def nterms(s): return len(s.t)
    def key(s):
        # canonical key up to positive scalar
        if not s.t: return ()
        items = sorted(s.t.items()); lead = F(1)
        return tuple((m, c / lead) for m, c in items), 1, lead
    def is_monomial(s): return len(s.t) == 1
    def pow(s, n):
        r = Poly.const(1)
        for _ in range(n): r = r * s
        return r
    def vars(s):
        return {v for m in s.t for v, e in m}
    def subs_even(s, defs):
        """defs: var -> Poly with var^2 == defs[var]; reduce even powers."""
        r = Poly()
        for m, c in s.t.items():
            term = Poly({(): c})
            rest = []
            for v, e in m:
                if v in defs:
                    if e // 2: term = term * defs[v].pow(e // 2)
                    if e % 2: rest.append((v, 1))
                else: rest.append((v, e))
            term = term * Poly({tuple(rest): F(1)})
            r = r + term
        return r
    def subs_var(s, defs):
        """defs: var -> Poly (full substitution)."""
        r = Poly()
        for m, c in s.t.items():
            term = Poly({(): c}); rest = []
            for v, e in m:
                if v in defs: term = term * defs[v].pow(e)
                else: rest.append((v, e))
            r = r + term * Poly({tuple(rest): F(1)})
        return r
    def deriv(s, x):
        r = {}
        for m, c in s.t.items():
            d = dict(m)
            if x in d:
                e = d[x]; c2 = c * e
                if e == 1: del d[x]
                else: d[x] = e - 1
                mm = tuple(sorted(d.items())); r[mm] = r.get(mm, 0) + c2
        return Poly({m: c for m, c in r.items() if c != 0})

class Ctx:
    """Registry of radical symbols (S_k^2 == rad_k), denominator atoms (D_k == poly) and opaque fns."""
    def __init__(s):
        s.rad = {}      # sym -> Poly (radicand, in base vars + earlier syms, reduced)
        s.radkey = {}   # key -> (sym, scale)
        s.atom = {}     # D sym -> Poly
        s.atomkey = {}
        s.acos = {}     # sym -> RF arg
        s.rel = {}      # var -> Poly with var^2 == poly, no sign information (e.g. rc^2 == 1 - rs^2 for a rotation)
        s.n = 0
    def fresh(s, p): s.n += 1; return '%s%d' % (p, s.n)
    def full(s, p):
        """expand D atoms, reduce even powers of radicals, until fixpoint."""
        while True:
            q = p.subs_var(s.atom) if (p.vars() & s.atom.keys()) else p
            q = q.subs_even(s.rad)
            if s.rel: q = q.subs_even(s.rel)
            if q.t == p.t: return q
            p = q

class RF:
    """num Poly / den monomial-Poly (dict var->exp)."""
    __slots__ = ('n', 'd', 'c')
    def __init__(s, c, n, d=None): s.c = c; s.n = n; s.d = d or {}
    @staticmethod
    def const(c, v): return RF(c, Poly.const(v))
    @staticmethod
    def var(c, v): return RF(c, Poly.var(v))
    def dpoly(s): return Poly({tuple(sorted(s.d.items())): F(1)})
    def _lift(a, b):
        l = dict(a.d)
        for v, e in b.d.items(): l[v] = max(l.get(v, 0), e)
        fa = {v: e - a.d.get(v, 0) for v, e in l.items() if e - a.d.get(v, 0)}
        fb = {v: e - b.d.get(v, 0) for v, e in l.items() if e - b.d.get(v, 0)}
        return l, Poly({tuple(sorted(fa.items())): F(1)}), Poly({tuple(sorted(fb.items())): F(1)})
    def __add__(a, b):
        l, fa, fb = a._lift(b); return RF(a.c, a.n * fa + b.n * fb, l)
    def __sub__(a, b):
        l, fa, fb = a._lift(b); return RF(a.c, a.n * fa - b.n * fb, l)
    def __neg__(a): return RF(a.c, -a.n, dict(a.d))
    def __mul__(a, b):
        d = dict(a.d)
        for v, e in b.d.items(): d[v] = d.get(v, 0) + e
        return RF(a.c, a.n * b.n, d).cancel_mono()
    def inv(a):
        # 1/(n/d) = d/n ; n must become a monomial: if not, introduce atom
        n = a.n
        if n.is_zero(): raise ZeroDivisionError
        if n.is_monomial():
            (m, c), = n.t.items()
            return RF(a.c, a.dpoly().scale(1 / c), dict(m)).cancel_mono()
        k = n.key()
        if k[0] in a.c.atomkey: sym = a.c.atomkey[k[0]]
        else:
            sym = a.c.fresh('D'); a.c.atomkey[k[0]] = sym
            # atom equals the normalised polynomial (positive lead scaling)
            a.c.atom[sym] = Poly({m: c for m, c in k[0]})
        # n = sign*lead*atom
        return RF(a.c, a.dpoly().scale(F(1) / (k[1] * k[2])), {sym: 1}).cancel_mono()
    def __truediv__(a, b): return a * b.inv()
    def cancel_mono(s):
        # cancel common variable powers between every numerator term and denominator
        if not s.d or s.n.is_zero(): return s
        common = None
        for m in s.n.t:
            dm = dict(m)
            cur = {v: min(e, dm.get(v, 0)) for v, e in s.d.items()}
            common = cur if common is None else {v: min(common[v], cur[v]) for v in common}
        common = {v: e for v, e in (common or {}).items() if e > 0}
        if not common: return s
        nn = {}
        for m, c in s.n.t.items():
            dm = dict(m)
            for v, e in common.items():
                dm[v] -= e
                if dm[v] == 0: del dm[v]
            nn[tuple(sorted(dm.items()))] = c
        dd = {v: e - common.get(v, 0) for v, e in s.d.items() if e - common.get(v, 0) > 0}
        return RF(s.c, Poly(nn), dd)
    def sqrt(a):
        c = a.c
        def root(p):
            """sqrt of polynomial p (assumed >0 on the domain): returns RF."""
            # perfect-square monomial?
            if p.is_monomial():
                (m, co), = p.t.items()
                if all(e % 2 == 0 for v, e in m):
                    import math
                    fr = F(co); rn = math.isqrt(fr.numerator); rd = math.isqrt(fr.denominator)
                    if rn * rn == fr.numerator and rd * rd == fr.denominator:
                        return RF(c, Poly({tuple((v, e // 2) for v, e in m): F(rn, rd)}))
            q = c.full(p)
            if q.is_monomial():
                (m, co), = q.t.items()
                if all(e % 2 == 0 for v, e in m) and co == 1:
                    return RF(c, Poly({tuple((v, e // 2) for v, e in m): F(1)}))
            k = q.key()
            if k[0] not in c.radkey:
                # product of two known radicands?  sqrt(r_i*r_j) = S_i*S_j
                syms = list(c.rad.items())
                for i in range(len(syms)):
                    for j in range(i, len(syms)):
                        if (syms[i][1] * syms[j][1]).t == q.t:
                            return RF(c, Poly({tuple(sorted({syms[i][0]: 1, syms[j][0]: 1}.items())) if i != j else ((syms[i][0], 2),): F(1)}))
            if k[0] not in c.radkey:
                sym = c.fresh('S'); c.radkey[k[0]] = sym; c.rad[sym] = Poly({m: co for m, co in k[0]})
            sym = c.radkey[k[0]]
            # q = lead * rad ; sqrt(lead) must be rational
            import math
            fr = k[2]; rn = math.isqrt(fr.numerator); rd = math.isqrt(fr.denominator)
            if rn * rn != fr.numerator or rd * rd != fr.denominator:
                raise ValueError('irrational scalar in sqrt')
            return RF(c, Poly({((sym, 1),): F(rn, rd)}))
        # try to split product structure is not available here (expanded); handle n and d separately
        return root(a.n) / root(a.dpoly())

def deriv(rf, x, ctx, dsym):
    """d rf / dx where radical symbols depend on x via dsym[sym] (RF) and atoms via chain rule."""
    # total derivative of num and den polynomials
    def dpoly(p):
        r = RF(ctx, p.deriv(x))
        for v in p.vars():
            if v in dsym: r = r + RF(ctx, p.deriv(v)) * dsym[v]
        return r
    dn = dpoly(rf.n); dd = dpoly(rf.dpoly())
    den = RF(ctx, rf.dpoly())
    return (dn * den - RF(ctx, rf.n) * dd) / (den * den)
