# Algebra front end: z3 real expressions (as produced by symx) -> rational functions with canonical radical /
# exp / acos symbols (alg.py), automatic differentiation, and the final solver query  "defs AND domain AND P != 0".
import time
from fractions import Fraction as F
import z3
from alg import Poly, RF, Ctx, deriv
import smt

class TermCap(Exception): pass

class Algebra:
    def __init__(s, term_cap=200000, nonneg_check=None):
        s.ctx = Ctx(); s.memo = {}; s.keep = []
        s.exp = {}; s.expkey = {}      # E sym -> RF argument
        s.acoskey = {}                 # canonical acos symbols by normal form of the argument
        s.term_cap = term_cap
        s.nonneg_check = nonneg_check  # callable(z3 expr) -> bool : is expr >= 0 on the domain?
        s.intvars = {}
        s.side = []                    # side conditions used by rewrites (z3 bools), asserted as part of the domain
    # ---------------- conversion ----------------
    def rf(s, e):
        if isinstance(e, (int, F)): return RF.const(s.ctx, F(e))
        k = e.get_id()
        if k in s.memo: return s.memo[k]
        c = s.ctx; d = e.decl().kind()
        if z3.is_rational_value(e): r = RF.const(c, F(e.numerator_as_long(), e.denominator_as_long()))
        elif z3.is_int_value(e): r = RF.const(c, F(e.as_long()))
        elif z3.is_const(e) and d == z3.Z3_OP_UNINTERPRETED:
            r = RF.var(c, str(e))
            if z3.is_int(e): s.intvars[str(e)] = e
        elif d == z3.Z3_OP_ADD:
            r = s.rf(e.arg(0))
            for ch in e.children()[1:]: r = r + s.rf(ch)
        elif d == z3.Z3_OP_MUL:
            r = s.rf(e.arg(0))
            for ch in e.children()[1:]: r = r * s.rf(ch)
        elif d == z3.Z3_OP_SUB:
            r = s.rf(e.arg(0))
            for ch in e.children()[1:]: r = r - s.rf(ch)
        elif d == z3.Z3_OP_UMINUS: r = -s.rf(e.arg(0))
        elif d == z3.Z3_OP_DIV: r = s.rf(e.arg(0)) / s.rf(e.arg(1))
        elif d == z3.Z3_OP_TO_REAL: r = s.rf(e.arg(0))
        elif d == z3.Z3_OP_UNINTERPRETED and e.decl().name() == 'sqrt':
            a = e.arg(0)
            if a.decl().kind() == z3.Z3_OP_MUL and all(s._nonneg(ch) for ch in a.children()):
                r = None   # sqrt(x*y) = sqrt x * sqrt y for x,y >= 0 (checked)
                for ch in a.children():
                    t = s.rf(ch).sqrt(); r = t if r is None else r * t
            else: r = s.rf(a).sqrt()
        elif d == z3.Z3_OP_UNINTERPRETED and e.decl().name() == 'acos':
            u = s.rf(e.arg(0)); key = s._rfkey(u)
            if key in s.acoskey: sym = s.acoskey[key]
            else: sym = c.fresh('A'); s.acoskey[key] = sym; c.acos[sym] = u
            r = RF.var(c, sym)
        elif d == z3.Z3_OP_UNINTERPRETED and e.decl().name() == 'exp':
            u = s.rf(e.arg(0)); key = s._rfkey(u)
            if key in s.expkey: sym = s.expkey[key]
            else: sym = c.fresh('E'); s.expkey[key] = sym; s.exp[sym] = u
            r = RF.var(c, sym)
        else:
            raise ValueError('algebra: unsupported term %s' % e.decl())
        if r.n.nterms() > s.term_cap: raise TermCap('term cap %d exceeded' % s.term_cap)
        s.memo[k] = r; s.keep.append(e)
        return r
    def _nonneg(s, e):
        if s.nonneg_check is None: return False
        ok = s.nonneg_check(e)
        if ok: s.side.append(e >= 0)
        return ok
    def _rfkey(s, u):
        n = s.ctx.full(u.n)
        return (tuple(sorted(n.t.items())), tuple(sorted(u.d.items())))
    def relation(s, var, poly_rf):
        """register var^2 == poly (an RF with trivial denominator); even powers of var are reduced in every normal form"""
        s.ctx.rel[var] = poly_rf.n
    # ---------------- differentiation ----------------
    def _order(s):
        c = s.ctx
        syms = list(c.rad.keys()) + list(c.atom.keys()) + list(c.acos.keys()) + list(s.exp.keys())
        return sorted(syms, key=lambda x: int(x[1:]))
    def total_deriv(s, rf, x):
        """d rf / d x with all dependent symbols differentiated by their defining relations."""
        c = s.ctx
        while True:
            before = len(s._order())
            dsym = {}
            for sy in s._order():
                if sy in c.rad:
                    dr = deriv(RF(c, c.rad[sy]), x, c, dsym); dsym[sy] = dr / (RF.const(c, 2) * RF.var(c, sy))
                elif sy in c.atom:
                    dsym[sy] = deriv(RF(c, c.atom[sy]), x, c, dsym)
                elif sy in c.acos:
                    u = c.acos[sy]; du = deriv(u, x, c, dsym)
                    one = RF.const(c, 1); rt = (one - u * u).sqrt()
                    dsym[sy] = -(du / rt)
                else:
                    u = s.exp[sy]; du = deriv(u, x, c, dsym); dsym[sy] = RF.var(c, sy) * du
            if len(s._order()) == before: break     # no new symbols were created while differentiating
        return deriv(rf, x, c, dsym)
    # ---------------- back to z3 ----------------
    def poly_z3(s, p):
        tot = z3.RealVal(0)
        for m, co in p.t.items():
            t = z3.RealVal(co)
            for v, e in m:
                zv = z3.ToReal(s.intvars[v]) if v in s.intvars else z3.Real(v)
                for _ in range(e): t = t * zv
            tot = tot + t
        return tot
    def rf_z3(s, r): return s.poly_z3(r.n) / s.poly_z3(r.dpoly())
    def definitions(s):
        c = s.ctx; out = []
        for sy, rad in c.rad.items(): out += [z3.Real(sy) > 0, z3.Real(sy) * z3.Real(sy) == s.poly_z3(rad)]
        for sy, at in c.atom.items(): out += [z3.Real(sy) == s.poly_z3(at), z3.Real(sy) != 0]
        for sy in s.exp: out += [z3.Real(sy) > 0]
        for v, p in c.rel.items(): out += [z3.Real(v) * z3.Real(v) == s.poly_z3(p)]
        for sy, u in c.acos.items():
            pass   # opaque value; only its derivative rule is used
        return out
    def residual(s, lhs, rhs):
        """Normal form of numerator(lhs - rhs): the identity holds on the domain iff it vanishes there."""
        diff = lhs - rhs
        return s.ctx.full(diff.n)
    def prove_equal(s, ck, name, lhs, rhs, domain=(), timeout_s=60, probe_free=True, detail=None):
        """Obligation lhs == rhs (RF).  The verdict is z3's on  defs AND domain AND residual != 0."""
        t0 = time.time()
        P = s.residual(lhs, rhs)
        dt_alg = time.time() - t0
        cons = s.definitions() + list(domain) + list(s.side)
        goal = [s.poly_z3(P) != 0]
        d = dict(detail or {}); d.update({'residual_terms': P.nterms(), 'radicals': len(s.ctx.rad), 'atoms': len(s.ctx.atom), 'normalise_s': round(dt_alg, 3)})
        probe = None
        if probe_free:
            # triviality probe: the reported quantity replaced by a free symbol -> must be satisfiable
            fr = z3.Real('free!' + str(len(ck.obl)))
            probe = s.definitions() + list(domain) + [fr != s.rf_z3(rhs)]
        return smt.prove(ck, name, cons, goal, timeout_s, probe=probe, detail=d)
