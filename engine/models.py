# Environment models for E2 (keyed by mangled name or 're:<regex>').  Everything a check reaches is
# recorded in Interp.models_used and reported in the evidence file.
import re, math
from fractions import Fraction
import z3
from symx import Ptr, NULL, FnPtr, Thrown, Unsupported, is_sym, UNDEF

RS = z3.RealSort()
UF = {n: z3.Function(n, RS, RS) for n in ('sqrt', 'exp', 'log', 'acos', 'sin', 'cos')}
NPOS = (1 << 64) - 1
MASK64 = (1 << 64) - 1

def _math1(name, pyf):
    def f(it, a):
        x = a[0]
        if it.fpmode == 'float':
            try: return pyf(x)
            except (ValueError, OverflowError): return math.nan
        if not is_sym(x):
            # exact for perfect cases, otherwise keep as UF application of a rational
            if name == 'sqrt':
                fr = Fraction(x)
                if fr >= 0:
                    rn = math.isqrt(fr.numerator); rd = math.isqrt(fr.denominator)
                    if rn * rn == fr.numerator and rd * rd == fr.denominator: return Fraction(rn, rd)
            if name == 'exp' and x == 0: return Fraction(1)
            if name == 'log' and x == 1: return Fraction(0)
            if name == 'cos' and x == 0: return Fraction(1)
            if name == 'sin' and x == 0: return Fraction(0)
        return UF[name](it.R(x))
    return f

def m_pow(it, a):
    x, k = a
    if it.fpmode == 'float': return math.pow(x, k)
    if not is_sym(k) and k == int(k) and 0 <= k <= 16:
        r = Fraction(1)
        for _ in range(int(k)): r = it.fbin('fmul', r, x)
        return r
    if not is_sym(k) and k == int(k) and -16 <= k < 0:
        r = Fraction(1)
        for _ in range(int(-k)): r = it.fbin('fmul', r, x)
        return it.fbin('fdiv', Fraction(1), r)
    raise Unsupported('pow with non-literal exponent')

def m_throw(it, a): raise Thrown(a[0] if a else NULL)
def m_thrower(it, a): raise Thrown(NULL)
def m_new(it, a):
    n = a[0]
    if is_sym(n): n = it.concretize(n)
    return it.alloc(max(1, n), 'heap')
def m_free(it, a):
    p = a[0]
    if isinstance(p, Ptr) and p.obj in it.objs and p.obj != 0: it.objs[p.obj].freed = True
    return None
def m_realloc(it, a):
    p, n = a
    if is_sym(n): n = it.concretize(n)
    np_ = it.alloc(max(1, n), 'heap')
    if isinstance(p, Ptr) and p.obj != 0:
        o = it.objs[p.obj]; it.memcpy(np_, p, min(n, o.size - p.off)); o.freed = True
    return np_
def m_memcmp(it, a):
    p, q, n = a
    for i in range(n):
        x = it.load(Ptr(p.obj, p.off + i), 1); y = it.load(Ptr(q.obj, q.off + i), 1)
        if is_sym(x) or is_sym(y):
            if it.branch(it.I(x) != it.I(y)):
                return 1 if it.branch(it.I(x) > it.I(y)) else 0xffffffff      # bytes compare as unsigned char; the models keep them in 0..255
            continue
        if x != y: return (1 if (x & 0xff) > (y & 0xff) else 0xffffffff)
    return 0
def m_memcpy(it, a): it.memcpy(a[0], a[1], a[2]); return a[0]
def m_strlen(it, a):
    # symbolic bytes: the terminator position is decided by forking on (byte == 0)
    p = a[0]; n = 0
    while True:
        b = it.load(Ptr(p.obj, p.off + n), 1)
        if b is UNDEF: return n
        if is_sym(b):
            if it.branch(b == 0): return n
        elif b & 0xff == 0: return n
        n += 1

def m_fmod(it, a):
    """C fmod(x, y) = x - y * trunc(x / y): result has the sign of x and magnitude below |y| (exact reals; y != 0)"""
    import math as _m
    from fractions import Fraction as _F
    x, y = a
    if not is_sym(x) and not is_sym(y):
        if isinstance(x, float) or isinstance(y, float): return _m.fmod(x, y)
        fx, fy = _F(x), _F(y); q = abs(fx) // abs(fy); r = abs(fx) - q * abs(fy); return r if fx >= 0 else -r
    n = it.newsym('fmod_n', 'int'); X = it.R(x); Y = it.R(y); res = X - Y * z3.ToReal(n)
    ay = z3.If(Y >= 0, Y, -Y)
    it.assume(Y != 0)
    it.assume(z3.If(X >= 0, z3.And(res >= 0, res < ay), z3.And(res <= 0, res > -ay)))
    return res

def base():
    M = {
        '@_Znwm': m_new, '@_Znam': m_new, '@_ZdlPv': m_free, '@_ZdaPv': m_free, '@_ZdlPvm': m_free, '@malloc': m_new, '@free': m_free, '@realloc': m_realloc,
        '@_ZnwmSt11align_val_t': m_new, '@_ZdlPvSt11align_val_t': m_free,
        '@__cxa_allocate_exception': lambda it, a: it.alloc(max(a[0], 16), 'exn'), '@__cxa_free_exception': lambda it, a: None,
        '@__cxa_throw': m_throw, '@__cxa_rethrow': m_thrower, '@__cxa_begin_catch': lambda it, a: a[0], '@__cxa_end_catch': lambda it, a: None,
        '@__cxa_guard_acquire': lambda it, a: 1, '@__cxa_guard_release': lambda it, a: None, '@__cxa_atexit': lambda it, a: 0,
        're:^@_ZNSt13runtime_errorC[12]E': lambda it, a: None, 're:^@_ZNSt13runtime_errorD[12]Ev': lambda it, a: None,
        're:^@_ZNSt11logic_errorC[12]E': lambda it, a: None, 're:^@_ZNSt12out_of_rangeC[12]E': lambda it, a: None,
        're:^@_ZNSt16invalid_argumentC[12]E': lambda it, a: None,
        're:^@_ZSt\\d+__throw_': m_thrower, '@_ZSt9terminatev': m_thrower, '@abort': m_thrower,
        '@sqrt': _math1('sqrt', math.sqrt), '@exp': _math1('exp', math.exp), '@log': _math1('log', math.log),
        '@acos': _math1('acos', math.acos), '@sin': _math1('sin', math.sin), '@cos': _math1('cos', math.cos), '@pow': m_pow,
        '@fmod': m_fmod,
        '@memcmp': m_memcmp, '@bcmp': m_memcmp, '@memcpy': m_memcpy, '@memmove': m_memcpy, '@strlen': m_strlen,
    }
    return M

# ---------------- libstdc++ std::string (SSO layout: ptr, len, union{cap, buf[16]}) ----------------
def sget(it, this):
    p = it.load(Ptr(this.obj, this.off), 8); n = it.load(Ptr(this.obj, this.off + 8), 8)
    return [it.load(Ptr(p.obj, p.off + i), 1) for i in range(n)]
def sget_bytes(it, this):
    return bytes(b & 0xff for b in sget(it, this))
def scap(it, this):
    p = it.load(Ptr(this.obj, this.off), 8)
    if p == Ptr(this.obj, this.off + 16): return 15
    return it.load(Ptr(this.obj, this.off + 16), 8)
def sset(it, this, b):
    if len(b) > scap(it, this):
        cap = max(2 * len(b), 30); np = it.alloc(cap + 1, 'strbuf'); it.store(Ptr(this.obj, this.off), np, 8); it.store(Ptr(this.obj, this.off + 16), cap, 8)
    p = it.load(Ptr(this.obj, this.off), 8)
    for i, c in enumerate(b): it.store(Ptr(p.obj, p.off + i), c, 1)
    it.store(Ptr(p.obj, p.off + len(b)), 0, 1); it.store(Ptr(this.obj, this.off + 8), len(b), 8)
def sinit(it, this, b=b''):
    it.store(Ptr(this.obj, this.off), Ptr(this.obj, this.off + 16), 8); it.store(Ptr(this.obj, this.off + 8), 0, 8); it.store(Ptr(this.obj, this.off + 16), 0, 1)
    sset(it, this, list(b))
def rd(it, p, n): return [it.load(Ptr(p.obj, p.off + i), 1) for i in range(n)]
def m_s_create(it, a):
    this, capref, old = a; cap = it.load(capref, 8)
    if cap > old and cap < 2 * old: cap = 2 * old; it.store(capref, cap, 8)
    return it.alloc(cap + 1, 'strbuf')
def m_s_append(it, a): this, s, n = a; sset(it, this, sget(it, this) + rd(it, s, n)); return this
def m_s_append_str(it, a): this, o = a; sset(it, this, sget(it, this) + sget(it, o)); return this
def m_s_replace(it, a):
    this, pos, l1, s, l2 = a; cur = sget(it, this); sset(it, this, cur[:pos] + rd(it, s, l2) + cur[pos + l1:]); return this
def m_s_replace_aux(it, a):
    this, pos, l1, n2, c = a; cur = sget(it, this); sset(it, this, cur[:pos] + [c] * n2 + cur[pos + l1:]); return this
def m_s_construct_nc(it, a):
    this, n, c = a; it.store(Ptr(this.obj, this.off), Ptr(this.obj, this.off + 16), 8); it.store(Ptr(this.obj, this.off + 8), 0, 8); it.store(Ptr(this.obj, this.off + 16), 0, 1)
    sset(it, this, [c] * n); return None
def m_s_resize(it, a):
    this, n, c = a; cur = sget(it, this); sset(it, this, (cur + [c] * n)[:n]); return None
def m_s_assign(it, a): this, o = a; sset(it, this, sget(it, o)); return None
def m_s_reserve(it, a):
    this, n = a
    if n > scap(it, this):
        cur = sget(it, this); np = it.alloc(n + 1, 'strbuf'); it.store(Ptr(this.obj, this.off), np, 8); it.store(Ptr(this.obj, this.off + 16), n, 8); sset(it, this, cur)
def m_s_mutate(it, a):
    this, pos, l1, s, l2 = a; cur = sget(it, this)
    ins = rd(it, s, l2) if isinstance(s, Ptr) and s.obj != 0 else [0] * l2
    new = cur[:pos] + ins + cur[pos + l1:]
    # _M_mutate does not update the length; emulate by reallocating with room and leaving length
    n = it.load(Ptr(this.obj, this.off + 8), 8)
    sset(it, this, new); it.store(Ptr(this.obj, this.off + 8), n, 8)
def m_s_erase(it, a):
    this, pos, n = a; cur = sget(it, this); sset(it, this, cur[:pos] + cur[pos + n:]); return None
def _conc(bs):
    if any(is_sym(b) for b in bs): raise Unsupported('symbolic byte in string search')
    return bytes(b & 0xff for b in bs)
def _beq(it, x, y):
    """byte equality; a symbolic byte is decided by forking (the path condition then pins or excludes the value)"""
    if is_sym(x) or is_sym(y): return it.branch(it.I(x) == it.I(y))
    return (x & 0xff) == (y & 0xff)
def _find(it, hay, needle, pos):
    if not needle: return pos if pos <= len(hay) else NPOS
    for i in range(pos, len(hay) - len(needle) + 1):
        if all(_beq(it, hay[i + j], needle[j]) for j in range(len(needle))): return i
    return NPOS
def m_s_find_c(it, a):
    this, c, pos = a; return _find(it, sget(it, this), [c], pos)
def m_s_find_s(it, a):
    this, s, pos, n = a; return _find(it, sget(it, this), rd(it, s, n), pos)
def m_s_rfind_c(it, a):
    this, c, pos = a; b = sget(it, this)
    for i in range(min(len(b) - 1, len(b) - 1 if pos == NPOS else pos), -1, -1):
        if _beq(it, b[i], c): return i
    return NPOS
def m_s_compare(it, a):
    this, o = a; x = sget(it, this); y = sget(it, o)
    for p, q in zip(x, y):
        if is_sym(p) or is_sym(q):
            if it.branch(it.I(p) != it.I(q)):
                return 1 if it.branch(it.I(p) > it.I(q)) else 0xffffffff
            continue
        if p != q: return 1 if p > q else 0xffffffff
    d = len(x) - len(y); return 0 if d == 0 else (1 if d > 0 else 0xffffffff)
def m_s_compare_cstr(it, a):
    this, s = a; x = sget(it, this); y = list(it.cstr(s))
    for p, q in zip(x, y):
        if is_sym(p):
            if it.branch(it.I(p) != q): return 1 if it.branch(it.I(p) > q) else 0xffffffff
            continue
        if p != q: return 1 if p > q else 0xffffffff
    d = len(x) - len(y); return 0 if d == 0 else (1 if d > 0 else 0xffffffff)

def strings():
    B = 'NSt7__cxx1112basic_stringIcSt11char_traitsIcESaIcEE'
    return {
        're:^@_Z' + B + '9_M_createERmm': m_s_create, 're:^@_Z' + B + '9_M_appendEPKcm': m_s_append,
        're:^@_Z' + B + '10_M_replaceEmmPKcm': m_s_replace, 're:^@_Z' + B + '14_M_replace_auxEmmmc': m_s_replace_aux,
        're:^@_Z' + B + '9_M_assignERKS4_': m_s_assign, 're:^@_Z' + B + '12_M_constructEmc': m_s_construct_nc, 're:^@_Z' + B + '6resizeEmc': m_s_resize, 're:^@_Z' + B + '7reserveEm': m_s_reserve,
        're:^@_Z' + B + '9_M_mutateEmmPKcm': m_s_mutate, 're:^@_Z' + B + '8_M_eraseEmm': m_s_erase,
        're:^@_ZNK' + B[1:] + '4findEcm': m_s_find_c, 're:^@_ZNK' + B[1:] + '4findEPKcmm': m_s_find_s, 're:^@_ZNK' + B[1:] + '5rfindEcm': m_s_rfind_c,
        're:^@_ZNK' + B[1:] + '7compareERKS4_': m_s_compare, 're:^@_ZNK' + B[1:] + '7compareEPKc': m_s_compare_cstr,
    }

# ---------------- std::list hooks ----------------
def m_l_hook(it, a):
    node, pos = a; prev = it.load(Ptr(pos.obj, pos.off + 8), 8)
    it.store(Ptr(node.obj, node.off), pos, 8); it.store(Ptr(node.obj, node.off + 8), prev, 8); it.store(Ptr(prev.obj, prev.off), node, 8); it.store(Ptr(pos.obj, pos.off + 8), node, 8)
def m_l_unhook(it, a):
    node, = a; nxt = it.load(Ptr(node.obj, node.off), 8); prev = it.load(Ptr(node.obj, node.off + 8), 8)
    it.store(Ptr(prev.obj, prev.off), nxt, 8); it.store(Ptr(nxt.obj, nxt.off + 8), prev, 8)
def lists():
    return {'re:^@_ZNSt8__detail15_List_node_base7_M_hookEPS0_': m_l_hook, 're:^@_ZNSt8__detail15_List_node_base9_M_unhookEv': m_l_unhook}

# ---------------- red-black tree as an unbalanced BST (node: color@0 parent@8 left@16 right@24) ----------------
def _ld(it, p, off): return it.load(Ptr(p.obj, p.off + off), 8, None)
def _st(it, p, off, v): it.store(Ptr(p.obj, p.off + off), v, 8)
def _isnull(p): return p == NULL or p == 0
def m_rb_insert(it, a):
    left, x, p, hdr = a
    if is_sym(left):
        left = 1 if it.branch(left if z3.is_bool(left) else left != 0) else 0
    _st(it, x, 8, p); _st(it, x, 16, NULL); _st(it, x, 24, NULL); it.store(x, 1, 4)
    if left & 1:
        _st(it, p, 16, x)
        if p == hdr: _st(it, hdr, 8, x); _st(it, hdr, 24, x)
        elif p == _ld(it, hdr, 16): _st(it, hdr, 16, x)
    else:
        _st(it, p, 24, x)
        if p == _ld(it, hdr, 24): _st(it, hdr, 24, x)
def m_rb_incr(it, a):
    x, = a; r = _ld(it, x, 24)
    if not _isnull(r):
        x = r
        while not _isnull(_ld(it, x, 16)): x = _ld(it, x, 16)
        return x
    y = _ld(it, x, 8)
    while x == _ld(it, y, 24): x = y; y = _ld(it, y, 8)
    if _ld(it, x, 24) != y: x = y
    return x
def m_rb_decr(it, a):
    x, = a; par = _ld(it, x, 8)
    # header node: red and parent->parent == x (real nodes are stored black by m_rb_insert)
    if (it.load(x, 4) & 1) == 0 and not _isnull(par) and _ld(it, par, 8) == x: return _ld(it, x, 24)
    l = _ld(it, x, 16)
    if not _isnull(l):
        y = l
        while not _isnull(_ld(it, y, 24)): y = _ld(it, y, 24)
        return y
    y = par
    while x == _ld(it, y, 16): x = y; y = _ld(it, y, 8)
    return y
def m_rb_erase(it, a):
    z, hdr = a
    # plain BST delete keeping header.{parent=root,left=min,right=max}
    def replace(u, v):
        p = _ld(it, u, 8)
        if p == hdr: _st(it, hdr, 8, v)
        elif _ld(it, p, 16) == u: _st(it, p, 16, v)
        else: _st(it, p, 24, v)
        if not _isnull(v): _st(it, v, 8, p)
    l = _ld(it, z, 16); r = _ld(it, z, 24)
    if _isnull(l): replace(z, r)
    elif _isnull(r): replace(z, l)
    else:
        y = r
        while not _isnull(_ld(it, y, 16)): y = _ld(it, y, 16)
        if _ld(it, y, 8) != z:
            replace(y, _ld(it, y, 24)); _st(it, y, 24, r); _st(it, r, 8, y)
        replace(z, y); _st(it, y, 16, l); _st(it, l, 8, y)
    root = _ld(it, hdr, 8)
    if _isnull(root): _st(it, hdr, 16, hdr); _st(it, hdr, 24, hdr)
    else:
        x = root
        while not _isnull(_ld(it, x, 16)): x = _ld(it, x, 16)
        _st(it, hdr, 16, x); x = root
        while not _isnull(_ld(it, x, 24)): x = _ld(it, x, 24)
        _st(it, hdr, 24, x)
    return z
def trees():
    return {'@_ZSt29_Rb_tree_insert_and_rebalancebPSt18_Rb_tree_node_baseS0_RS_': m_rb_insert,
            '@_ZSt18_Rb_tree_incrementPSt18_Rb_tree_node_base': m_rb_incr, '@_ZSt18_Rb_tree_incrementPKSt18_Rb_tree_node_base': m_rb_incr,
            '@_ZSt18_Rb_tree_decrementPSt18_Rb_tree_node_base': m_rb_decr, '@_ZSt18_Rb_tree_decrementPKSt18_Rb_tree_node_base': m_rb_decr,
            '@_ZSt28_Rb_tree_rebalance_for_erasePSt18_Rb_tree_node_baseRS_': m_rb_erase}

# ---------------- output sinks: formatting is never the subject of an E2 check ----------------
def _dummy_locale(it):
    p = getattr(it, '_dummy_loc', None)
    if p is None: p = it.alloc(16, 'classic-locale'); it._dummy_loc = p
    return p

def sinks():
    ret0 = lambda it, a: a[0]
    none = lambda it, a: None
    return {
        're:^@_ZNSolsE': ret0, 're:^@_ZNSo9_M_insertI': ret0, 're:^@_ZSt16__ostream_insertIcSt11char_traitsIcEE': ret0,
        're:^@_ZStlsISt11char_traitsIcEERSt13basic_ostreamIcT_E': ret0, 're:^@_ZSt4endlIcSt11char_traitsIcEE': ret0,
        're:^@_ZNSo3putEc': ret0, 're:^@_ZNSo5flushEv': ret0, 're:^@_ZSt5flush': ret0,
        're:^@_ZNSt6locale7classicEv': lambda it, a: _dummy_locale(it), 're:^@_ZNKSt6localeeqERKS_': lambda it, a: 1, 're:^@_ZNSt6localeC[12]ERKS_': none, 're:^@_ZNSt6localeaSERKS_': ret0,
        're:^@_ZNSt6localeC[12]Ev': none, 're:^@_ZNSt6localeD[12]Ev': none, 're:^@_ZNSt8ios_base4InitC': none, 're:^@_ZNSt8ios_baseD2Ev': none, 're:^@_ZNSt8ios_baseC2Ev': none,
        're:^@_ZNSt9basic_iosIcSt11char_traitsIcEE4initE': none, 're:^@_ZNSt9basic_iosIcSt11char_traitsIcEE5clearE': none,
    }

# ---------------- libstdc++ hashing (std::hash<std::string> -> _Hash_bytes = MurmurHash64A variant; prime rehash policy) ----------------
_M64 = (1 << 64) - 1
def m_hash_bytes(it, a):
    ptr, ln, seed = a
    if is_sym(ln) or is_sym(seed): raise Unsupported('_Hash_bytes with symbolic length/seed')
    b = rd(it, ptr, ln)
    if any(is_sym(x) for x in b): raise Unsupported('_Hash_bytes over symbolic bytes')
    b = [x & 0xff for x in b]
    mul = ((0xc6a4a793 << 32) + 0x5bd1e995) & _M64
    mix = lambda v: (v ^ (v >> 47)) & _M64
    h = (seed ^ ((ln * mul) & _M64)) & _M64
    al = ln & ~7
    for i in range(0, al, 8):
        w = int.from_bytes(bytes(b[i:i + 8]), 'little')
        d = (mix((w * mul) & _M64) * mul) & _M64
        h ^= d; h = (h * mul) & _M64
    if ln & 7:
        w = int.from_bytes(bytes(b[al:ln]), 'little')
        h ^= w; h = (h * mul) & _M64
    h = (mix(h) * mul) & _M64
    return mix(h)
_PRIMES = [2, 3, 5, 7, 11, 13, 17, 19, 23, 29, 31, 37, 41, 43, 47, 53, 59, 61, 67, 71, 73, 79, 83, 89, 97, 103, 109, 113, 127, 137, 139, 149, 157, 167, 179, 193, 199, 211, 227, 241, 257, 277, 293, 313, 337, 359, 383, 409, 439, 467, 503, 541, 577, 619, 661, 709, 761, 823, 887, 953, 1031]
_FAST_BKT = [2, 2, 2, 3, 5, 5, 7, 7, 11, 11, 11, 11, 13, 13]
def _ldf32(it, p):
    v = it.load(p, 4)
    if isinstance(v, int) and not isinstance(v, bool):
        import struct
        return struct.unpack('<f', (v & 0xffffffff).to_bytes(4, 'little'))[0]
    return float(v)
def _next_bkt(it, pol, n, mlf):
    if n < len(_FAST_BKT):
        if n == 0: return 1
        it.store(Ptr(pol.obj, pol.off + 8), int(math.floor(_FAST_BKT[n] * mlf)), 8); return _FAST_BKT[n]
    for q in _PRIMES:
        if q >= n:
            it.store(Ptr(pol.obj, pol.off + 8), int(math.floor(q * mlf)), 8); return q
    raise Unsupported('hash table beyond %d buckets' % _PRIMES[-1])
def m_need_rehash(it, a):
    pol, n_bkt, n_elt, n_ins = a
    mlf = _ldf32(it, Ptr(pol.obj, pol.off)); nr = it.load(Ptr(pol.obj, pol.off + 8), 8)
    if n_elt + n_ins > nr:
        min_bkts = max(n_elt + n_ins, 0 if nr else 11) / mlf
        if min_bkts >= n_bkt:
            return [1, _next_bkt(it, pol, max(int(math.floor(min_bkts)) + 1, n_bkt * 2), mlf)]
        it.store(Ptr(pol.obj, pol.off + 8), int(math.floor(n_bkt * mlf)), 8)
        return [0, 0]
    return [0, 0]
def m_next_bkt(it, a):
    pol, n = a; return _next_bkt(it, pol, n, _ldf32(it, Ptr(pol.obj, pol.off)))
def m_s_swap(it, a):
    x, y = a; bx = sget(it, x); by = sget(it, y); sset(it, x, by); sset(it, y, bx); return None
def m_l_transfer(it, a):
    # _List_node_base::_M_transfer(first, last): move [first,last) before this
    this, first, last = a
    if this == last: return None
    ld = lambda p, o: it.load(Ptr(p.obj, p.off + o), 8); st = lambda p, o, v: it.store(Ptr(p.obj, p.off + o), v, 8)
    # remove [first, last) from its old position
    st(ld(last, 8), 0, this); st(ld(first, 8), 0, last); st(ld(this, 8), 0, first)
    # splice [first, last) into its new position
    tmp = ld(this, 8); st(this, 8, ld(last, 8)); st(last, 8, ld(first, 8)); st(first, 8, tmp)
    return None
def m_s_copy_ctor(it, a):
    this, o = a; sinit(it, this, []); sset(it, this, sget(it, o)); return None
def m_s_dtor(it, a): return None
def m_s_substr(it, a):
    # sret form: (result, this, pos, n)
    res, this, pos, n = a; b = sget(it, this)
    if pos > len(b): raise Thrown(NULL)
    sinit(it, res, []); sset(it, res, b[pos:pos + n] if n < (1 << 62) else b[pos:]); return None
def m_s_find_first_not_of(it, a):
    this, chars, pos, n = a; b = sget(it, this); cs = rd(it, chars, n)
    for i in range(pos, len(b)):
        if is_sym(b[i]) or any(is_sym(c) for c in cs): raise Unsupported('find_first_not_of over symbolic bytes')
        if (b[i] & 0xff) not in [c & 0xff for c in cs]: return i
    return (1 << 64) - 1
def m_s_resize_c(it, a):
    this, n, c = a; b = sget(it, this)
    sset(it, this, b[:n] if n <= len(b) else b + [c & 0xff] * (n - len(b))); return None
def hashing():
    return {'@_ZSt11_Hash_bytesPKvmm': m_hash_bytes, '@_ZNKSt8__detail20_Prime_rehash_policy14_M_need_rehashEmmm': m_need_rehash,
            '@_ZNKSt8__detail20_Prime_rehash_policy11_M_next_bktEm': m_next_bkt,
            're:^@_ZNSt7__cxx1112basic_stringIcSt11char_traitsIcESaIcEE4swapERS4_': m_s_swap,
            're:^@_ZNSt8__detail15_List_node_base11_M_transferEPS0_S1_': m_l_transfer,
            '@_ZNSt7__cxx1112basic_stringIcSt11char_traitsIcESaIcEEC1ERKS4_': m_s_copy_ctor, '@_ZNSt7__cxx1112basic_stringIcSt11char_traitsIcESaIcEEC2ERKS4_': m_s_copy_ctor,
            're:^@_ZNSt7__cxx1112basic_stringIcSt11char_traitsIcESaIcEED[12]Ev': m_s_dtor,
            '@_ZNKSt7__cxx1112basic_stringIcSt11char_traitsIcESaIcEE6substrEmm': m_s_substr,
            '@_ZNKSt7__cxx1112basic_stringIcSt11char_traitsIcESaIcEE17find_first_not_ofEPKcmm': m_s_find_first_not_of,
            '@_ZNSt7__cxx1112basic_stringIcSt11char_traitsIcESaIcEE6resizeEmc': m_s_resize_c}

def all_models():
    M = base(); M.update(strings()); M.update(lists()); M.update(trees()); M.update(sinks()); M.update(hashing()); return M
