# Throwaway prototype: translate a few IR functions to C for CBMC (byte-offset GEPs, typed loads/stores).
import sys, re
from llir import *
from symx import Interp   # reuse layout code

def cty(it, ty):
    ty = it.resolve(ty)
    if isinstance(ty, IntTy):
        return {1: 'unsigned char', 8: 'unsigned char', 16: 'unsigned short', 32: 'unsigned int', 64: 'unsigned long'}[ty.bits]
    if isinstance(ty, FloatTy): return 'double' if ty.bits == 64 else 'float'
    if isinstance(ty, (PtrTy, FnTy)): return 'char*'
    raise Exception('cty %r' % ty)
def sname(n): return 'v_' + re.sub(r'\W', '_', n[1:])
def fname(n): return 'f_' + re.sub(r'\W', '_', n[1:])

class T:
    def __init__(s, m): s.m = m; s.it = Interp(m); s.out = []; s.decls = set()
    def val(s, v, ty=None):
        if isinstance(v, Ref): return sname(v.name)
        if isinstance(v, Const):
            if v.kind == 'int':
                bits = s.it.resolve(v.ty).bits
                return '%dUL' % (v.v & ((1 << bits) - 1))
            if v.kind == 'fp': return repr(float(v.v)) if v.v == v.v else 'NAN'
            if v.kind == 'null': return '((char*)0)'
            if v.kind == 'undef': return '0'
        raise Exception('val %r' % (v,))
    def signed(s, x, bits): return '((%s)%s)' % ({8: 'signed char', 16: 'short', 32: 'int', 64: 'long'}[bits], x)
    def func(s, name):
        f = s.m.funcs[name]; it = s.it
        locs = {}; body = []
        def decl(res, ty): locs[sname(res)] = cty(it, ty)
        for lbl in f.order:
            body.append('%s: ;' % ('L_' + re.sub(r'\W', '_', lbl[1:])))
            for line in f.blocks[lbl]:
                ins = parse_ins(line); op = ins.op
                if op == 'phi': decl(ins.res, ins.ty); continue   # assigned on edges
                if op == 'gep':
                    decl(ins.res, PtrTy(IntTy(8)))
                    expr = '(char*)' + s.val(ins.base); ty = ins.sty
                    for n, i in enumerate(ins.idx):
                        if n == 0: expr += ' + (long)%s*%d' % (s.val(i), it.size(ty))
                        else:
                            rty = it.resolve(ty)
                            if isinstance(rty, StructTy): k = i.v; expr += ' + %d' % it.field_off(rty, k); ty = rty.els[k]
                            else: expr += ' + (long)%s*%d' % (s.val(i), it.size(rty.el)); ty = rty.el
                    body.append('%s = %s;' % (sname(ins.res), expr))
                elif op == 'load':
                    decl(ins.res, ins.ty); body.append('%s = *(%s*)%s;' % (sname(ins.res), cty(it, ins.ty), s.val(ins.ptr)))
                elif op == 'store':
                    body.append('*(%s*)%s = %s;' % (cty(it, ins.ty), s.val(ins.ptr), s.val(ins.v)))
                elif op in ('fadd', 'fsub', 'fmul', 'fdiv'):
                    decl(ins.res, ins.ty); body.append('%s = %s %s %s;' % (sname(ins.res), s.val(ins.a), {'fadd': '+', 'fsub': '-', 'fmul': '*', 'fdiv': '/'}[op], s.val(ins.b)))
                elif op in ('add', 'sub', 'mul', 'and', 'or', 'xor', 'shl', 'lshr', 'udiv', 'urem'):
                    decl(ins.res, ins.ty); o = {'add': '+', 'sub': '-', 'mul': '*', 'and': '&', 'or': '|', 'xor': '^', 'shl': '<<', 'lshr': '>>', 'udiv': '/', 'urem': '%'}[op]
                    body.append('%s = %s %s %s;' % (sname(ins.res), s.val(ins.a), o, s.val(ins.b)))
                elif op in ('sdiv', 'srem', 'ashr'):
                    decl(ins.res, ins.ty); bits = it.resolve(ins.ty).bits; o = {'sdiv': '/', 'srem': '%', 'ashr': '>>'}[op]
                    body.append('%s = (%s)(%s %s %s);' % (sname(ins.res), cty(it, ins.ty), s.signed(s.val(ins.a), bits), o, s.signed(s.val(ins.b), bits)))
                elif op == 'icmp':
                    decl(ins.res, IntTy(1)); ty = it.resolve(ins.ty); bits = ty.bits if isinstance(ty, IntTy) else 64
                    a, b = s.val(ins.a), s.val(ins.b)
                    if ins.pred[0] == 's' and ins.pred not in ('sne',): a, b = s.signed(a, bits), s.signed(b, bits)
                    o = {'eq': '==', 'ne': '!=', 'ult': '<', 'ule': '<=', 'ugt': '>', 'uge': '>=', 'slt': '<', 'sle': '<=', 'sgt': '>', 'sge': '>='}[ins.pred]
                    body.append('%s = (%s %s %s);' % (sname(ins.res), a, o, b))
                elif op == 'select':
                    decl(ins.res, ins.ty); body.append('%s = %s ? %s : %s;' % (sname(ins.res), s.val(ins.c), s.val(ins.a), s.val(ins.b)))
                elif op == 'cast':
                    decl(ins.res, ins.dty)
                    if ins.kind == 'fptosi': body.append('%s = (unsigned long)(long)%s;' % (sname(ins.res), s.val(ins.a)))
                    elif ins.kind == 'sitofp': body.append('%s = (double)%s;' % (sname(ins.res), s.signed(s.val(ins.a), it.resolve(ins.ty).bits)))
                    elif ins.kind == 'sext': body.append('%s = (%s)%s;' % (sname(ins.res), cty(it, ins.dty), s.signed(s.val(ins.a), it.resolve(ins.ty).bits)))
                    else: body.append('%s = (%s)%s;' % (sname(ins.res), cty(it, ins.dty), s.val(ins.a)))
                elif op == 'call' and not (isinstance(ins.callee, GRef) and ins.callee.name.startswith('@llvm.')):
                    args = ', '.join(s.val(a) for a in ins.args)
                    rty = 'void' if isinstance(ins.rty, VoidTy) else cty(it, ins.rty)
                    atys = ', '.join(cty(it, a.ty) for a in ins.args)
                    if isinstance(ins.callee, GRef):
                        cn = fname(ins.callee.name)
                        if ins.callee.name not in s.m.funcs or True: s.decls.add('%s %s(%s);' % (rty, cn, atys))
                        callee = cn
                    else:
                        callee = '((%s(*)(%s))%s)' % (rty, atys, s.val(ins.callee))
                    if ins.res: decl(ins.res, ins.rty); body.append('%s = %s(%s);' % (sname(ins.res), callee, args))
                    else: body.append('%s(%s);' % (callee, args))
                    zero = '' if isinstance(f.ret, VoidTy) else ' 0'
                    body.append('if (thr_abort()) return%s;' % zero)
                elif op == 'call':
                    n = ins.callee.name
                    if n.startswith('@llvm.floor'): decl(ins.res, FloatTy(64)); body.append('%s = floor(%s);' % (sname(ins.res), s.val(ins.args[0])))
                    elif n.startswith('@llvm.round'): decl(ins.res, FloatTy(64)); body.append('%s = round(%s);' % (sname(ins.res), s.val(ins.args[0])))
                    elif n.startswith('@llvm.lifetime'): pass
                    else: raise Exception('call ' + n)
                    continue
                elif False: pass
                elif op == 'br':
                    def edge(to):
                        asg = []
                        for l2 in s.m.funcs[name].blocks[to]:
                            i2 = parse_ins(l2)
                            if i2.op != 'phi': break
                            for v, l in i2.inc:
                                if l == lbl: asg.append('%s_n = %s;' % (sname(i2.res), s.val(v))); locs[sname(i2.res) + '_n'] = cty(it, i2.ty)
                        asg2 = [a.split('_n = ')[0] + ' = ' + a.split('_n = ')[0] + '_n;' for a in asg]
                        return '{ %s %s goto L_%s; }' % (' '.join(asg), ' '.join(asg2), re.sub(r'\W', '_', to[1:]))
                    if ins.cond is None: body.append(edge(ins.t))
                    else: body.append('if (%s) %s else %s' % (s.val(ins.cond), edge(ins.t), edge(ins.f)))
                elif op == 'ret':
                    body.append('return%s;' % ('' if ins.v is None else ' ' + s.val(ins.v)))
                else: raise Exception('op ' + op)
        params = ', '.join('%s %s' % (cty(it, ty), sname(pn)) for pn, ty in f.params)
        ret = 'void' if isinstance(f.ret, VoidTy) else cty(it, f.ret)
        s.out.append('%s %s(%s) {\n  %s\n  %s\n}\n' % (ret, fname(name), params, '\n  '.join('%s %s;' % (t, n) for n, t in locs.items()), '\n  '.join(body)))

if __name__ == '__main__':
    m = parse_module(open(sys.argv[1]).read()); t = T(m)
    for n in sys.argv[2:]:
        cands = [f for f in m.funcs if re.search(n, f)]
        t.func(cands[0]); print('/* %s -> %s */' % (cands[0], fname(cands[0])), file=sys.stderr)
    it = t.it
    print('#include <math.h>\n#include <stdlib.h>\nint thr_abort(void);\n')
    import os
    for spec in os.environ.get('LAYOUT','').split(';'):
        if not spec: continue
        tag, tyname, fields = spec.split('|')
        ty = NamedTy(tyname)
        print('#define SIZEOF_%s %d' % (tag, it.size(ty)))
        for k in fields.split(','):
            print('#define OFF_%s_%s %d' % (tag, k, it.field_off(ty, int(k))))
    print('\n'.join(sorted(t.decls)))
    print(''.join(t.out))
