#!/bin/bash
# Offline setup: verify the tools the checks need and byte-compile the engine. Builds nothing from /repo.
set -e
cd "$(dirname "$0")"
for t in clang++-14 g++ cbmc goto-cc python3-vt z3; do command -v $t >/dev/null || { echo "missing tool: $t"; exit 1; }; done
python3-vt - <<'PY'
import z3, sympy, sys
sys.path.insert(0, 'engine')
import llir, symx, models, smt, common, alg
print('engine imports ok; z3', z3.get_version_string())
PY
mkdir -p evidence replays
echo setup ok
