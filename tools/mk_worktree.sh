#!/bin/bash
# usage: mk_worktree.sh <dir>   -- scratch worktree of /repo HEAD with a configured + built _b directory (same options as /repo/_build)
set -e
D=$1
git -C /repo worktree add --detach "$D" HEAD >/dev/null 2>&1
cmake -G Ninja -S "$D" -B "$D/_b" -DCMAKE_BUILD_TYPE=RelWithDebInfo -DCMAKE_CXX_FLAGS=-Wno-error -DBUILD_TESTING=ON -DBUILD_XTP=OFF \
  -DENABLE_EXPERIMENTAL_TESTS=ON -DENABLE_REGRESSION_TESTING=ON -DENABLE_VALGRIND_TESTING=OFF -DBUILD_MANPAGES=OFF -DENABLE_WERROR=OFF -DINSTALL_CSGAPPS=OFF >/dev/null
ninja -C "$D/_b" -j${J:-16} 2>&1 | tail -1
