#!/usr/bin/env python3
# Markdown table of the seeded changes under /verif/seeded from their meta.json (last recorded check run).
import json, os, glob
rows = []
for d in sorted(glob.glob(os.path.join(os.path.dirname(os.path.dirname(os.path.abspath(__file__))), 'seeded', '*'))):
    m = json.load(open(os.path.join(d, 'meta.json')))
    runs = m.get('check_runs', []); last = runs[-1] if runs else {}
    conf = m.get('confirmed_by_me', {})
    first = next((r for r in runs if r.get('detected')), None)
    status = 'caught' if last.get('detected') else ('missed' if last.get('rc') == 0 else 'rc=%s' % last.get('rc'))
    line = next((l for l in (last.get('lines') or []) if l.startswith('VIOLATION')), '')
    what = line.split('#', 1)[1].strip()[:140] if '#' in line else ''
    rows.append('| %s | %s | %s | %s | %s |' % (os.path.basename(d), (m.get('summary') or '')[:150].replace('|', '/').replace('\n', ' '), 'yes' if conf.get('tests_pass') and conf.get('demo_with_change_rc') and conf.get('demo_pristine_rc') == 0 else 'n/a', status, what.replace('|', '/')))
print('| seed | change (author\'s summary) | confirmed (tests pass, demo fails with / passes without) | last check run | reported as |')
print('|---|---|---|---|---|')
print('\n'.join(rows))
