#!/usr/bin/env python3
# Confirm a seeded change in a scratch worktree (builds, existing tests pass, demo fails with / passes without),
# then run the corresponding check against that tree.  usage: seed_eval.py <mut_dir> <k> [--confirm-tree /tmp/confirm] [--skip-confirm]
import sys, os, json, subprocess, shutil, time, argparse
ap = argparse.ArgumentParser(); ap.add_argument('mutdir'); ap.add_argument('k'); ap.add_argument('--tree', default='/tmp/confirm'); ap.add_argument('--skip-confirm', action='store_true'); ap.add_argument('--tier', default='quick'); ap.add_argument('--as', dest='as_k', default=None); ap.add_argument('--check-only', action='store_true')
a = ap.parse_args()
src = os.path.join(a.mutdir, 'out', a.k); meta = json.load(open(os.path.join(src, 'meta.json'))); pid = meta['property']
T = a.tree; B = T + '/_b'
def sh(cmd, **kw):
    p = subprocess.run(cmd, shell=True, stdout=subprocess.PIPE, stderr=subprocess.STDOUT, text=True, **kw); return p.returncode, p.stdout
log = {'property': pid, 'k': a.k, 'summary': meta.get('summary'), 'needs': meta.get('needs')}
rc, out = sh('git -C %s status --porcelain --untracked-files=no' % T)
if out.strip(): print('tree not clean'); sys.exit(2)
rc, out = sh('git -C %s apply --check %s/patch.diff' % (T, src))
if rc != 0: print('patch does not apply to current tree:', out[-300:]); log['applies'] = False; json.dump(log, sys.stdout); sys.exit(3)
xtp_only = all(l.split(' b/')[-1].startswith('xtp/') for l in open(src + '/patch.diff') if l.startswith('diff --git'))
try:
    sh('git -C %s apply %s/patch.diff' % (T, src))
    if not a.skip_confirm:
        if not xtp_only:
            rc, out = sh('ninja -C %s -j10 2>&1 | tail -3' % B, timeout=3600); log['build_ok'] = 'FAILED' not in out and 'error' not in out.lower()
            rc, out = sh('ctest --test-dir %s -j8 --timeout 900 -E "^memory_test_" 2>&1 | tail -4' % B, timeout=3600); log['tests'] = out.strip().split('\n')[-3:] ; log['tests_pass'] = '100% tests passed' in out and 'out of 134' in out
        else:
            log['build_ok'] = 'xtp not built; compile checked by demo'; log['tests_pass'] = True; log['tests'] = 'xtp is not part of the built suite'
        rc, out = sh('bash %s/run_demo.sh %s %s' % (src, T, B), timeout=900); log['demo_with_change_rc'] = rc; log['demo_with_change_tail'] = out[-400:]
    t0 = time.time()
    env = dict(os.environ, VERIF_REPO=T, VERIF_EVIDENCE_DIR='/tmp/seed_evidence', VERIF_REPLAY_DIR='/tmp/seed_replays')
    p = subprocess.run(['/verif/check', pid, '--tier', a.tier], stdout=subprocess.PIPE, stderr=subprocess.STDOUT, text=True, env=env, timeout=7200)
    log['check_rc'] = p.returncode; log['check_s'] = round(time.time() - t0, 1)
    log['check_lines'] = [l[:400] for l in p.stdout.split('\n') if l.startswith(('VIOLATION', 'KNOWN', 'INCONCLUSIVE', 'ENCODER', 'HOLDS', pid))][:8]
    log['detected'] = p.returncode == 1 and any(l.startswith('VIOLATION property=%s ' % pid) for l in p.stdout.split('\n'))
finally:
    sh('git -C %s checkout -- .' % T)
if not a.skip_confirm:
    if not xtp_only: sh('ninja -C %s -j10 2>&1 | tail -1' % B, timeout=3600)
    rc, out = sh('bash %s/run_demo.sh %s %s' % (src, T, B), timeout=900); log['demo_pristine_rc'] = rc
    log['confirmed'] = bool(log.get('tests_pass')) and log.get('demo_with_change_rc', 0) != 0 and rc == 0
print(json.dumps(log, indent=1))
dst = '/verif/seeded/%s-%s' % (pid, a.as_k or a.k)
if a.skip_confirm or log.get('confirmed'):
    os.makedirs(dst, exist_ok=True)
    for f in ('patch.diff', 'demo.cc', 'run_demo.sh'): shutil.copy(os.path.join(src, f), dst)
    old = json.load(open(dst + '/meta.json')) if os.path.exists(dst + '/meta.json') else {}
    old.update({'property': pid, 'summary': meta.get('summary'), 'clause': meta.get('clause'), 'needs': meta.get('needs'), 'why_tests_pass': meta.get('why_tests_pass'), 'author_ran': meta.get('ran')})
    if not a.skip_confirm: old['confirmed_by_me'] = {k: log.get(k) for k in ('build_ok', 'tests_pass', 'tests', 'demo_with_change_rc', 'demo_pristine_rc')}
    old.setdefault('check_runs', []).append({'tier': a.tier, 'rc': log.get('check_rc'), 'detected': log.get('detected'), 'seconds': log.get('check_s'), 'lines': log.get('check_lines')})
    json.dump(old, open(dst + '/meta.json', 'w'), indent=1)
