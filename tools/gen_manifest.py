#!/usr/bin/env python3
# Regenerates /verif/MANIFEST.json from the table below and validates it against the schema.
import json, os, sys
V = os.path.dirname(os.path.dirname(os.path.abspath(__file__)))
CLAIMED = {
 'C02': dict(level='other', design='§5 C02', technique='symbolic execution of clang IR of the real box classes (own interpreter) + z3 over reals/integers; parallel per-image-vector lemma queries',
   text='For all real coordinates and all orthorhombic (L>0) / GROMACS-reduced triclinic boxes, z3 shows on the expressions the real OrthorhombicBox/TriclinicBox/OpenBox::BCShortestConnection compute: lattice equivalence, half-box (brick) bound, invariance under whole box vectors, antisymmetry, component-wise shortest (orthorhombic), and the pure-real lemma "brick => no image vector |n_i|<=1 (thorough 2) is shorter and below h_min/2"; BoxVolume=|det|, getShortestBoxDimension=min height, box-type auto-detection and explicit dispatch through Topology::setBox. Bounded symbolic checking, exact-real semantics; not a proof (image-vector range and solver timeouts are bounds).',
   note='doubles are modelled as exact reals (the property says "to rounding"); ties of round() excluded in invariance/antisymmetry; triclinic invariance shift |n_i|<=3 (quick) / 1000 (thorough); trusted: clang -O1 lowering, engine/llir.py+symx.py (validated each run bit-for-bit against a g++ build on the repo test boxes + random vectors), z3'),
 'C07': dict(level='other', design='§5 C07', technique='symbolic execution of clang IR + automatic differentiation of the value function\'s own expression + canonical-radical normal form; z3 decides residual != 0',
   text='For all bead geometries away from the singular set, the expression IBond/IAngle/IDihedral::Grad computes equals the derivative (AD over the executed IR) of what EvaluateVar computes, per bead and component, and the gradients sum to zero; for LJ126/LJG and the cubic B-spline, CalculateDF/D2F equal the parameter derivatives of CalculateF (inside and outside [min,cut]), D2F symmetric. Each identity is reduced to a polynomial residual and z3 is asked for a point where it is non-zero under the defining constraints of the radical/exp symbols; a model is replayed by finite differences on the g++ build.',
   note='exact real arithmetic; Topology::getDist is the environment boundary (independent symbols, chain rule +-1); sqrt/acos/exp as canonical symbols with defining relations; CBSPL knot layouts concrete (listed in evidence); spline derivative clause is decided under C12; SavePotTab and rotation/image invariance are outside this check'),
 'C12': dict(level='other', design='§5 C12', technique='symbolic execution of the real spline classes (symbolic ordinates / knots, forking on getInterval and Akima tie tests) + z3 on the per-path coefficient identities; Eigen QR replaced by its exact-solve contract',
   text='Linear spline (symbolic strictly increasing knots, n<=3), Akima (concrete uniform and non-uniform grids n=4,5, symbolic ordinates, all tie-branches of getSlope) and natural cubic spline (concrete grids n=3,4; system assembled by the real Interpolate, solved exactly): interpolation at knots from both sides, C0 (and C1 for Akima/cubic), CalculateDerivative = d/dr Calculate, straight-line data reproduced exactly with its slope, linear dependence on the ordinates (linear, cubic f\'\'), zero end curvature, non-singular system; periodic end conditions (two known findings); Table::Smooth keeps end points and straight lines.',
   note='exact reals with double literals that are nearest to a small rational read as that rational (1.0/6.0 etc.); Eigen HouseholderQR by contract (A x = b solved exactly, det != 0 obligation); Fit, csg_resample and large grids are outside; grids listed in the evidence are bounds'),
 'C13': dict(level='model_checking', engine='e1-cbmc', design='§5 C13', technique='IR->C translation of the real HistogramNew::Process + CBMC (bit-precise doubles/ints, bounds checks) for memory safety; symbolic execution + z3 (linear int/real) for bin semantics, normalisation and the legacy auto range',
   text='E1: for every finite v, scale, min<max, step>0 and nbins<=8 (thorough 64), periodic or not, CBMC shows every memory access of the translated real Process stays inside the nbins-double buffer (unwinding assertions on, reachability witness). E2: for nbins<=3 (thorough 5), all real min, listed range lengths, all real values/weights, each bin ends up with exactly the weights of the values whose nearest centre it is (wrapped modulo nbins when periodic, dropped otherwise), bins sum to the accepted weight, Normalize keeps ratios and makes sum*step=1, and the legacy Histogram automatic range is exactly [min,max] of the data for any sign.',
   note='allocation failure out of scope; out-of-range double->int64 conversion reported as UB-CLASS (not a violation); E2 in exact reals; legacy histogram only for n_=3, auto range, no scaling'),
 'C14': dict(level='other', design='§5 C14', technique='symbolic execution of the real Huffman-tree construction and lookup with symbolic rates (forking on priority-queue comparisons), exact interval measures decided by z3 per tree shape; Marcus rates via canonical exp/sqrt symbols',
   text='For n = 1..4 (thorough 5) events with arbitrary positive real rates and every heap ordering the real GNode/huffmanTree code can take, the set of p in [0,1] for which findHoppingDestination returns event e has total length exactly rate_e / sum(rates), every p selects a valid event, escape rate = sum of rates, also when the tree is rebuilt after adding events. Rate_Engine::Rate for all four carrier types: both rates positive, linear in J^2, exponents differ by (E1-E2+qF.R)/kT and prefactors coincide for equal reorganisation energies (detailed balance), zero reorganisation energy rejected. Promotetime(k)*k = -log(1-u).',
   note='exact reals; n<=5 events is a bound (the statement speaks of up to 100); field-term sign as in the code (see DESIGN); objects are raw storage with the fields the kernels read; RNG is a symbol'),
 'C18': dict(level='model_checking', engine='e1-cbmc', design='§5 C18', technique='IR->C translation of the real wildcmp + CBMC against a dynamic-programming glob matcher (bit-precise, all byte values); symbolic execution of the real RangeParser with placeholder tokens for the integers + z3',
   text='E1: for every pattern and string of length <= 5 (thorough 7) over the full 8-bit alphabet the real wildcmp returns exactly the glob verdict, and with exactly sized buffers (length <= 3, thorough 4) it never reads past a terminator; unwinding assertions on. E2: for begin/stride/end in [-3,3] (thorough [-6,6]) as solver integers and the forms a:s:b, a:b, a and two-block lists, every path of the real Parse/ParseBlock/iterator/operator<< is explored: accepted expressions terminate and enumerate exactly b, b+s, ... up to e in order, rejection happens only for stride 0 or wrong direction, every valid expression is accepted, printing and re-parsing gives the same sequence, more than three fields are rejected.',
   note='decimal digit conversion is abstracted by placeholder tokens (strtol / ostream<<long models); IndexParser and BeadList name: selection are not covered; lengths and integer window are bounds'),
 'C20': dict(level='other', design='§5 C20', technique='symbolic enum arguments through the real convert() switch tables (ite chains) + z3 over exact rationals; ground constant checks against CODATA values embedded in the checker',
   text='For all ordered pairs and triples of enumerators of every dimension (enum arguments are solver variables): convert(a,b)*convert(b,a)=1, convert(a,b)*convert(b,c)=convert(a,c), positivity, agreement with SI/CODATA-2018 magnitudes to 1e-4, derived units = quotient of base conversions to 2^-50; tools::conv constants vs CODATA and vs UnitConverter to 1e-4; CsgUnits are the documented internal units.',
   note='double literals taken as exact rationals; reference values live in props/C20.py; Elements tables outside; one known finding (kcal2kj) listed in known_findings.json'),
}
NA = {
}
PENDING_REASON = 'check not built yet in this round (planned in DESIGN.md §5; will be claimed when its quick check exists)'
def main():
    props = [json.loads(l) for l in open(os.path.join(V, 'properties.jsonl'))]
    checks = []; na = []
    for p in props:
        pid = p['id']
        if pid in CLAIMED:
            c = CLAIMED[pid]
            checks.append({'property_id': pid, 'quick_cmd': './check %s --tier quick' % pid, 'thorough_cmd': './check %s --tier thorough' % pid,
                           'evidence_file': 'evidence/%s.json' % pid, 'replay_cmd_template': './check %s --replay {path}' % pid, 'engine': c.get('engine', 'e2-symx'),
                           'level_claimed': {'category': c['level'], 'text': c['text'], 'design_ref': c['design']}, 'level_note': c['note'], 'technique': c['technique']})
        else:
            na.append({'property_id': pid, 'reason': NA.get(pid, PENDING_REASON)})
    m = {'version': 1,
         'setup_cmd': './setup.sh',
         'hooks': {'guard': 'VOTCA_VERIF', 'enable': 'none needed: harness TUs #include the repo .cc files and use #define private public; no source hooks', 'baseline_off_cmd': 'ctest --test-dir /repo/_build -j8 --timeout 900', 'source_commits': [], 'add_only': True},
         'engines': [{'name': 'e2-symx', 'path': 'engine/symx.py', 'serves_properties': sorted(k for k, c in CLAIMED.items() if c.get('engine', 'e2-symx') == 'e2-symx'), 'kind_free_text': 'own symbolic interpreter over clang-14 LLVM IR of the real functions + z3 (reals/ints), counterexamples replayed natively'},
                     {'name': 'e1-cbmc', 'path': 'engine/ir2c.py', 'serves_properties': sorted(k for k, c in CLAIMED.items() if c.get('engine') == 'e1-cbmc'), 'kind_free_text': 'clang IR -> C translator + CBMC 6.11 (bit-precise), validated against g++ build each run'}],
         'checks': checks, 'not_applicable': na,
         'notes': 'Solver-based checking of the real code; see DESIGN.md. Exit codes: 0 holds within bounds / known findings only; 1 VIOLATION (replayed); 2 INCONCLUSIVE (never counted as success); 3 encoder error.'}
    json.dump(m, open(os.path.join(V, 'MANIFEST.json'), 'w'), indent=1)
    try:
        import jsonschema
        jsonschema.validate(m, json.load(open('/root/.vp/MANIFEST.schema.json'))); print('MANIFEST.json valid,', len(checks), 'checks,', len(na), 'not_applicable')
    except ImportError: print('jsonschema not available; not validated')
if __name__ == '__main__': main()
