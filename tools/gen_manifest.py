#!/usr/bin/env python3
# Regenerates /verif/MANIFEST.json from the table below and validates it against the schema.
import json, os, sys
V = os.path.dirname(os.path.dirname(os.path.abspath(__file__)))
CLAIMED = {
 'C02': dict(level='other', design='§5 C02', technique='symbolic execution of clang IR of the real box classes (own interpreter) + z3 over reals/integers; parallel per-image-vector lemma queries',
   text='For all real coordinates and all orthorhombic (L>0) / GROMACS-reduced triclinic boxes, z3 shows on the expressions the real OrthorhombicBox/TriclinicBox/OpenBox::BCShortestConnection compute: lattice equivalence, half-box (brick) bound, invariance under whole box vectors, antisymmetry, component-wise shortest (orthorhombic), and the pure-real lemma "brick => no image vector |n_i|<=1 (thorough 2) is shorter and below h_min/2"; BoxVolume=|det|, getShortestBoxDimension=min height, box-type auto-detection and explicit dispatch through Topology::setBox. Bounded symbolic checking, exact-real semantics; not a proof (image-vector range and solver timeouts are bounds).',
   note='doubles are modelled as exact reals (the property says "to rounding"); ties of round() excluded in invariance/antisymmetry; triclinic invariance shift |n_i|<=3 (quick) / 1000 (thorough); trusted: clang -O1 lowering, engine/llir.py+symx.py (validated each run bit-for-bit against a g++ build on the repo test boxes + random vectors), z3'),
}
NA = {
}
PENDING_REASON = 'check not built yet in this round (planned in DESIGN.md §5; will be claimed when its quick check exists)'
def main():
    props = [json.loads(l) for l in open(os.path.join(V, 'properties.jsonl'))]
    checks = []; na = []
    for p in props:
        pid = p['id']
        if pid in CLAIMED:
            c = CLAIMED[pid]
            checks.append({'property_id': pid, 'quick_cmd': './check %s --tier quick' % pid, 'thorough_cmd': './check %s --tier thorough' % pid,
                           'evidence_file': 'evidence/%s.json' % pid, 'replay_cmd_template': './check %s --replay {path}' % pid, 'engine': c.get('engine', 'e2-symx'),
                           'level_claimed': {'category': c['level'], 'text': c['text'], 'design_ref': c['design']}, 'level_note': c['note'], 'technique': c['technique']})
        else:
            na.append({'property_id': pid, 'reason': NA.get(pid, PENDING_REASON)})
    m = {'version': 1,
         'setup_cmd': './setup.sh',
         'hooks': {'guard': 'VOTCA_VERIF', 'enable': 'none needed: harness TUs #include the repo .cc files and use #define private public; no source hooks', 'baseline_off_cmd': 'ctest --test-dir /repo/_build -j8 --timeout 900', 'source_commits': [], 'add_only': True},
         'engines': [{'name': 'e2-symx', 'path': 'engine/symx.py', 'serves_properties': sorted(k for k, c in CLAIMED.items() if c.get('engine', 'e2-symx') == 'e2-symx'), 'kind_free_text': 'own symbolic interpreter over clang-14 LLVM IR of the real functions + z3 (reals/ints), counterexamples replayed natively'},
                     {'name': 'e1-cbmc', 'path': 'engine/ir2c.py', 'serves_properties': sorted(k for k, c in CLAIMED.items() if c.get('engine') == 'e1-cbmc'), 'kind_free_text': 'clang IR -> C translator + CBMC 6.11 (bit-precise), validated against g++ build each run'}],
         'checks': checks, 'not_applicable': na,
         'notes': 'Solver-based checking of the real code; see DESIGN.md. Exit codes: 0 holds within bounds / known findings only; 1 VIOLATION (replayed); 2 INCONCLUSIVE (never counted as success); 3 encoder error.'}
    json.dump(m, open(os.path.join(V, 'MANIFEST.json'), 'w'), indent=1)
    try:
        import jsonschema
        jsonschema.validate(m, json.load(open('/root/.vp/MANIFEST.schema.json'))); print('MANIFEST.json valid,', len(checks), 'checks,', len(na), 'not_applicable')
    except ImportError: print('jsonschema not available; not validated')
if __name__ == '__main__': main()
