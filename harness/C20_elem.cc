// C20 harness (element data): the Elements tables are filled by the real Fill* routines and read back through the real
// std::map iteration; keys are returned as 8-byte fields (element symbols are at most 2 characters, full names are hashed
// to their first 15 characters in 16-byte fields).
#include <sstream>
#include <map>
#include <string>
#include <boost/algorithm/string.hpp>
#include <votca/tools/constants.h>
#define private public
#include <votca/tools/elements.h>
#undef private
#include "tools/src/libtools/elements.cc"
#include <cstring>
using namespace votca::tools;
#define H extern "C" __attribute__((noinline))
static void put(char* dst, const std::string& s, long w) { for (long i = 0; i < w; ++i) dst[i] = i < (long)s.size() ? s[i] : 0; }
H long h_dump_elenum(char* keys, long* vals) { Elements e; e.FillEleNum(); long k = 0; for (auto& p : e.EleNum_) { put(keys + 8 * k, p.first, 8); vals[k] = p.second; ++k; } return k; }
H long h_dump_nuccrg(char* keys, long* vals) { Elements e; e.FillNucCrg(); long k = 0; for (auto& p : e.NucCrg_) { put(keys + 8 * k, p.first, 8); vals[k] = p.second; ++k; } return k; }
H long h_dump_elename(long* keys, char* vals) { Elements e; e.FillEleName(); long k = 0; for (auto& p : e.EleName_) { keys[k] = p.first; put(vals + 8 * k, p.second, 8); ++k; } return k; }
H long h_dump_mass(char* keys, double* vals) { Elements e; e.FillMass(); long k = 0; for (auto& p : e.Mass_) { put(keys + 8 * k, p.first, 8); vals[k] = p.second; ++k; } return k; }
H long h_dump_elefull(char* keys, char* vals) { Elements e; e.FillEleFull(); long k = 0; for (auto& p : e.EleFull_) { put(keys + 8 * k, p.first, 8); put(vals + 16 * k, p.second, 16); ++k; } return k; }
H long h_dump_eleshort(char* keys, char* vals) { Elements e; e.FillEleShort(); long k = 0; for (auto& p : e.EleShort_) { put(keys + 16 * k, p.first, 16); put(vals + 8 * k, p.second, 8); ++k; } return k; }
// the public getters on one key (used for the symbolic-key lookups and for the native replay)
H long h_get_elenum(const char* s) { Elements e; try { return e.getEleNum(s); } catch (...) { return -1; } }
H long h_get_nuccrg(const char* s) { Elements e; try { return e.getNucCrg(s); } catch (...) { return -1; } }
H long h_get_elename(long z, char* out) { Elements e; try { std::string s = e.getEleName(z); put(out, s, 8); return (long)s.size(); } catch (...) { return -1; } }
H double h_get_covrad(const char* s, const char* unit) { Elements e; try { return e.getCovRad(s, unit); } catch (...) { return -1.0; } }
H double h_get_mass(const char* s) { Elements e; try { return e.getMass(s); } catch (...) { return -1.0; } }
#ifdef VERIF_NATIVE
#include <cstdio>
int main() {
  char cmd[32], key[32];
  while (scanf("%31s %31s", cmd, key) == 2) {
    if (!strcmp(cmd, "elenum")) printf("%ld\n", h_get_elenum(key));
    else if (!strcmp(cmd, "nuccrg")) printf("%ld\n", h_get_nuccrg(key));
    else if (!strcmp(cmd, "mass")) printf("%a\n", h_get_mass(key));
    else if (!strcmp(cmd, "covrad")) { char* c = strchr(key, ':'); if (c) { *c = 0; printf("%a %a\n", h_get_covrad(key, c + 1), h_get_covrad(key, "ang")); } else printf("?\n"); }
    else if (!strcmp(cmd, "elefull")) { Elements e; try { printf("%s\n", e.getEleFull(key).c_str()); } catch (...) { printf("?\n"); } }
    else if (!strcmp(cmd, "eleshort")) { Elements e; try { printf("%s\n", e.getEleShort(key).c_str()); } catch (...) { printf("?\n"); } }
    else if (!strcmp(cmd, "elename")) { char o[8] = {0}; long n = h_get_elename(atol(key), o); printf("%s\n", n < 0 ? "?" : o); }
  }
}
#endif
