// C12 harness: linear / Akima / cubic splines and Table::Smooth
#include <string>
#include <vector>
#include <stdexcept>
#include <Eigen/Dense>
#define private public
#define protected public
#include "tools/src/libtools/spline.cc"
#include "tools/src/libtools/linspline.cc"
#include "tools/src/libtools/akimaspline.cc"
#include "tools/src/libtools/linalg.cc"
#include "tools/src/libtools/cubicspline.cc"
#include "tools/src/libtools/table.cc"
#undef private
#undef protected
using namespace votca::tools;
#define H extern "C" __attribute__((noinline))
static Eigen::VectorXd vec(const double* p, long n) { Eigen::VectorXd v(n); for (long i = 0; i < n; i++) v(i) = p[i]; return v; }
// out[0] = Calculate(r), out[1] = CalculateDerivative(r); returns 0, or -1 if Interpolate throws
H long h_lin(const double* x, const double* y, long n, double r, double* out) {
  try { LinSpline s; s.Interpolate(vec(x, n), vec(y, n)); out[0] = s.Calculate(r); out[1] = s.CalculateDerivative(r); return 0; } catch (...) { return -1; }
}
H long h_akima(const double* x, const double* y, long n, long periodic, double r, double* out, double* slopes) {
  try {
    AkimaSpline s; s.setBC(periodic ? Spline::splinePeriodic : Spline::splineNormal);
    s.Interpolate(vec(x, n), vec(y, n)); out[0] = s.Calculate(r); out[1] = s.CalculateDerivative(r);
    for (long i = 0; i < n; i++) slopes[i] = s.t(i);
    return 0;
  } catch (...) { return -1; }
}
// Akima with its per-interval coefficients: coef[4*i+k] = p_k(i)
H long h_akima_coef(const double* x, const double* y, long n, long periodic, double r, double* out, double* slopes, double* coef) {
  try {
    AkimaSpline s; s.setBC(periodic ? Spline::splinePeriodic : Spline::splineNormal);
    s.Interpolate(vec(x, n), vec(y, n)); out[0] = s.Calculate(r); out[1] = s.CalculateDerivative(r);
    for (long i = 0; i < n; i++) slopes[i] = s.t(i);
    for (long i = 0; i < n - 1; i++) { coef[4 * i] = s.p0(i); coef[4 * i + 1] = s.p1(i); coef[4 * i + 2] = s.p2(i); coef[4 * i + 3] = s.p3(i); }
    return 0;
  } catch (...) { return -1; }
}
H long h_cubic(const double* x, const double* y, long n, long periodic, double r, double* out, double* f2) {
  try {
    CubicSpline s; s.setBC(periodic ? Spline::splinePeriodic : Spline::splineNormal);
    s.Interpolate(vec(x, n), vec(y, n)); out[0] = s.Calculate(r); out[1] = s.CalculateDerivative(r);
    for (long i = 0; i < n; i++) f2[i] = s.f2_(i);
    return 0;
  } catch (...) { return -1; }
}
// arbitrary spline state (knots, f, f'') -> value and derivative at r
H void h_cubic_state(const double* x, const double* f, const double* f2, long n, double r, double* out) {
  CubicSpline s; s.r_ = vec(x, n); s.f_ = vec(f, n); s.f2_ = vec(f2, n);
  out[0] = s.Calculate(r); out[1] = s.CalculateDerivative(r);
}
// the real Fit on a given grid; the constrained least-squares solver it calls is the environment boundary (intercepted by
// the interpreter: its arguments are captured, its result is a vector of fresh symbols).  Returns f_ and f2_ afterwards.
H long h_fit(const double* grid, long ngrid, const double* x, const double* y, long n, long periodic, double* f, double* f2) {
  try {
    CubicSpline s; s.setBC(periodic == 1 ? Spline::splinePeriodic : (periodic == 2 ? Spline::splineDerivativeZero : Spline::splineNormal));
    s.r_ = vec(grid, ngrid);
    s.Fit(vec(x, n), vec(y, n));
    for (long i = 0; i < ngrid; i++) { f[i] = s.f_(i); f2[i] = s.f2_(i); }
    return 0;
  } catch (...) { return -1; }
}
H void h_smooth(const double* y, long n, long nsmooth, double* out) {
  Table t; t.resize(n);
  for (long i = 0; i < n; i++) { t.x(i) = (double)i; t.y(i) = y[i]; }
  t.Smooth(nsmooth);
  for (long i = 0; i < n; i++) out[i] = t.y(i);
}
