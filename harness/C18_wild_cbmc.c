/* CBMC harness: real wildcmp (translated from IR: f_h_wildcmp) against a dynamic-programming glob matcher */
#include <stdlib.h>
#ifndef LP
#define LP 5
#endif
#ifndef LS
#define LS 5
#endif
void verif_init_globals(void);
unsigned int f_h_wildcmp(char* w, char* s);
char nondet_char(void); unsigned nondet_uint(void);
int main(void) {
  verif_init_globals();
  unsigned lp = nondet_uint(), ls = nondet_uint();
  __CPROVER_assume(lp <= LP && ls <= LS);
  /* exactly sized buffers: any read past the terminator is an out-of-bounds read for CBMC */
#ifdef EXACT_BUFFERS
  char* p = malloc(lp + 1); char* s = malloc(ls + 1); __CPROVER_assume(p != 0 && s != 0);
  for (unsigned i = 0; i < lp; i++) { p[i] = nondet_char(); __CPROVER_assume(p[i] != 0); } p[lp] = 0;
  for (unsigned i = 0; i < ls; i++) { s[i] = nondet_char(); __CPROVER_assume(s[i] != 0); } s[ls] = 0;
#else
  char p[LP + 1], s[LS + 1];
  for (int i = 0; i < LP + 1; i++) { p[i] = nondet_char(); if (i < (int)lp) __CPROVER_assume(p[i] != 0); } p[lp] = 0;
  for (int i = 0; i < LS + 1; i++) { s[i] = nondet_char(); if (i < (int)ls) __CPROVER_assume(s[i] != 0); } s[ls] = 0;
#endif
  _Bool m[LP + 2][LS + 2];
  for (int i = 0; i < LP + 2; i++) m[i][LS + 1] = 0;
  for (int j = 0; j < LS + 2; j++) m[LP + 1][j] = 0;
  for (int i = LP; i >= 0; i--) for (int j = LS; j >= 0; j--) {
    _Bool v;
    if (i > (int)lp || j > (int)ls) v = 0;
    else if (i == (int)lp) v = (j == (int)ls);
    else if (p[i] == '*') v = m[i + 1][j] || (j < (int)ls && m[i][j + 1]);
    else v = (j < (int)ls) && (p[i] == '?' || p[i] == s[j]) && m[i + 1][j + 1];
    m[i][j] = v;
  }
  unsigned int r = f_h_wildcmp(p, s);
  __CPROVER_assert((r != 0) == m[0][0], "wildcmp agrees with the reference glob matcher");
#ifdef WITNESS
  __CPROVER_assert(0, "WITNESS reachable");
#endif
  return 0;
}
