// C03 harness: the pair searches themselves (NBListGrid::Generate, NBList::Generate) on a real Topology with beads at
// arbitrary positions; exclusions derived from bonded interactions (ExclusionList::CreateExclusions)
#include <string>
#include <vector>
#include <list>
#include <map>
#include <memory>
#include <stdexcept>
#include <iostream>
#include <Eigen/Dense>
#define private public
#define protected public
#include <votca/csg/topology.h>
#include "csg/src/libcsg/boundarycondition.cc"
#include "csg/src/libcsg/orthorhombicbox.cc"
#include "csg/src/libcsg/triclinicbox.cc"
#include "csg/src/libcsg/openbox.cc"
#include "tools/src/libtools/property.cc"
#include "tools/src/libtools/tokenizer.cc"
#include "tools/src/libtools/rangeparser.cc"
#include "tools/src/libtools/colors.cc"
#include "csg/src/libcsg/molecule.cc"
#include "csg/src/libcsg/topology.cc"
#include "csg/src/libcsg/exclusionlist.cc"
// the glob matcher called from BeadList::Generate goes through a non-inlined forwarding hook, so that its call sites survive -O1
// inlining and the selection clause can take the matcher by contract (it is decided bit-precisely in C18/E1)
namespace votca { namespace tools { __attribute__((noinline)) int verif_wildcmp_hook(const std::string& w, const std::string& s) { return wildcmp(w, s); } } }
#define wildcmp verif_wildcmp_hook
#include "csg/src/libcsg/beadlist.cc"
#undef wildcmp
#include "csg/src/libcsg/nblist.cc"
#include "csg/src/libcsg/nblistgrid.cc"
#include "csg/src/libcsg/nblist_3body.cc"
#undef private
#undef protected
using namespace votca::csg;
#define H extern "C" __attribute__((noinline))

// n beads of one type at pos (3n), box row-major 9 values, cutoff; grid != 0: cell-grid search, else simple search.
// mols[i]: molecule of bead i; excl != 0: beads of the same molecule are mutually excluded and the search honours exclusions.
// Output per pair k: ids[2k], ids[2k+1]; rs[4k..4k+2] = stored connection vector, rs[4k+3] = stored distance.  Returns #pairs (-1 threw).
// sc[4*(i*n+j)..]: the topology's own shortest connection pos_i -> pos_j and its norm for i<j (what the property calls the minimum-image vector; decided in C02)
H long h_pairs(long grid, long n, const double* pos, const double* box, double cutoff, const long* mols, long excl, long* ids, double* rs, long cap, double* sc) {
  try {
    Topology top;
    Eigen::Matrix3d m; for (int i = 0; i < 3; i++) for (int j = 0; j < 3; j++) m(i, j) = box[3 * i + j];
    top.setBox(m);
    top.CreateResidue("RES"); top.RegisterBeadType("A");
    for (long i = 0; i < n; i++) {
      Bead* b = top.CreateBead(Bead::spherical, "A", "A", 0, 1.0, 0.0);
      b->setPos(Eigen::Vector3d(pos[3 * i], pos[3 * i + 1], pos[3 * i + 2]));
      b->setMoleculeId(mols[i]);
    }
    if (excl) {
      for (long a = 0; a < n; a++) {
        std::list<Bead*> l;
        for (long i = 0; i < n; i++) if (mols[i] == mols[a]) l.push_back(top.getBead(i));
        top.getExclusions().ExcludeList(l);
      }
    }
    BeadList bl; bl.Generate(top, "*");
    std::unique_ptr<NBList> nb(grid ? (NBList*)new NBListGrid() : new NBList());
    nb->setCutoff(cutoff);
    nb->Generate(bl, excl != 0);
    for (long i = 0; i < n; i++) for (long j = i + 1; j < n; j++) {
      Eigen::Vector3d v = top.BCShortestConnection(top.getBead(i)->getPos(), top.getBead(j)->getPos());
      for (int c = 0; c < 3; c++) sc[4 * (i * n + j) + c] = v[c];
      sc[4 * (i * n + j) + 3] = v.norm();
    }
    long k = 0;
    for (BeadPair* p : *nb) {
      if (k < cap) { ids[2 * k] = p->first()->getId(); ids[2 * k + 1] = p->second()->getId(); for (int c = 0; c < 3; c++) rs[4 * k + c] = p->r()[c]; rs[4 * k + 3] = p->dist(); }
      k++;
    }
    return k;
  } catch (...) { return -1; }
}

// three-body search on n beads with one-letter types (types[i]); variant: 1 = one list (type t1), 2 = two lists (t1; t2),
// 3 = three separately generated lists (t1; t2; t3) -- which may hold the same beads when type names coincide.
// triples out: ids[3k..3k+2] = (centre, second, third); sc[4*(i*n+j)] = shortest connection pos_i -> pos_j and norm, all ordered i != j
H long h_triples(long n, const double* pos, const double* box, double cutoff, const long* types, long variant, long t1, long t2, long t3, long* ids, long cap, double* sc) {
  try {
    Topology top;
    Eigen::Matrix3d m; for (int i = 0; i < 3; i++) for (int j = 0; j < 3; j++) m(i, j) = box[3 * i + j];
    top.setBox(m);
    top.CreateResidue("RES");
    for (long i = 0; i < n; i++) {
      std::string ty(1, (char)types[i]);
      if (!top.BeadTypeExist(ty)) top.RegisterBeadType(ty);
      Bead* b = top.CreateBead(Bead::spherical, ty, ty, 0, 1.0, 0.0);
      b->setPos(Eigen::Vector3d(pos[3 * i], pos[3 * i + 1], pos[3 * i + 2]));
      b->setMoleculeId(i);
    }
    BeadList l1, l2, l3;
    l1.Generate(top, std::string(1, (char)t1)); l2.Generate(top, std::string(1, (char)t2)); l3.Generate(top, std::string(1, (char)t3));
    NBList_3Body nb; nb.setCutoff(cutoff);
    if (variant == 1) nb.Generate(l1, false); else if (variant == 2) nb.Generate(l1, l2, false); else nb.Generate(l1, l2, l3, false);
    for (long i = 0; i < n; i++) for (long j = 0; j < n; j++) if (i != j) {
      Eigen::Vector3d v = top.BCShortestConnection(top.getBead(i)->getPos(), top.getBead(j)->getPos());
      for (int c = 0; c < 3; c++) sc[4 * (i * n + j) + c] = v[c];
      sc[4 * (i * n + j) + 3] = v.norm();
    }
    long k = 0;
    for (BeadTriple* t : nb) { if (k < cap) { ids[3 * k] = t->bead1()->getId(); ids[3 * k + 1] = t->bead2()->getId(); ids[3 * k + 2] = t->bead3()->getId(); } k++; }
    return k;
  } catch (...) { return -1; }
}

// bead selection (C18): two beads with the given one-letter types; names are built by the topology ("<mol>:<res>:<name>" style is
// whatever Bead::getName returns: here the plain name given at creation).  select: the selection string.  sel[i] = bead i selected.
H long h_select(const char* select, const long* types, const char* name0, const char* name1, long* sel) {
  try {
    Topology top; top.CreateResidue("RES");
    const char* names[2] = {name0, name1};
    for (long i = 0; i < 2; i++) {
      std::string ty(1, (char)types[i]);
      if (!top.BeadTypeExist(ty)) top.RegisterBeadType(ty);
      top.CreateBead(Bead::spherical, names[i], ty, 0, 1.0, 0.0);
    }
    BeadList bl; bl.Generate(top, select);
    sel[0] = 0; sel[1] = 0;
    for (Bead* b : bl) sel[b->getId()] += 1;
    return (long)bl.size();
  } catch (...) { return -1; }
}

// exclusions from bonded interactions: 4 beads in one molecule (a 5th in another); interactions: an angle (a,b,c) and a bond (d,e),
// handed to CreateExclusions in the order given by angle_first; out[5*i+j] = IsExcluded(i,j)
H long h_create_excl(long a, long b, long c, long d, long e, long angle_first, long* out) {
  try {
    Topology top;
    top.CreateResidue("RES"); top.RegisterBeadType("A");
    for (long i = 0; i < 5; i++) { Bead* bd = top.CreateBead(Bead::spherical, "A", "A", 0, 1.0, 0.0); bd->setMoleculeId(i < 4 ? 0 : 1); }
    IAngle* ang = new IAngle(a, b, c); ang->setGroup("ang"); ang->setIndex(0); ang->setMolecule(0);
    IBond* bond = new IBond(d, e); bond->setGroup("bond"); bond->setIndex(0); bond->setMolecule(0);
    if (angle_first) { top.AddBondedInteraction(ang); top.AddBondedInteraction(bond); }
    else { top.AddBondedInteraction(bond); top.AddBondedInteraction(ang); }
    top.getExclusions().CreateExclusions(&top);
    for (long i = 0; i < 5; i++) for (long j = 0; j < 5; j++) out[5 * i + j] = top.getExclusions().IsExcluded(top.getBead(i), top.getBead(j)) ? 1 : 0;
    return 0;
  } catch (...) { return -1; }
}
#ifdef VERIF_NATIVE
#include <cstdio>
#include <cstring>
int main(int argc, char** argv) {
  if (!strcmp(argv[1], "pairs")) {
    int a = 2; long grid = atol(argv[a++]), n = atol(argv[a++]), excl = atol(argv[a++]); double cutoff = atof(argv[a++]);
    double box[9], pos[30]; long mols[10];
    for (int i = 0; i < 9; i++) box[i] = atof(argv[a++]);
    for (long i = 0; i < 3 * n; i++) pos[i] = atof(argv[a++]);
    for (long i = 0; i < n; i++) mols[i] = atol(argv[a++]);
    long ids[64]; double rs[128], sc[400];
    long k = h_pairs(grid, n, pos, box, cutoff, mols, excl, ids, rs, 32, sc);
    printf("RESULT %ld", k);
    for (long i = 0; i < k && i < 32; i++) printf(" %ld %ld %.12g %.12g %.12g %.12g", ids[2 * i], ids[2 * i + 1], rs[4 * i], rs[4 * i + 1], rs[4 * i + 2], rs[4 * i + 3]);
    printf("\n"); return 0;
  }
  if (!strcmp(argv[1], "triples")) {
    int a = 2; long n = atol(argv[a++]), variant = atol(argv[a++]), t1 = atol(argv[a++]), t2 = atol(argv[a++]), t3 = atol(argv[a++]); double cutoff = atof(argv[a++]);
    double box[9], pos[30], sc[400]; long types[10], ids[96];
    for (int i = 0; i < 9; i++) box[i] = atof(argv[a++]);
    for (long i = 0; i < 3 * n; i++) pos[i] = atof(argv[a++]);
    for (long i = 0; i < n; i++) types[i] = atol(argv[a++]);
    long k = h_triples(n, pos, box, cutoff, types, variant, t1, t2, t3, ids, 32, sc);
    printf("RESULT %ld", k); for (long i = 0; i < 3 * k && i < 96; i++) printf(" %ld", ids[i]); printf("\n"); return 0;
  }
  if (!strcmp(argv[1], "select")) {
    long types[2] = {atol(argv[3]), atol(argv[4])}, sel[2] = {0, 0};
    long k = h_select(argv[2], types, argv[5], argv[6], sel); printf("RESULT %ld %ld %ld\n", k, sel[0], sel[1]); return 0;
  }
  if (!strcmp(argv[1], "excl")) {
    long out[25]; long rc = h_create_excl(atol(argv[2]), atol(argv[3]), atol(argv[4]), atol(argv[5]), atol(argv[6]), atol(argv[7]), out);
    printf("RESULT %ld", rc); for (int i = 0; i < 25; i++) printf(" %ld", out[i]); printf("\n"); return 0;
  }
  return 2;
}
#endif
