// C15 harness: classical multipole pair interaction (eeInteractor) on raw site objects
#include <string>
#include <vector>
#include <cstring>
#include <sstream>
#include <complex>
#include <iostream>
#include <fstream>
#include <map>
#include <Eigen/Dense>
#define private public
#define protected public
#include "xtp/src/libxtp/eeinteractor.cc"
#ifndef VERIF_NO_CART
#include "xtp/src/libxtp/staticsite.cc"
#endif
#undef private
#undef protected
using namespace votca::xtp;
#define H extern "C" __attribute__((noinline))
static void mkstatic(char* buf, const double* pos, const double* Q, long rank) {
  StaticSite* s = reinterpret_cast<StaticSite*>(buf);
  s->pos_ = Eigen::Vector3d(pos[0], pos[1], pos[2]); s->rank_ = rank;
  for (int i = 0; i < 9; i++) s->Q_(i) = Q[i];
}
H double h_energy(const double* posA, const double* QA, long rankA, const double* posB, const double* QB, long rankB) {
  alignas(16) static char a[sizeof(PolarSite)], b[sizeof(PolarSite)], e[sizeof(eeInteractor)];
  std::memset(a, 0, sizeof a); std::memset(b, 0, sizeof b); std::memset(e, 0, sizeof e);
  mkstatic(a, posA, QA, rankA); mkstatic(b, posB, QB, rankB);
  return reinterpret_cast<eeInteractor*>(e)->CalcStaticEnergy_site(*reinterpret_cast<StaticSite*>(a), *reinterpret_cast<StaticSite*>(b));
}
// field accumulated on polar site 2 by static site 1 (and the pair energy): out[0..2] = V, out[3] = e
H void h_field(const double* pos1, const double* Q1, long rank1, const double* pos2, const double* Q2, long rank2, double* out) {
  alignas(16) static char a[sizeof(PolarSite)], b[sizeof(PolarSite)], e[sizeof(eeInteractor)];
  std::memset(a, 0, sizeof a); std::memset(b, 0, sizeof b); std::memset(e, 0, sizeof e);
  mkstatic(a, pos1, Q1, rank1); mkstatic(b, pos2, Q2, rank2);
  PolarSite* p2 = reinterpret_cast<PolarSite*>(b);
  out[3] = reinterpret_cast<eeInteractor*>(e)->ApplyStaticField_site<Estatic::V>(*reinterpret_cast<StaticSite*>(a), *p2);
  for (int i = 0; i < 3; i++) out[i] = p2->V_(i);
}
H void h_thole(const double* posA, const double* posB, double dampA, double dampB, double expdamping, double* out) {
  alignas(16) static char a[sizeof(PolarSite)], b[sizeof(PolarSite)], e[sizeof(eeInteractor)];
  std::memset(a, 0, sizeof a); std::memset(b, 0, sizeof b); std::memset(e, 0, sizeof e);
  double Q0[9] = {0};
  mkstatic(a, posA, Q0, 0); mkstatic(b, posB, Q0, 0);
  reinterpret_cast<PolarSite*>(a)->eigendamp_invsqrt_ = dampA; reinterpret_cast<PolarSite*>(b)->eigendamp_invsqrt_ = dampB;
  reinterpret_cast<eeInteractor*>(e)->expdamping_ = expdamping;
  Eigen::Matrix3d t = reinterpret_cast<eeInteractor*>(e)->FillTholeInteraction(*reinterpret_cast<PolarSite*>(a), *reinterpret_cast<PolarSite*>(b));
  for (int i = 0; i < 3; i++) for (int j = 0; j < 3; j++) out[3 * i + j] = t(i, j);
}
#ifndef VERIF_NO_CART
// both sites rotated about the origin by the real StaticSite::Rotate (positions and moments), then the pair energy
H double h_energy_rot(const double* posA, const double* QA, long rankA, const double* posB, const double* QB, long rankB, const double* R) {
  alignas(16) static char a[sizeof(PolarSite)], b[sizeof(PolarSite)], e[sizeof(eeInteractor)];
  std::memset(a, 0, sizeof a); std::memset(b, 0, sizeof b); std::memset(e, 0, sizeof e);
  mkstatic(a, posA, QA, rankA); mkstatic(b, posB, QB, rankB);
  Eigen::Matrix3d Rm; for (int i = 0; i < 3; i++) for (int j = 0; j < 3; j++) Rm(i, j) = R[3 * i + j];
  reinterpret_cast<StaticSite*>(a)->StaticSite::Rotate(Rm, Eigen::Vector3d::Zero()); reinterpret_cast<StaticSite*>(b)->StaticSite::Rotate(Rm, Eigen::Vector3d::Zero());
  return reinterpret_cast<eeInteractor*>(e)->CalcStaticEnergy_site(*reinterpret_cast<StaticSite*>(a), *reinterpret_cast<StaticSite*>(b));
}
// the library's own spherical -> Cartesian (traceless) quadrupole conversion
H void h_cart(const double* Q, long rank, double* out) {
  alignas(16) static char a[sizeof(PolarSite)]; std::memset(a, 0, sizeof a);
  double p[3] = {0, 0, 0}; mkstatic(a, p, Q, rank);
  Eigen::Matrix3d t = reinterpret_cast<StaticSite*>(a)->CalculateCartesianMultipole();
  for (int i = 0; i < 3; i++) for (int j = 0; j < 3; j++) out[3 * i + j] = t(i, j);
}
#endif
