// C16 harness: the graph algorithms themselves (structure id, breadth-first distances, components, reduce/expand,
// single-network detection) on a graph whose vertex labels are the harness arguments
#include <string>
#include <vector>
#include <iostream>
#include <sstream>
#include <algorithm>
#include <cassert>
#include <set>
#include <unordered_map>
#define private public
#define protected public
#include "tools/src/libtools/edge.cc"
#include "tools/src/libtools/reducededge.cc"
#include "tools/src/libtools/edgecontainer.cc"
#include "tools/src/libtools/graphnode.cc"
#include "tools/src/libtools/graph.cc"
#include "tools/src/libtools/graphvisitor.cc"
#include "tools/src/libtools/graph_bf_visitor.cc"
#include "tools/src/libtools/graph_df_visitor.cc"
#include "tools/src/libtools/graphdistvisitor.cc"
#include "tools/src/libtools/reducedgraph.cc"
#include "tools/src/libtools/graphalgorithm.cc"
#undef private
#undef protected
using namespace votca::tools;
using votca::Index;
#define H extern "C" __attribute__((noinline))

// ids[n]: vertex labels; kinds[n]: one-letter node content ('A','B',...); e[2m]: edges as pairs of vertex slots;
// order[n]: the slot order in which nodes are inserted; eorder[m]: the order in which edges are handed over
static Graph build(const long* ids, long n, const long* kinds, const long* e, long m, const long* order, const long* eorder) {
  std::unordered_map<Index, GraphNode> nodes;
  for (long k = 0; k < n; k++) {
    long i = order[k];
    GraphNode gn;
    std::unordered_map<std::string, std::string> sv;
    sv["name"] = std::string(1, (char)kinds[i]);
    gn.setStr(sv);
    nodes[ids[i]] = gn;
  }
  std::vector<Edge> edges;
  for (long k = 0; k < m; k++) { long j = eorder[k]; edges.push_back(Edge(ids[e[2 * j]], ids[e[2 * j + 1]])); }
  return Graph(edges, nodes);
}

// structure id through the distance visitor; returns its length, bytes in out
H long h_structid(const long* ids, long n, const long* kinds, const long* e, long m, const long* order, const long* eorder, char* out, long cap) {
  Graph g = build(ids, n, kinds, e, m, order, eorder);
  std::string s = findStructureId<GraphDistVisitor>(g);
  long L = (long)s.size();
  for (long i = 0; i < L && i < cap; i++) out[i] = s[i];
  return L;
}

// breadth-first distance labelling from slot s: dist[i] = hop count of vertex slot i, -1 if not reached
H void h_dist(const long* ids, long n, const long* kinds, const long* e, long m, const long* order, const long* eorder, long s, long* dist) {
  Graph g = build(ids, n, kinds, e, m, order, eorder);
  GraphDistVisitor gv;
  gv.setStartingVertex(ids[s]);
  exploreGraph(g, gv);
  std::set<Index> ex = gv.getExploredVertices();
  for (long i = 0; i < n; i++) {
    if (!ex.count(ids[i])) { dist[i] = -1; continue; }
    GraphNode gn = g.getNode(ids[i]);
    dist[i] = gn.getInt("Dist");
  }
}

// the same graph labelled twice: first from slot s1, then (on the graph that now carries the first labelling) from slot s2;
// dist = the second labelling
H void h_relabel(const long* ids, long n, const long* kinds, const long* e, long m, const long* order, const long* eorder, long s1, long s2, long* dist) {
  Graph g = build(ids, n, kinds, e, m, order, eorder);
  { GraphDistVisitor gv; gv.setStartingVertex(ids[s1]); exploreGraph(g, gv); }
  GraphDistVisitor gv2; gv2.setStartingVertex(ids[s2]); exploreGraph(g, gv2);
  std::set<Index> ex = gv2.getExploredVertices();
  for (long i = 0; i < n; i++) {
    if (!ex.count(ids[i])) { dist[i] = -1; continue; }
    GraphNode gn = g.getNode(ids[i]);
    dist[i] = gn.getInt("Dist");
  }
}

// components: comp[i] = index of the sub graph holding vertex slot i (-1 none, -2 more than one); ecomp[j] likewise for edge j;
// returns the number of sub graphs; extra[0] = total vertices over all parts, extra[1] = total edges over all parts
H long h_decouple(const long* ids, long n, const long* kinds, const long* e, long m, const long* order, const long* eorder, long* comp, long* ecomp, long* extra) {
  Graph g = build(ids, n, kinds, e, m, order, eorder);
  std::vector<Graph> parts = decoupleIsolatedSubGraphs(g);
  for (long i = 0; i < n; i++) comp[i] = -1;
  for (long j = 0; j < m; j++) ecomp[j] = -1;
  extra[0] = 0; extra[1] = 0;
  for (size_t p = 0; p < parts.size(); p++) {
    std::vector<Index> vs = parts[p].getVertices();
    extra[0] += (long)vs.size();
    for (long i = 0; i < n; i++)
      for (Index v : vs) if (v == ids[i]) comp[i] = (comp[i] == -1) ? (long)p : -2;
    std::vector<Edge> es = parts[p].getEdges();
    extra[1] += (long)es.size();
    for (long j = 0; j < m; j++) {
      Edge ref(ids[e[2 * j]], ids[e[2 * j + 1]]);
      for (const Edge& ed : es) if (ed == ref) { ecomp[j] = (ecomp[j] == -1) ? (long)p : -2; break; }
    }
  }
  return (long)parts.size();
}

// reduce to junction-to-junction chains and expand again: vcount[i] = how often vertex slot i occurs among the expanded
// graph's vertices, ecount[j] = how often edge j occurs among its edges; returns #edges of the expanded graph; extra[0] = #vertices,
// extra[1] = #reduced edges
H long h_reduce_expand(const long* ids, long n, const long* kinds, const long* e, long m, const long* order, const long* eorder, long* vcount, long* ecount, long* extra) {
  Graph g = build(ids, n, kinds, e, m, order, eorder);
  ReducedGraph rg = reduceGraph(g);
  Graph ex = rg.expandGraph();
  std::vector<Index> vs = ex.getVertices();
  std::vector<Edge> es = ex.getEdges();
  for (long i = 0; i < n; i++) { vcount[i] = 0; for (Index v : vs) if (v == ids[i]) vcount[i]++; }
  for (long j = 0; j < m; j++) { Edge ref(ids[e[2 * j]], ids[e[2 * j + 1]]); ecount[j] = 0; for (const Edge& ed : es) if (ed == ref) ecount[j]++; }
  extra[0] = (long)vs.size(); extra[1] = (long)rg.getEdges().size();
  return (long)es.size();
}

// single-network detection started at slot s, with the breadth-first visitor
H long h_single(const long* ids, long n, const long* kinds, const long* e, long m, const long* order, const long* eorder, long s) {
  Graph g = build(ids, n, kinds, e, m, order, eorder);
  Graph_BF_Visitor gv;
  gv.setStartingVertex(ids[s]);
  return singleNetwork(g, gv) ? 1 : 0;
}


// everything except the structure id in one call (one graph construction per operation, shared symbolic decisions):
// out layout: dist[n*n] (start s, vertex i) | parts, vtot, etot, comp[n], ecomp[m] | exp_edges, exp_vertices, red_edges, vcount[n], ecount[m] | single[n] | relabel[n]
// starts: bit s set = distances / single-network detection are computed from start slot s (other rows are filled with -9)
H void h_all(const long* ids, long n, const long* kinds, const long* e, long m, const long* order, const long* eorder, long starts, long* out) {
  long* p = out;
  for (long s = 0; s < n; s++) { if ((starts >> s) & 1) h_dist(ids, n, kinds, e, m, order, eorder, s, p); else for (long i = 0; i < n; i++) p[i] = -9; p += n; }
  { long x[2]; long k = h_decouple(ids, n, kinds, e, m, order, eorder, p + 3, p + 3 + n, x); p[0] = k; p[1] = x[0]; p[2] = x[1]; p += 3 + n + m; }
  { long x[2]; long k = h_reduce_expand(ids, n, kinds, e, m, order, eorder, p + 3, p + 3 + n, x); p[0] = k; p[1] = x[0]; p[2] = x[1]; p += 3 + n + m; }
  for (long s = 0; s < n; s++) *p++ = ((starts >> s) & 1) ? h_single(ids, n, kinds, e, m, order, eorder, s) : -9;
  h_relabel(ids, n, kinds, e, m, order, eorder, 0, n - 1, p);
}

#ifdef VERIF_NATIVE
#include <cstdio>
#include <cstring>
#include <cstdlib>
// usage: prog <op> n ids... kinds... m e... order... eorder... [s]
int main(int argc, char** argv) {
  int a = 2; long n = atol(argv[a++]); long ids[16], kinds[16], e[64], order[16], eorder[32];
  for (long i = 0; i < n; i++) ids[i] = atol(argv[a++]);
  for (long i = 0; i < n; i++) kinds[i] = atol(argv[a++]);
  long m = atol(argv[a++]);
  for (long i = 0; i < 2 * m; i++) e[i] = atol(argv[a++]);
  for (long i = 0; i < n; i++) order[i] = atol(argv[a++]);
  for (long i = 0; i < m; i++) eorder[i] = atol(argv[a++]);
  long s = a < argc ? atol(argv[a++]) : 0;
  std::string op = argv[1];
  try {
    if (op == "structid") { char out[512]; long L = h_structid(ids, n, kinds, e, m, order, eorder, out, 512); printf("%ld %.*s\n", L, (int)L, out); }
    else if (op == "dist") { long d[16]; h_dist(ids, n, kinds, e, m, order, eorder, s, d); for (long i = 0; i < n; i++) printf("%ld ", d[i]); printf("\n"); }
    else if (op == "decouple") { long c[16], ec[32], x[2]; long k = h_decouple(ids, n, kinds, e, m, order, eorder, c, ec, x); printf("%ld %ld %ld", k, x[0], x[1]); for (long i = 0; i < n; i++) printf(" %ld", c[i]); for (long j = 0; j < m; j++) printf(" %ld", ec[j]); printf("\n"); }
    else if (op == "reduce") { long vc[16], ec[32], x[2]; long k = h_reduce_expand(ids, n, kinds, e, m, order, eorder, vc, ec, x); printf("%ld %ld %ld", k, x[0], x[1]); for (long i = 0; i < n; i++) printf(" %ld", vc[i]); for (long j = 0; j < m; j++) printf(" %ld", ec[j]); printf("\n"); }
    else if (op == "single") { printf("%ld\n", h_single(ids, n, kinds, e, m, order, eorder, s)); }
    else if (op == "all") { long o[512]; h_all(ids, n, kinds, e, m, order, eorder, s ? s : -1, o); long tot = n * n + 2 * (3 + n + m) + 2 * n; for (long i = 0; i < tot; i++) printf("%ld ", o[i]); printf("\n"); }
    else return 2;
  } catch (std::exception& ex) { printf("EXC %s\n", ex.what()); }
  return 0;
}
#endif
