// C08 harness: trajectory frames through the real writers and readers (.gro, LAMMPS dump), files by model
#include <string>
#include <vector>
#include <memory>
#include <stdexcept>
#include <fstream>
#include <iostream>
#include <Eigen/Dense>
#define private public
#define protected public
#include <votca/csg/topology.h>
#include "csg/src/libcsg/boundarycondition.cc"
#include "csg/src/libcsg/orthorhombicbox.cc"
#include "csg/src/libcsg/triclinicbox.cc"
#include "csg/src/libcsg/openbox.cc"
#include "tools/src/libtools/property.cc"
#include "tools/src/libtools/tokenizer.cc"
#include "tools/src/libtools/rangeparser.cc"
#include "tools/src/libtools/colors.cc"
#include "csg/src/libcsg/molecule.cc"
#include "csg/src/libcsg/topology.cc"
#include "csg/src/libcsg/exclusionlist.cc"
#include "csg/src/libcsg/modules/io/growriter.cc"
#include "csg/src/libcsg/modules/io/groreader.cc"
#include "csg/src/libcsg/modules/io/lammpsdumpwriter.cc"
#include "csg/src/libcsg/modules/io/lammpsdumpreader.cc"
#undef private
#undef protected
using namespace votca::csg;
#define H extern "C" __attribute__((noinline))

// box: 9 values, row-major m(i,j) = box[3*i+j]
static void fill(Topology& t, long n, const double* pos, const double* vel, const double* frc, const double* box, long flags, long step) {
  t.CreateResidue("RES");
  t.RegisterBeadType("A");
  t.SetHasVel((flags & 2) != 0);
  t.SetHasForce((flags & 4) != 0);
  for (long i = 0; i < n; i++) {
    Bead* b = t.CreateBead(Bead::spherical, "A", "A", 0, 1.0, 0.0);
    b->setPos(Eigen::Vector3d(pos[3 * i], pos[3 * i + 1], pos[3 * i + 2]));
    if (flags & 2) b->setVel(Eigen::Vector3d(vel[3 * i], vel[3 * i + 1], vel[3 * i + 2]));
    if (flags & 4) b->setF(Eigen::Vector3d(frc[3 * i], frc[3 * i + 1], frc[3 * i + 2]));
  }
  Eigen::Matrix3d m;
  for (int i = 0; i < 3; i++) for (int j = 0; j < 3; j++) m(i, j) = box[3 * i + j];
  t.setBox(m);
  t.setStep(step);
}
static void dump(Topology& t, long n, double* opos, double* ovel, double* ofrc, double* obox, long* ometa) {
  for (long i = 0; i < n && i < t.BeadCount(); i++) {
    Bead* b = t.getBead(i);
    for (int k = 0; k < 3; k++) opos[3 * i + k] = b->getPos()[k];
    if (b->HasVel()) for (int k = 0; k < 3; k++) ovel[3 * i + k] = b->getVel()[k];
    if (b->HasF()) for (int k = 0; k < 3; k++) ofrc[3 * i + k] = b->getF()[k];
    ometa[2 + i] = (b->HasVel() ? 2 : 0) | (b->HasF() ? 4 : 0);
  }
  Eigen::Matrix3d m = t.getBox();
  for (int i = 0; i < 3; i++) for (int j = 0; j < 3; j++) obox[3 * i + j] = m(i, j);
  ometa[0] = t.getStep(); ometa[1] = t.BeadCount();
}
static const double ZERO[64] = {0};
static const double UNITBOX[9] = {1, 0, 0, 0, 1, 0, 0, 0, 1};

// format 0 = .gro, 1 = LAMMPS dump.  nframes frames (the same beads, positions shifted by the frame number in x) are written,
// then read back into a topology with nread beads.  Outputs of the LAST frame read; returns the number of frames read, -1 if
// the reader threw, -2 if the writer threw.
H long h_traj_rt(long format, long n, const double* pos, const double* vel, const double* frc, const double* box, long flags, long step, long nframes,
                 long nread, long flags2, double* opos, double* ovel, double* ofrc, double* obox, long* ometa) {
  try {
    // frames after the first are written with the presence flags flags2 (a trajectory whose column layout changes)
    Topology a; fill(a, n, pos, vel, frc, box, flags | flags2, step);
    auto layout = [&](long fl) { a.SetHasVel((fl & 2) != 0); a.SetHasForce((fl & 4) != 0); };
    if (format == 0) { GROWriter w; w.Open("t.gro", false); for (long f = 0; f < nframes; f++) { a.setStep(step + f); layout(f == 0 ? flags : flags2); w.Write(&a); } w.Close(); }
    else { LAMMPSDumpWriter w; w.Open("t.dump", false); for (long f = 0; f < nframes; f++) { a.setStep(step + f); layout(f == 0 ? flags : flags2); w.Write(&a); } w.Close(); }
  } catch (...) { return -2; }
  try {
    Topology b; fill(b, nread, ZERO, ZERO, ZERO, UNITBOX, 0, -7);
    long frames = 0;
    if (format == 0) {
      GROReader r; r.Open("t.gro");
      bool more = r.FirstFrame(b); frames++;
      while (more && frames < nframes + 2) { more = r.NextFrame(b); if (more) frames++; }
      r.Close();
    } else {
      LAMMPSDumpReader r; r.Open("t.dump");
      bool more = r.FirstFrame(b); frames++;
      while (more && frames < nframes + 2) { more = r.NextFrame(b); if (more) frames++; }
      r.Close();
    }
    dump(b, nread, opos, ovel, ofrc, obox, ometa);
    return frames;
  } catch (...) { return -1; }
}
#ifdef VERIF_NATIVE
#include <cstdio>
#include <cstring>
#include <unistd.h>
// usage: prog format n flags step nframes nread flags2  then 9 box values, then n*3 pos, n*3 vel, n*3 frc
int main(int argc, char** argv) {
  char tmpl[] = "/tmp/verif-c08t-XXXXXX"; if (!mkdtemp(tmpl) || chdir(tmpl)) return 3;
  int a = 1; long format = atol(argv[a++]), n = atol(argv[a++]), flags = atol(argv[a++]), step = atol(argv[a++]), nframes = atol(argv[a++]), nread = atol(argv[a++]), flags2 = atol(argv[a++]);
  double box[9], pos[48], vel[48], frc[48];
  for (int i = 0; i < 9; i++) box[i] = atof(argv[a++]);
  for (long i = 0; i < 3 * n; i++) pos[i] = atof(argv[a++]);
  for (long i = 0; i < 3 * n; i++) vel[i] = atof(argv[a++]);
  for (long i = 0; i < 3 * n; i++) frc[i] = atof(argv[a++]);
  double op[48] = {0}, ov[48] = {0}, of[48] = {0}, ob[9] = {0}; long om[20] = {0};
  long k = h_traj_rt(format, n, pos, vel, frc, box, flags, step, nframes, nread, flags2, op, ov, of, ob, om);
  printf("RESULT %ld %ld %ld", k, om[0], om[1]);
  for (int i = 0; i < 9; i++) printf(" %.10g", ob[i]);
  for (long i = 0; i < 3 * nread; i++) printf(" %.10g", op[i]);
  for (long i = 0; i < 3 * nread; i++) printf(" %.10g", ov[i]);
  for (long i = 0; i < 3 * nread; i++) printf(" %.10g", of[i]);
  printf("\n");
  std::string cmd = std::string("rm -rf ") + tmpl; if (system(cmd.c_str())) {}
  return 0;
}
#endif
