// C02 harness: extern "C" wrappers around the real box classes and Topology box dispatch.
#include <Eigen/Dense>
#include <memory>
#include <vector>
#define private public
#define protected public
#include "csg/src/libcsg/boundarycondition.cc"
#include "csg/src/libcsg/orthorhombicbox.cc"
#include "csg/src/libcsg/triclinicbox.cc"
#include "csg/src/libcsg/openbox.cc"
#include "csg/src/libcsg/topology.cc"
#include "csg/src/libcsg/exclusionlist.cc"
#undef private
#undef protected
using namespace votca::csg;
#define H extern "C" __attribute__((noinline))
static Eigen::Matrix3d mk(const double* bx) { Eigen::Matrix3d m; for (int i = 0; i < 3; i++) for (int j = 0; j < 3; j++) m(i, j) = bx[3 * j + i]; return m; }
static Eigen::Vector3d v3(const double* r) { return Eigen::Vector3d(r[0], r[1], r[2]); }

H void h_ortho(const double* bx, const double* ri, const double* rj, double* out) {
  OrthorhombicBox b; b.setBox(mk(bx));
  Eigen::Vector3d r = b.BCShortestConnection(v3(ri), v3(rj));
  for (int i = 0; i < 3; i++) out[i] = r[i];
}
H void h_tric(const double* bx, const double* ri, const double* rj, double* out) {
  TriclinicBox b; b.setBox(mk(bx));
  Eigen::Vector3d r = b.BCShortestConnection(v3(ri), v3(rj));
  for (int i = 0; i < 3; i++) out[i] = r[i];
}
H void h_open(const double* bx, const double* ri, const double* rj, double* out) {
  OpenBox b; b.setBox(mk(bx));
  Eigen::Vector3d r = b.BCShortestConnection(v3(ri), v3(rj));
  for (int i = 0; i < 3; i++) out[i] = r[i];
}
H double h_volume(const double* bx) { TriclinicBox b; b.setBox(mk(bx)); return b.BoxVolume(); }
H double h_shortest(const double* bx) { TriclinicBox b; b.setBox(mk(bx)); return b.getShortestBoxDimension(); }
// Topology dispatch: setBox(box, type) then report the type of the installed boundary and its connection.
H long h_topbox(const double* bx, long boxtype, const double* ri, const double* rj, double* out) {
  Topology top;
  top.setBox(mk(bx), static_cast<BoundaryCondition::eBoxtype>(boxtype));
  Eigen::Vector3d r = top.BCShortestConnection(v3(ri), v3(rj));
  for (int i = 0; i < 3; i++) out[i] = r[i];
  out[3] = top.BoxVolume();
  return static_cast<long>(top.getBoxType());
}

#ifdef VERIF_NATIVE
#include <cstdio>
#include <cstring>
int main() {
  char cmd[32]; double bx[9], ri[3], rj[3], out[4];
  while (scanf("%31s", cmd) == 1) {
    for (int i = 0; i < 9; i++) scanf("%la", &bx[i]);
    if (!strcmp(cmd, "vol")) { printf("%a\n", h_volume(bx)); continue; }
    if (!strcmp(cmd, "short")) { printf("%a\n", h_shortest(bx)); continue; }
    long ty = 0; if (!strcmp(cmd, "top")) scanf("%ld", &ty);
    for (int i = 0; i < 3; i++) scanf("%la", &ri[i]);
    for (int i = 0; i < 3; i++) scanf("%la", &rj[i]);
    if (!strcmp(cmd, "ortho")) h_ortho(bx, ri, rj, out);
    else if (!strcmp(cmd, "tric")) h_tric(bx, ri, rj, out);
    else if (!strcmp(cmd, "open")) h_open(bx, ri, rj, out);
    else { long t = h_topbox(bx, ty, ri, rj, out); printf("%ld %a ", t, out[3]); }
    printf("%a %a %a\n", out[0], out[1], out[2]);
  }
  return 0;
}
#endif
