// Native replay for C05 counterexamples: the real Worker::Run/ProcessData on real threads, with the interleaving forced by
// making tools::Mutex::Lock wait for the thread's turn in the solver's schedule (every transaction starts with a Lock).
#include "C05_app.cc"
#include <thread>
#include <mutex>
#include <condition_variable>
#include <map>
#include <chrono>
#include <cstdio>
#include <cstdlib>
static std::mutex G; static std::condition_variable CV;
static std::map<const void*, bool> LOCKED;
static std::vector<int> SCHED; static size_t POS = 0; static bool TIMEOUT = false;
static thread_local int TID = -1;
static long AVAIL, NEXTNO = 1; static long FRAME_OF[8]; static std::vector<long> EVAL, MERGE;
namespace votca { namespace tools {
Mutex::Mutex() {} Mutex::~Mutex() {}
void Mutex::Lock() {
  std::unique_lock<std::mutex> lk(G);
  auto ok = [&] { return !LOCKED[this] && (TID < 0 || POS >= SCHED.size() || SCHED[POS] == TID); };
  if (!CV.wait_for(lk, std::chrono::seconds(3), ok)) { TIMEOUT = true; CV.notify_all(); throw 1; }
  LOCKED[this] = true; if (TID >= 0 && POS < SCHED.size()) POS++;
  CV.notify_all();
}
void Mutex::Unlock() { std::unique_lock<std::mutex> lk(G); LOCKED[this] = false; CV.notify_all(); }
Thread::Thread() {} Thread::~Thread() {}
}}
extern "C" bool verif_next_frame(long w) { std::unique_lock<std::mutex> lk(G); if (AVAIL > 0) { AVAIL--; FRAME_OF[w] = NEXTNO++; return true; } return false; }
extern "C" void verif_eval(long w) { std::unique_lock<std::mutex> lk(G); EVAL.push_back(FRAME_OF[w]); }
extern "C" void verif_merge(long w) { std::unique_lock<std::mutex> lk(G); MERGE.push_back(FRAME_OF[w]); }
int main(int argc, char** argv) {
  long T = atol(argv[1]), sync = atol(argv[2]), nf0 = atol(argv[3]); AVAIL = atol(argv[4]);
  for (int i = 5; i < argc; i++) { int t = atoi(argv[i]); if (t >= 0 && t < T) SCHED.push_back(t); }
  for (int t = 0; t < 8; t++) FRAME_OF[t] = t == 0 ? 0 : -1;
  void* app = h_setup(T, sync, nf0, 0);
  if (sync) for (long t = 0; t < T; t++) { LOCKED[h_mutex_addr(app, 1, t)] = t != 0; LOCKED[h_mutex_addr(app, 2, t)] = t != 0; }
  std::vector<std::thread> th;
  for (long t = 0; t < T; t++) th.emplace_back([=] { TID = (int)t; try { h_worker_run(app, t); } catch (int) {} });
  for (auto& x : th) x.join();
  printf("%s eval:", TIMEOUT ? "DEADLOCK" : "done"); for (long f : EVAL) printf(" %ld", f);
  printf(" merge:"); for (long f : MERGE) printf(" %ld", f); printf("\n");
  fflush(stdout); _exit(0);
}
