// C04 harness: csg_stat averaging kernels (Imc::MergeWorker, ClearAverages, DoCorrelations) on a raw Imc object
#include <string>
#include <vector>
#include <map>
#include <list>
#include <memory>
#include <cstring>
#include <sstream>
#include <complex>
#include <iostream>
#include <fstream>
#include <boost/program_options.hpp>
#include <Eigen/Dense>
#define private public
#define protected public
#include "tools/src/libtools/table.cc"
#include "tools/src/libtools/histogramnew.cc"
#include "csg/src/tools/csg_stat_imc.cc"
#undef private
#undef protected
using namespace votca::csg;
#define H extern "C" __attribute__((noinline))
alignas(16) static char imc_buf[sizeof(Imc)];
alignas(16) static char wrk_buf[sizeof(Imc::Worker)];
// raw Imc with one non-bonded interaction of nbins bins; only the fields the averaging kernels use are initialised
H void* h_imc_setup(long nbins, long block_length, long do_imc) {
  std::memset(imc_buf, 0, sizeof imc_buf);
  Imc* imc = reinterpret_cast<Imc*>(imc_buf);
  new (&imc->interactions_) std::map<std::string, std::unique_ptr<Imc::interaction_t>>();
  new (&imc->groups_) std::map<std::string, std::unique_ptr<Imc::group_t>>();
  new (&imc->extension_) std::string("new");
  imc->block_length_ = block_length; imc->do_imc_ = do_imc != 0; imc->nframes_ = 0; imc->nblock_ = 0;
  auto i = std::make_unique<Imc::interaction_t>();
  i->index_ = 0; i->force_ = false; i->is_bonded_ = false; i->threebody_ = false; i->norm_ = 1.0; i->min_ = 0; i->max_ = (double)(nbins - 1); i->step_ = 1.0;
  i->average_.Initialize(0.0, (double)(nbins - 1), nbins);
  Imc::interaction_t* ip = i.get();
  imc->interactions_["A-A"] = std::move(i);
  if (do_imc) {
    auto g = std::make_unique<Imc::group_t>();
    g->interactions_.push_back(ip);
    g->corr_ = Imc::group_matrix::Zero(nbins, nbins);
    g->pairs_.push_back(Imc::pair_t(ip, ip, 0, 0, g->corr_.block(0, 0, nbins, nbins)));
    imc->groups_["g"] = std::move(g);
  }
  return imc;
}
// one frame: histogram of this frame and its box volume
H void h_imc_merge(void* imcv, const double* hist, long nbins, double vol) {
  Imc* imc = reinterpret_cast<Imc*>(imcv);
  std::memset(wrk_buf, 0, sizeof wrk_buf);
  Imc::Worker* w = reinterpret_cast<Imc::Worker*>(wrk_buf);
#ifdef VERIF_NATIVE
  { static Imc::Worker* proto = new Imc::Worker(); std::memcpy(wrk_buf, proto, sizeof(void*)); }   // a valid vptr for the real dynamic_cast
#endif
  new (&w->current_hists_) std::vector<votca::tools::HistogramNew>(1);
  new (&w->current_hists_force_) std::vector<votca::tools::HistogramNew>();
  w->current_hists_[0].Initialize(0.0, (double)(nbins - 1), nbins);
  for (long k = 0; k < nbins; k++) w->current_hists_[0].data().y(k) = hist[k];
  w->cur_vol_ = vol; w->imc_ = imc;
  imc->MergeWorker(w);
}
H void h_imc_get(void* imcv, long nbins, double* avg, double* scal, double* corr) {
  Imc* imc = reinterpret_cast<Imc*>(imcv);
  Imc::interaction_t* i = imc->interactions_.begin()->second.get();
  for (long k = 0; k < nbins; k++) avg[k] = i->average_.data().y(k);
  scal[0] = imc->avg_vol_.getAvg(); scal[1] = (double)imc->nframes_; scal[2] = (double)imc->nblock_;
  if (imc->do_imc_) { Imc::group_t* g = imc->groups_.begin()->second.get(); for (long a = 0; a < nbins; a++) for (long b = 0; b < nbins; b++) corr[a * nbins + b] = g->corr_(a, b); }
}
H void h_imc_clear(void* imcv) { reinterpret_cast<Imc*>(imcv)->ClearAverages(); }
// ---- WriteDist normalisation: the table handed to Table::Save is captured by the checker through these accessors ----
H void h_imc_state(void* imcv, const double* avg, long nbins, long is_bonded, double norm, double step, double xmin, double vol) {
  Imc* imc = reinterpret_cast<Imc*>(imcv);
  Imc::interaction_t* i = imc->interactions_.begin()->second.get();
  for (long k = 0; k < nbins; k++) { i->average_.data().y(k) = avg[k]; i->average_.data().x(k) = xmin + (double)k * step; }
  i->is_bonded_ = is_bonded != 0; i->norm_ = norm; i->step_ = step; i->threebody_ = false; i->force_ = false;
  imc->avg_vol_.Clear(); imc->avg_vol_.Process(vol);
}
// ---- which neighbour search csg_stat runs for a non-bonded interaction (Imc::Worker::DoNonbonded): the option tree is four
// harness-held values (name, type1..3; Property::get / exists are redirected here by the checker), BeadList::Generate and the
// NBList*::Generate overloads are recording stubs ----
alignas(16) static char prop_buf[5][sizeof(votca::tools::Property)];
static votca::tools::Property* g_nbprop[1];
extern "C" __attribute__((noinline)) votca::tools::Property* h_prop_get(const std::string* key) {
  int k = (*key == "name") ? 1 : (*key == "type1") ? 2 : (*key == "type2") ? 3 : (*key == "type3") ? 4 : 0;
  return reinterpret_cast<votca::tools::Property*>(prop_buf[k]);
}
extern "C" __attribute__((noinline)) void h_noop(void*) {}
H void h_imc_donb(void* imcv, long threebody, char t1, char t2, char t3, void* top) {
  Imc* imc = reinterpret_cast<Imc*>(imcv);
  std::memset(prop_buf, 0, sizeof prop_buf);
  for (int k = 0; k < 5; k++) new (&reinterpret_cast<votca::tools::Property*>(prop_buf[k])->value_) std::string();
  reinterpret_cast<votca::tools::Property*>(prop_buf[1])->value_ = "A-A";
  reinterpret_cast<votca::tools::Property*>(prop_buf[2])->value_ = std::string(1, t1);
  reinterpret_cast<votca::tools::Property*>(prop_buf[3])->value_ = std::string(1, t2);
  reinterpret_cast<votca::tools::Property*>(prop_buf[4])->value_ = std::string(1, t3);
  new (&imc->nonbonded_) std::vector<votca::tools::Property*>();
  imc->nonbonded_.push_back(reinterpret_cast<votca::tools::Property*>(prop_buf[0]));
  Imc::interaction_t* i = imc->interactions_.begin()->second.get();
  i->threebody_ = threebody != 0; i->cut_ = 0.5; i->force_ = false;
  std::memset(wrk_buf, 0, sizeof wrk_buf);
  Imc::Worker* w = reinterpret_cast<Imc::Worker*>(wrk_buf);
  new (&w->current_hists_) std::vector<votca::tools::HistogramNew>(1);
  new (&w->current_hists_force_) std::vector<votca::tools::HistogramNew>(1);
  w->current_hists_[0].Initialize(0.0, 3.0, 4); w->current_hists_force_[0].Initialize(0.0, 3.0, 4);
  w->imc_ = imc;
  w->Imc::Worker::DoNonbonded(reinterpret_cast<Topology*>(top));
}
// per-frame reset of the bonded histogram: Imc::Worker::DoBonded from an arbitrary worker histogram, with an empty interaction
// group (Topology::InteractionsInGroup is a stub returning no interaction; what EvaluateVar returns is C07)
H void h_imc_dobonded(void* imcv, const double* h0, const double* hf0, long nbins, void* top, double* out, double* outf) {
  Imc* imc = reinterpret_cast<Imc*>(imcv);
  std::memset(prop_buf, 0, sizeof prop_buf);
  for (int k = 0; k < 5; k++) new (&reinterpret_cast<votca::tools::Property*>(prop_buf[k])->value_) std::string();
  reinterpret_cast<votca::tools::Property*>(prop_buf[1])->value_ = "A-A";
  new (&imc->bonded_) std::vector<votca::tools::Property*>();
  imc->bonded_.push_back(reinterpret_cast<votca::tools::Property*>(prop_buf[0]));
  std::memset(wrk_buf, 0, sizeof wrk_buf);
  Imc::Worker* w = reinterpret_cast<Imc::Worker*>(wrk_buf);
  new (&w->current_hists_) std::vector<votca::tools::HistogramNew>(1);
  new (&w->current_hists_force_) std::vector<votca::tools::HistogramNew>(1);
  w->current_hists_[0].Initialize(0.0, (double)(nbins - 1), nbins); w->current_hists_force_[0].Initialize(0.0, (double)(nbins - 1), nbins);
  for (long k = 0; k < nbins; k++) { w->current_hists_[0].data().y(k) = h0[k]; w->current_hists_force_[0].data().y(k) = hf0[k]; }
  w->imc_ = imc;
  w->Imc::Worker::DoBonded(reinterpret_cast<Topology*>(top));
  for (long k = 0; k < nbins; k++) { out[k] = w->current_hists_[0].data().y(k); outf[k] = w->current_hists_force_[0].data().y(k); }
}
H void h_imc_writedist(void* imcv) { reinterpret_cast<Imc*>(imcv)->WriteDist(std::string("s")); }
H long h_table_size(const votca::tools::Table* t) { return (long)t->size(); }
H double h_table_x(const votca::tools::Table* t, long i) { return t->x(i); }
H double h_table_y(const votca::tools::Table* t, long i) { return t->y(i); }
