// C08 harness: text round trips of the library's own writers and readers (IMC matrix, IMC index, table), files by model
#include <string>
#include <vector>
#include <list>
#include <iostream>
#include <sstream>
#include <fstream>
#include <stdexcept>
#include <Eigen/Dense>
#define private public
#define protected public
#include "tools/src/libtools/table.cc"
#include "tools/src/libtools/rangeparser.cc"
#include "tools/src/libtools/tokenizer.cc"
#include "csg/src/libcsg/imcio.cc"
#undef private
#undef protected
using namespace votca::tools;
using namespace votca::csg;
#define H extern "C" __attribute__((noinline))

// write a rows x cols matrix (row-major values in vals) with imcio_write_matrix, read it back with imcio_read_matrix;
// returns rows*1000+cols of the matrix read (-1: threw); entries row-major in out
H long h_matrix_rt(const double* vals, long rows, long cols, double* out) {
  try {
    Eigen::MatrixXd M(rows, cols);
    for (long i = 0; i < rows; i++) for (long j = 0; j < cols; j++) M(i, j) = vals[i * cols + j];
    imcio_write_matrix("m.gmc", M, nullptr);
    Eigen::MatrixXd R = imcio_read_matrix("m.gmc");
    for (long i = 0; i < R.rows(); i++) for (long j = 0; j < R.cols(); j++) out[i * R.cols() + j] = R(i, j);
    return R.rows() * 1000 + R.cols();
  } catch (...) { return -1; }
}
// the sub-matrix variant (index list): rows/cols picked by the list, in list order
H long h_matrix_list_rt(const double* vals, long n, const long* pick, long k, double* out) {
  try {
    Eigen::MatrixXd M(n, n);
    for (long i = 0; i < n; i++) for (long j = 0; j < n; j++) M(i, j) = vals[i * n + j];
    std::list<votca::Index> l(pick, pick + k);
    imcio_write_matrix("s.gmc", M, &l);
    Eigen::MatrixXd R = imcio_read_matrix("s.gmc");
    for (long i = 0; i < R.rows(); i++) for (long j = 0; j < R.cols(); j++) out[i * R.cols() + j] = R(i, j);
    return R.rows() * 1000 + R.cols();
  } catch (...) { return -1; }
}
// index file: two named ranges [b0:e0] and [b1:e1] written with imcio_write_index and read back; the members of each range
// read back are enumerated into out (cap per range), counts in cnt; returns the number of ranges read (-1: threw)
H long h_index_rt(long b0, long e0, long b1, long e1, long* out, long* cnt, char* names, long cap) {
  try {
    std::vector<std::pair<std::string, RangeParser> > rs;
    RangeParser r0; r0.Add(b0, e0); rs.push_back(std::make_pair(std::string("A-A"), r0));
    RangeParser r1; r1.Add(b1, e1); rs.push_back(std::make_pair(std::string("B-B"), r1));
    imcio_write_index("x.idx", rs);
    std::vector<std::pair<std::string, RangeParser> > back = imcio_read_index("x.idx");
    for (size_t k = 0; k < back.size() && k < 2; k++) {
      long c = 0;
      for (votca::Index v : back[k].second) { if (c < cap) out[k * cap + c] = v; c++; if (c > cap) break; }
      cnt[k] = c;
      for (size_t q = 0; q < 3; q++) names[k * 4 + q] = q < back[k].first.size() ? back[k].first[q] : 0;
      names[k * 4 + 3] = (char)back[k].first.size();
    }
    return (long)back.size();
  } catch (...) { return -1; }
}
// table through files: Save then Load
H long h_table_file_rt(const double* xs, const double* ys, const double* es, const char* fl, long n, long has_yerr, double* oxs, double* oys, char* ofl, long cap) {
  try {
    Table t; t.SetHasYErr(has_yerr != 0); t.resize(n);
    for (long k = 0; k < n; k++) { if (has_yerr) t.set(k, xs[k], ys[k], fl[k], es[k]); else t.set(k, xs[k], ys[k], fl[k]); }
    t.Save("t.tab");
    Table r; r.Load("t.tab");
    long m = r.size();
    for (long k = 0; k < m && k < cap; k++) { oxs[k] = r.x(k); oys[k] = r.y(k); ofl[k] = r.flags(k); }
    return m;
  } catch (...) { return -1; }
}
#ifdef VERIF_NATIVE
#include <cstdio>
#include <cstring>
#include <unistd.h>
int main(int argc, char** argv) {
  char tmpl[] = "/tmp/verif-c08-XXXXXX"; if (!mkdtemp(tmpl) || chdir(tmpl)) return 3;
  int rc = 0;
  if (!strcmp(argv[1], "matrix")) {
    long r = atol(argv[2]), c = atol(argv[3]); double v[64], o[64];
    for (long i = 0; i < r * c; i++) v[i] = atof(argv[4 + i]);
    long k = h_matrix_rt(v, r, c, o); printf("%ld", k);
    if (k >= 0) for (long i = 0; i < (k / 1000) * (k % 1000); i++) printf(" %.17g", o[i]);
    printf("\n");
  } else if (!strcmp(argv[1], "index")) {
    long out[64], cnt[2] = {0, 0}; char names[8];
    long k = h_index_rt(atol(argv[2]), atol(argv[3]), atol(argv[4]), atol(argv[5]), out, cnt, names, 32);
    printf("%ld", k);
    for (long q = 0; q < k && q < 2; q++) { printf(" | %.3s %ld :", names + 4 * q, cnt[q]); for (long i = 0; i < cnt[q] && i < 32; i++) printf(" %ld", out[q * 32 + i]); }
    printf("\n");
  } else rc = 2;
  std::string cmd = std::string("rm -rf ") + tmpl; if (system(cmd.c_str())) {}
  return rc;
}
#endif
