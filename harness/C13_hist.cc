// C13 harness: HistogramNew::Process / Normalize / Initialize_ and the legacy Histogram::ProcessData.
#include <string>
#include <vector>
#include <Eigen/Dense>
#define private public
#define protected public
#include "tools/src/libtools/table.cc"
#include "tools/src/libtools/histogramnew.cc"
#include "tools/src/libtools/histogram.cc"
#undef private
#undef protected
using namespace votca::tools;
#define H extern "C" __attribute__((noinline))
H void h_process(HistogramNew* h, double v, double scale) { h->Process(v, scale); }
H void h_normalize(HistogramNew* h) { h->Normalize(); }
H long h_sizeof() { return (long)sizeof(HistogramNew); }
// E2 (concrete nbins): the real Initialize followed by k Process calls; returns pointer-free summaries
H void h_init_process(double mn, double mx, long nbins, long periodic, const double* vals, const double* w, long nvals, double* ybins, double* xbins, double* step) {
  HistogramNew h; h.setPeriodic(periodic != 0); h.Initialize(mn, mx, nbins);
  for (long i = 0; i < nvals; i++) h.Process(vals[i], w[i]);
  for (long i = 0; i < nbins; i++) { ybins[i] = h.data().y(i); xbins[i] = h.data().x(i); }
  *step = h.getStep();
}
H void h_init_norm(double mn, double mx, long nbins, const double* y0, double* ybins, double* step) {
  HistogramNew h; h.Initialize(mn, mx, nbins);
  for (long i = 0; i < nbins; i++) h.data().y(i) = y0[i];
  h.Normalize();
  for (long i = 0; i < nbins; i++) ybins[i] = h.data().y(i);
  *step = h.getStep();
}
// legacy Histogram: one selection with one array of nvals values; options given explicitly
H void h_legacy(const double* vals, long nvals, long n, long auto_interval, long periodic, double omin, double omax, long normalize, long scale_kind, double* pdf, double* minmax) {
  DataCollection<double>::array arr("a");
  for (long i = 0; i < nvals; i++) arr.push_back(vals[i]);
  DataCollection<double>::selection sel; sel.push_back(&arr);
  Histogram::options_t op; op.n_ = n; op.auto_interval_ = auto_interval != 0; op.periodic_ = periodic != 0; op.min_ = omin; op.max_ = omax; op.normalize_ = normalize != 0;
  op.scale_ = scale_kind == 1 ? "bond" : (scale_kind == 2 ? "angle" : "no");
  Histogram h(op);
  h.ProcessData(&sel);
  for (long i = 0; i < n; i++) pdf[i] = h.getPdf()[i];
  minmax[0] = h.getMin(); minmax[1] = h.getMax(); minmax[2] = h.getInterval();
}
// legacy Histogram::Normalize from an arbitrary state (bins, interval)
H void h_legacy_norm(const double* pdf, long n, double interval, double* out) {
  Histogram h;
  h.pdf_.assign(pdf, pdf + n); h.interval_ = interval;
  h.Normalize();
  for (long i = 0; i < n; i++) out[i] = h.pdf_[i];
}

#ifdef VERIF_LAYOUT
#include <cstdio>
#include <cstddef>
int main() {
  printf("#define SIZEOF_HN %zu\n", sizeof(HistogramNew));
  printf("#define OFF_min %zu\n#define OFF_max %zu\n#define OFF_step %zu\n#define OFF_periodic %zu\n#define OFF_nbins %zu\n",
         offsetof(HistogramNew, min_), offsetof(HistogramNew, max_), offsetof(HistogramNew, step_), offsetof(HistogramNew, periodic_), offsetof(HistogramNew, nbins_));
  // Eigen::VectorXd storage = { double* m_data; Index m_rows; }
  printf("#define OFF_ydata %zu\n#define OFF_yrows %zu\n", offsetof(HistogramNew, data_) + offsetof(Table, y_), offsetof(HistogramNew, data_) + offsetof(Table, y_) + sizeof(double*));
  return 0;
}
#endif
#ifdef VERIF_NATIVE
#include <cstdio>
#include <cstring>
// validation driver: "proc min max nbins periodic v scale y0..y(n-1)" -> prints bins after one Process on a state built by the real Initialize
int main() {
  char cmd[16];
  while (scanf("%15s", cmd) == 1) {
    double mn, mx, v, sc; long n, per; scanf("%la %la %ld %ld %la %la", &mn, &mx, &n, &per, &v, &sc);
    HistogramNew h; h.setPeriodic(per != 0); h.Initialize(mn, mx, n);
    for (long i = 0; i < n; i++) { double y; scanf("%la", &y); h.data().y(i) = y; }
    if (!strcmp(cmd, "proc")) h_process(&h, v, sc); else h_normalize(&h);
    printf("%a", h.getStep());
    for (long i = 0; i < n; i++) printf(" %a", h.data().y(i));
    printf("\n");
  }
}
#endif
