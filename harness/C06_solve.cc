// C06 harness: the constrained least-squares routine and the Tikhonov solve + table splitting of csg_imc_solve
#include <string>
#include <vector>
#include <list>
#include <iostream>
#include <sstream>
#include <fstream>
#include <stdexcept>
#include <Eigen/Dense>
#define private public
#define protected public
#include "tools/src/libtools/table.cc"
#include "tools/src/libtools/rangeparser.cc"
#include "tools/src/libtools/tokenizer.cc"
#include "tools/src/libtools/linalg.cc"
#include "csg/src/libcsg/imcio.cc"
#define main votca_csg_imc_solve_main
#include "csg/src/tools/csg_imc_solve.cc"
#undef main
#undef private
#undef protected
using namespace votca::tools;
using namespace votca::csg;
#define H extern "C" __attribute__((noinline))

// x = linalg_constrained_qrsolve(A, b, C): A is n x m (row-major in a), C is k x m (row-major in c); returns 0, -1 if it throws
H long h_cqr(const double* a, const double* b, const double* c, long n, long m, long k, double* x) {
  try {
    Eigen::MatrixXd A(n, m), C(k, m); Eigen::VectorXd B(n);
    for (long i = 0; i < n; i++) { B(i) = b[i]; for (long j = 0; j < m; j++) A(i, j) = a[i * m + j]; }
    for (long i = 0; i < k; i++) for (long j = 0; j < m; j++) C(i, j) = c[i * m + j];
    Eigen::VectorXd r = linalg_constrained_qrsolve(A, B, C);
    for (long j = 0; j < r.size(); j++) x[j] = r(j);
    return r.size();
  } catch (...) { return -1; }
}

// the option values csg_imc_solve reads; the variables_map lookup is redirected here by the interpreter
static boost::program_options::variable_value g_vv[4];
extern "C" __attribute__((noinline)) const boost::program_options::variable_value* h_vm_lookup(const std::string* name) {
  if (*name == "imcfile") return &g_vv[0];
  if (*name == "gmcfile") return &g_vv[1];
  if (*name == "idxfile") return &g_vv[2];
  if (*name == "regularization") return &g_vv[3];
  return nullptr;
}
// csg_imc_solve end to end over the file model: the group matrix A (rows x cols, row-major in a), the table (bx, by) and an
// index file with nr named ranges [rb:re] are written with the library's own writers, CG_IMC_solve::Run is executed with
// --regularization reg, and every "<name>.dpot.imc" it wrote is loaded again: cnt[r] rows, (ox, oy, of)[r*cap + j].
// returns 0, -1 if anything throws
H long h_imc_solve(const double* a, long rows, long cols, const double* bx, const double* by, double reg,
                   long nr, const long* rb, const long* re, double* ox, double* oy, char* of, long* cnt, long cap) {
  static const char* nm[3] = {"A-A", "B-B", "A-B"};
  try {
    Eigen::MatrixXd A(rows, cols);
    for (long i = 0; i < rows; i++) for (long j = 0; j < cols; j++) A(i, j) = a[i * cols + j];
    imcio_write_matrix("a.gmc", A, nullptr);
    Table B; B.resize(rows);
    for (long k = 0; k < rows; k++) B.set(k, bx[k], by[k], 'i');
    B.Save("b.imc");
    if (rb) {   // rb == nullptr: the index file "i.idx" was put in place by the caller (hand-written index files)
      std::vector<std::pair<std::string, RangeParser> > rs;
      for (long r = 0; r < nr; r++) { RangeParser rp; rp.Add(rb[r], re[r]); rs.push_back(std::make_pair(std::string(nm[r]), rp)); }
      imcio_write_index("i.idx", rs);
    }
    g_vv[0] = boost::program_options::variable_value(boost::any(std::string("b.imc")), false);
    g_vv[1] = boost::program_options::variable_value(boost::any(std::string("a.gmc")), false);
    g_vv[2] = boost::program_options::variable_value(boost::any(std::string("i.idx")), false);
    g_vv[3] = boost::program_options::variable_value(boost::any(reg), false);
#ifdef VERIF_NATIVE
    CG_IMC_solve app; app.op_vm_.insert(std::make_pair(std::string("imcfile"), g_vv[0])); app.op_vm_.insert(std::make_pair(std::string("gmcfile"), g_vv[1]));
    app.op_vm_.insert(std::make_pair(std::string("idxfile"), g_vv[2])); app.op_vm_.insert(std::make_pair(std::string("regularization"), g_vv[3]));
    app.Run();
#else
    alignas(16) static char buf[sizeof(CG_IMC_solve)];
    reinterpret_cast<CG_IMC_solve*>(buf)->CG_IMC_solve::Run();
#endif
    for (long r = 0; r < nr; r++) {
      Table t; t.Load(std::string(nm[r]) + ".dpot.imc");
      cnt[r] = t.size();
      for (long j = 0; j < t.size() && j < cap; j++) { ox[r * cap + j] = t.x(j); oy[r * cap + j] = t.y(j); of[r * cap + j] = t.flags(j); }
    }
    return 0;
  } catch (...) { return -1; }
}
