/* CBMC harness for HistogramNew::Process translated from the real IR (f_h_process).
   State: arbitrary valid object (representation invariant: nbins>=1, step>0 finite, y buffer of exactly nbins doubles). */
#include <stdlib.h>
#include <math.h>
#include "layout.h"
extern int verif_thrown; void verif_init_globals(void);
void f_h_process(char* h, double v, double scale);
double nondet_double(void); long nondet_long(void); unsigned char nondet_uchar(void);
static int finite(double x) { return x == x && x - x == 0.0; }
#ifndef NB
#define NB 8
#endif
int main(void) {
  verif_init_globals();
#ifdef NBINS_FIXED
  long nbins = NBINS_FIXED;
#else
  long nbins = nondet_long(); __CPROVER_assume(nbins >= 1 && nbins <= NB);
#endif
  char* obj = malloc(SIZEOF_HN); __CPROVER_assume(obj != 0);
  double mn = nondet_double(), mx = nondet_double(), step = nondet_double(), v = nondet_double(), scale = nondet_double();
  unsigned char periodic = nondet_uchar(); __CPROVER_assume(periodic <= 1);
  __CPROVER_assume(finite(mn) && finite(mx) && finite(step) && finite(v) && finite(scale) && step > 0.0 && mx > mn);
#ifdef STEP_FROM_INIT
  /* step as Initialize_ computes it */
  if (nbins == 1) step = 1; else if (periodic) step = (mx - mn) / (double)nbins; else step = (mx - mn) / ((double)nbins - 1.0);
  __CPROVER_assume(step > 0.0 && finite(step));
#endif
  double* y = malloc(nbins * sizeof(double)); __CPROVER_assume(y != 0);
  double y0[NB];
  for (long j = 0; j < nbins; j++) { y[j] = nondet_double(); __CPROVER_assume(finite(y[j])); y0[j] = y[j]; }
  *(double*)(obj + OFF_min) = mn; *(double*)(obj + OFF_max) = mx; *(double*)(obj + OFF_step) = step;
  *(unsigned char*)(obj + OFF_periodic) = periodic; *(long*)(obj + OFF_nbins) = nbins;
  *(double**)(obj + OFF_ydata) = y; *(long*)(obj + OFF_yrows) = nbins;
  double q = floor((v - mn) / step + 0.5);
#ifdef FUNCTIONAL
  __CPROVER_assume(q > -0x1p62 && q < 0x1p62);     /* functional clauses only where the index conversion is defined */
#endif
  f_h_process(obj, v, scale);                       /* A1: CBMC's pointer checks on the store inside */
#ifdef FUNCTIONAL
  long k = -1;                                      /* expected bin, -1 = dropped */
  if (q >= 0.0 && q < (double)nbins) k = (long)q;
  else if (periodic) { long qi = (long)q; long m = qi % nbins; if (m < 0) m += nbins; k = m; }
  for (long j = 0; j < nbins; j++) {
    if (j == k) __CPROVER_assert(y[j] == y0[j] + scale, "A2/A3 the nearest (or wrapped) bin receives exactly the weight");
    else __CPROVER_assert(y[j] == y0[j], "A2/A3 every other bin is unchanged (weight conservation)");
  }
#endif
#ifdef WITNESS
  __CPROVER_assert(0, "WITNESS reachable");
#endif
  return 0;
}
