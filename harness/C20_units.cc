// C20 harness: the nine UnitConverter::convert overloads with the enums passed as plain integers,
// the tools::conv constants, and CsgUnits.
#include <votca/tools/unitconverter.h>
#include <votca/tools/constants.h>
#include <votca/csg/units.h>
using namespace votca::tools;
#define H extern "C" __attribute__((noinline))
H double h_dist(int a, int b) { UnitConverter c; return c.convert(static_cast<DistanceUnit>(a), static_cast<DistanceUnit>(b)); }
H double h_time(int a, int b) { UnitConverter c; return c.convert(static_cast<TimeUnit>(a), static_cast<TimeUnit>(b)); }
H double h_mass(int a, int b) { UnitConverter c; return c.convert(static_cast<MassUnit>(a), static_cast<MassUnit>(b)); }
H double h_energy(int a, int b) { UnitConverter c; return c.convert(static_cast<EnergyUnit>(a), static_cast<EnergyUnit>(b)); }
H double h_menergy(int a, int b) { UnitConverter c; return c.convert(static_cast<MolarEnergyUnit>(a), static_cast<MolarEnergyUnit>(b)); }
H double h_charge(int a, int b) { UnitConverter c; return c.convert(static_cast<ChargeUnit>(a), static_cast<ChargeUnit>(b)); }
H double h_vel(int a, int b) { UnitConverter c; return c.convert(static_cast<VelocityUnit>(a), static_cast<VelocityUnit>(b)); }
H double h_force(int a, int b) { UnitConverter c; return c.convert(static_cast<ForceUnit>(a), static_cast<ForceUnit>(b)); }
H double h_mforce(int a, int b) { UnitConverter c; return c.convert(static_cast<MolarForceUnit>(a), static_cast<MolarForceUnit>(b)); }
H double h_const(int k) {
  switch (k) {
    case 0: return conv::kB;        case 1: return conv::hbar;     case 2: return conv::bohr2nm;  case 3: return conv::nm2bohr;
    case 4: return conv::ang2bohr;  case 5: return conv::bohr2ang; case 6: return conv::nm2ang;   case 7: return conv::ang2nm;
    case 8: return conv::hrt2ev;    case 9: return conv::ev2hrt;   case 10: return conv::ev2kj_per_mol;
    case 11: return conv::kcal2kj;  case 12: return conv::kj2kcal; case 13: return conv::Pi;
  }
  return 0.0;
}
// CsgUnits members as integers: distance,mass,time,charge,molar energy,velocity,molar force
H int h_csgunit(int k) {
  votca::csg::CsgUnits u;
  switch (k) {
    case 0: return (int)u.distance_unit; case 1: return (int)u.mass_unit; case 2: return (int)u.time_unit; case 3: return (int)u.charge_unit;
    case 4: return (int)u.energy_unit; case 5: return (int)u.velocity_unit; case 6: return (int)u.force_unit;
  }
  return -1;
}
#ifdef VERIF_NATIVE
#include <cstdio>
#include <cstring>
int main() {
  char cmd[32]; int a, b;
  while (scanf("%31s %d %d", cmd, &a, &b) == 3) {
    double r = 0;
    if (!strcmp(cmd, "dist")) r = h_dist(a, b); else if (!strcmp(cmd, "time")) r = h_time(a, b); else if (!strcmp(cmd, "mass")) r = h_mass(a, b);
    else if (!strcmp(cmd, "energy")) r = h_energy(a, b); else if (!strcmp(cmd, "menergy")) r = h_menergy(a, b); else if (!strcmp(cmd, "charge")) r = h_charge(a, b);
    else if (!strcmp(cmd, "vel")) r = h_vel(a, b); else if (!strcmp(cmd, "force")) r = h_force(a, b); else if (!strcmp(cmd, "mforce")) r = h_mforce(a, b);
    else if (!strcmp(cmd, "const")) r = h_const(a); else if (!strcmp(cmd, "csgunit")) r = h_csgunit(a);
    printf("%a\n", r);
  }
}
#endif
