// C01 harness: Map_Sphere::Apply from an arbitrary mapping state (real AddElem), with the real box classes;
// Map_Sphere::Initialize weight normalisation with Tokenizer::ToVector<double> as the only stub.
#include <string>
#include <vector>
#include <memory>
#include <stdexcept>
#include <Eigen/Dense>
#define private public
#define protected public
#include <votca/csg/topology.h>
#include "csg/src/libcsg/boundarycondition.cc"
#include "csg/src/libcsg/orthorhombicbox.cc"
#include "csg/src/libcsg/triclinicbox.cc"
#include "csg/src/libcsg/openbox.cc"
#include "tools/src/libtools/property.cc"
#include "csg/src/libcsg/molecule.cc"
#include "csg/src/libcsg/map.cc"
#include "csg/src/libcsg/topologymap.cc"
#include "csg/src/libcsg/topology.cc"
#include "csg/src/libcsg/exclusionlist.cc"
#undef private
#undef protected
using namespace votca::csg;
#define H extern "C" __attribute__((noinline))
static Eigen::Matrix3d mk(const double* bx) { Eigen::Matrix3d m; for (int i = 0; i < 3; i++) for (int j = 0; j < 3; j++) m(i, j) = bx[3 * j + i]; return m; }

// flags: bit0 positions present, bit1 velocities, bit2 forces.  out: [0]=rc-independent mass, [1..3]=pos, [4..6]=vel, [7..9]=F,
// [10]=HasPos,[11]=HasVel,[12]=HasF,[13]=#parents.  returns 0, or -1 if Apply throws.
H long h_apply(long n, const double* w, const double* fw, const double* mass, const double* pos, const double* vel, const double* frc,
               long flags, const double* box, long boxtype, double* out) {
  std::vector<std::unique_ptr<Bead>> parents;
  for (long i = 0; i < n; i++) {
    parents.emplace_back(new Bead(i, "T", Bead::spherical, "A", 0, mass[i], 0.0));
    Bead& b = *parents.back();
    if (flags & 1) b.setPos(Eigen::Vector3d(pos[3 * i], pos[3 * i + 1], pos[3 * i + 2]));
    if (flags & 2) b.setVel(Eigen::Vector3d(vel[3 * i], vel[3 * i + 1], vel[3 * i + 2]));
    if (flags & 4) b.setF(Eigen::Vector3d(frc[3 * i], frc[3 * i + 1], frc[3 * i + 2]));
  }
  Bead cg(100, "CG", Bead::spherical, "C", 0, 0.0, 0.0);
  Map_Sphere m; m.out_ = &cg;
  for (long i = 0; i < n; i++) m.AddElem(parents[i].get(), w[i], fw[i]);
  std::unique_ptr<BoundaryCondition> bc;
  if (boxtype == 1) bc.reset(new TriclinicBox()); else if (boxtype == 2) bc.reset(new OrthorhombicBox()); else bc.reset(new OpenBox());
  bc->setBox(mk(box));
  try { m.Apply(*bc); } catch (...) { return -1; }
  out[0] = cg.getMass();
  out[10] = cg.HasPos(); out[11] = cg.HasVel(); out[12] = cg.HasF(); out[13] = (double)cg.ParentBeads().size();
  if (cg.HasPos()) for (int k = 0; k < 3; k++) out[1 + k] = cg.getPos()[k];
  if (cg.HasVel()) for (int k = 0; k < 3; k++) out[4 + k] = cg.getVel()[k];
  if (cg.HasF()) for (int k = 0; k < 3; k++) out[7 + k] = cg.getF()[k];
  return 0;
}

// TopologyMap::Apply on two successive frames: the CG topology already carries the box of the previous frame (oldbox);
// out: [0..8] = CG box after Apply, [9] = CG box type, [10] = atomistic box type, [11] = step, [12] = time
H void h_topmap(const double* oldbox, const double* newbox, double step, double time, double* out) {
  Topology in, cg;
  cg.setBox(mk(oldbox));
  in.setBox(mk(newbox)); in.setStep((votca::Index)step); in.setTime(time);
  TopologyMap tm(&in, &cg);
  tm.Apply();
  const Eigen::Matrix3d& b = cg.getBox();
  for (int i = 0; i < 3; i++) for (int j = 0; j < 3; j++) out[3 * j + i] = b(i, j);
  out[9] = (double)cg.getBoxType(); out[10] = (double)in.getBoxType(); out[11] = (double)cg.getStep(); out[12] = cg.getTime();
}

// Map_Sphere::Initialize: parents named A0..A(n-1); weights / d given as text (the checker supplies placeholder tokens whose
// numeric conversion is the only stub).  out[2*i] = stored weight of element i, out[2*i+1] = stored force weight; returns the
// number of stored elements, -1 if Initialize throws.  order[i] = id of the parent stored at position i.
H long h_init(long n, const char* weights, const char* dtext, long has_d, double* out, long* order) {
  std::vector<std::unique_ptr<Bead>> parents; Molecule mol(0, "M");
  std::string names;
  for (long i = 0; i < n; i++) {
    std::string nm = "A"; nm += (char)('0' + i);
    parents.emplace_back(new Bead(i, "T", Bead::spherical, nm, 0, 1.0, 0.0));
    mol.AddBead(parents.back().get(), nm); names += (i ? " " : "") + nm;
  }
  votca::tools::Property ob, om;
  ob.add("beads", names); ob.add("name", "cgbead"); om.add("weights", weights); om.add("name", "map");
  if (has_d) om.add("d", dtext);
  Bead cg(100, "CG", Bead::spherical, "C", 0, 0.0, 0.0);
  Map_Sphere m;
  try { m.Initialize(&mol, &cg, &ob, &om); } catch (...) { return -1; }
  for (size_t i = 0; i < m.matrix_.size(); i++) { out[2 * i] = m.matrix_[i].weight_; out[2 * i + 1] = m.matrix_[i].force_weight_; order[i] = m.matrix_[i].in_->getId(); }
  return (long)m.matrix_.size();
}
