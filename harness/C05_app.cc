// C05 harness: the real CsgApplication::Worker::Run / ProcessData on a raw application object whose
// synchronisation state (token rings, reader mutex, frame budget, first-frame flag) is set up like CsgApplication::Run does.
// Everything that leaves the thread (Mutex::Lock/Unlock, the trajectory reader, EvalConfiguration, MergeWorker) is an external call.
#include <string>
#include <vector>
#include <memory>
#include <cstring>
#include <sstream>
#include <complex>
#include <iostream>
#include <fstream>
#include <map>
#include <list>
#include <boost/program_options.hpp>
#include <Eigen/Dense>
#define private public
#define protected public
#include "csg/src/libcsg/csgapplication.cc"
#undef private
#undef protected
using namespace votca::csg;
extern "C" {
  bool verif_next_frame(long worker);              // environment: trajectory reader
  void verif_eval(long worker);                    // environment: EvalConfiguration
  void verif_merge(long worker);                   // environment: MergeWorker
  void verif_map_apply(long worker);
}
static long g_sync = 1;
struct FakeReader : public TrajectoryReader {
  bool Open(const std::string&) override { return true; }
  bool FirstFrame(Topology&) override { return true; }
  bool NextFrame(Topology& top) override;
  void Close() override {}
};
struct ProbeWorker : public CsgApplication::Worker {
  void EvalConfiguration(Topology*, Topology*) override { verif_eval(id_); }
};
bool FakeReader::NextFrame(Topology& top) {
  // which worker's topology is being filled: recover the worker from the address of its top_ member
  ProbeWorker* w = reinterpret_cast<ProbeWorker*>(reinterpret_cast<char*>(&top) - offsetof(ProbeWorker, top_));
  return verif_next_frame(w->id_);
}
struct ProbeApp : public CsgApplication {
  std::string ProgramName() override { return "probe"; }
  void HelpText(std::ostream&) override {}
  bool DoTrajectory() override { return true; }
  bool DoThreaded() override { return true; }
  bool SynchronizeThreads() override { return g_sync != 0; }
  void MergeWorker(Worker* w) override { verif_merge(w->getId()); }
};
#define H extern "C" __attribute__((noinline))
alignas(16) static char app_buf[sizeof(ProbeApp)];
alignas(16) static char wrk_buf[8][sizeof(ProbeWorker)];
static FakeReader* g_reader;
// set-up exactly as the tail of CsgApplication::Run leaves it before Start(): all ring mutexes created (locked by main), flag set
H void* h_setup(long nthreads, long sync, long nframes, long do_mapping) {
  std::memset(app_buf, 0, sizeof app_buf);
  g_sync = sync;
  ProbeApp proto;                                     // only to obtain the vtable pointer
  std::memcpy(app_buf, &proto, sizeof(void*));
  ProbeApp* app = reinterpret_cast<ProbeApp*>(app_buf);
  new (&app->threadsMutexesIn_) std::vector<std::unique_ptr<votca::tools::Mutex>>();
  new (&app->threadsMutexesOut_) std::vector<std::unique_ptr<votca::tools::Mutex>>();
  app->nthreads_ = nthreads; app->nframes_ = nframes; app->is_first_frame_ = true; app->do_mapping_ = do_mapping != 0;
  g_reader = new FakeReader(); app->traj_reader_.reset(g_reader);
  if (sync) for (long t = 0; t < nthreads; t++) {
    app->threadsMutexesIn_.push_back(std::unique_ptr<votca::tools::Mutex>(static_cast<votca::tools::Mutex*>(::operator new(sizeof(votca::tools::Mutex)))));
    app->threadsMutexesOut_.push_back(std::unique_ptr<votca::tools::Mutex>(static_cast<votca::tools::Mutex*>(::operator new(sizeof(votca::tools::Mutex)))));
  }
  return app;
}
H void* h_mutex_addr(void* appv, long which, long idx) {   // 0: reader mutex, 1: In[idx], 2: Out[idx]
  ProbeApp* app = reinterpret_cast<ProbeApp*>(appv);
  if (which == 0) return &app->traj_readerMutex_;
  if (which == 1) return app->threadsMutexesIn_[idx].get();
  return app->threadsMutexesOut_[idx].get();
}
H void* h_field_addr(void* appv, long which) {             // 0: nframes_, 1: is_first_frame_
  ProbeApp* app = reinterpret_cast<ProbeApp*>(appv);
  if (which == 0) return &app->nframes_;
  return &app->is_first_frame_;
}
H long h_field_size(long which) { return which == 0 ? (long)sizeof(((ProbeApp*)0)->nframes_) : (long)sizeof(((ProbeApp*)0)->is_first_frame_); }
H void h_worker_run(void* appv, long id) {
  ProbeApp* app = reinterpret_cast<ProbeApp*>(appv);
  std::memset(wrk_buf[id], 0, sizeof wrk_buf[id]);
  ProbeWorker proto;
  std::memcpy(wrk_buf[id], &proto, sizeof(void*));
  ProbeWorker* w = reinterpret_cast<ProbeWorker*>(wrk_buf[id]);
  w->app_ = app; w->id_ = id;
  w->Run();                                             // the real CsgApplication::Worker::Run -> real ProcessData
}
