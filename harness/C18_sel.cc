// C18 harness: wildcmp, RangeParser (parse / iterate / print / re-parse)
#include <string>
#include <list>
#include <vector>
#include <sstream>
#include <stdexcept>
#define private public
#define protected public
#include "tools/src/libtools/tokenizer.cc"
#include "tools/src/libtools/rangeparser.cc"
#include <set>
#include "xtp/src/libxtp/IndexParser.cc"
#undef private
#undef protected
using namespace votca::tools;
#define H extern "C" __attribute__((noinline))
H int h_wildcmp(const char* w, const char* s) { return wildcmp(w, s); }
// returns the number of values (written to out), -1 if the expression is rejected, -2 if iteration exceeds cap
H long h_range(const char* text, long* out, long cap) {
  RangeParser rp;
  try { rp.Parse(text); } catch (...) { return -1; }
  long n = 0;
  for (RangeParser::iterator i = rp.begin(); i != rp.end(); ++i) { if (n >= cap) return -2; out[n++] = *i; }
  return n;
}
// parse, print with the real operator<<, parse the printed text again, iterate both
H long h_range_rt(const char* text, long* out1, long* out2, long cap) {
  RangeParser rp;
  try { rp.Parse(text); } catch (...) { return -1; }
  long n1 = 0;
  for (RangeParser::iterator i = rp.begin(); i != rp.end(); ++i) { if (n1 >= cap) return -2; out1[n1++] = *i; }
  // heap-allocated and intentionally leaked: the (partly inlined) iostream destructor is not a subject of the check
  std::ostringstream& os = *new std::ostringstream; os << rp;
  RangeParser rp2;
  try { rp2.Parse(os.str()); } catch (...) { return -3; }
  long n2 = 0;
  for (RangeParser::iterator i = rp2.begin(); i != rp2.end(); ++i) { if (n2 >= cap) return -4; out2[n2++] = *i; }
  return n1 * 1000 + n2;
}
// index strings ('1 3:5 9') -> sorted duplicate-free vector
H long h_index_vec(const char* text, long* out, long cap) {
  votca::xtp::IndexParser p; std::vector<votca::Index> v;
  try { v = p.CreateIndexVector(text); } catch (...) { return -1; }
  if ((long)v.size() > cap) return -2;
  for (size_t i = 0; i < v.size(); i++) out[i] = v[i];
  return (long)v.size();
}
#ifdef VERIF_NATIVE
#include <cstdio>
#include <cstring>
int main() {
  char cmd[16], a[256], b[256]; long out[64], out2[64];
  while (scanf("%15s", cmd) == 1) {
    if (!strcmp(cmd, "wild")) {   // hex-encoded byte strings (may be empty: "-")
      scanf("%255s %255s", a, b);
      auto dec = [](char* s) { if (!strcmp(s, "-")) { s[0] = 0; return; } size_t n = strlen(s) / 2; for (size_t i = 0; i < n; i++) { unsigned v; sscanf(s + 2 * i, "%2x", &v); s[i] = (char)v; } s[n] = 0; };
      dec(a); dec(b); printf("%d\n", h_wildcmp(a, b) != 0);
    } else if (!strcmp(cmd, "wildbuf")) {   // raw buffers (hex), terminators and trailing bytes included
      scanf("%255s %255s", a, b);
      auto decb = [](char* s) { size_t n = strlen(s) / 2; for (size_t i = 0; i < n; i++) { unsigned v; sscanf(s + 2 * i, "%2x", &v); s[i] = (char)v; } s[n] = 0; };
      decb(a); decb(b); printf("%d\n", h_wildcmp(a, b) != 0);
    } else if (!strcmp(cmd, "range")) {
      scanf("%255s", a); long n = h_range(a, out, 40); printf("%ld", n); for (long i = 0; i < n; i++) printf(" %ld", out[i]); printf("\n");
    } else {
      scanf("%255s", a); long n = h_range_rt(a, out, out2, 40); printf("%ld", n);
      if (n >= 0) { for (long i = 0; i < n / 1000; i++) printf(" %ld", out[i]); printf(" |"); for (long i = 0; i < n % 1000; i++) printf(" %ld", out2[i]); }
      printf("\n");
    }
  }
}
#endif
