// C03 harness: NBListGrid cell index and neighbour stencil; ExclusionList lookup
#include <string>
#include <vector>
#include <list>
#include <map>
#include <memory>
#include <sstream>
#include <iostream>
#include <Eigen/Dense>
#define private public
#define protected public
#include <votca/csg/topology.h>
#include "csg/src/libcsg/nblistgrid.cc"
#include "csg/src/libcsg/exclusionlist.cc"
#undef private
#undef protected
using namespace votca::csg;
#define H extern "C" __attribute__((noinline))
static Eigen::Matrix3d mk(const double* bx) { Eigen::Matrix3d m; for (int i = 0; i < 3; i++) for (int j = 0; j < 3; j++) m(i, j) = bx[3 * j + i]; return m; }
H void* h_grid_new(const double* box, double cutoff) { NBListGrid* g = new NBListGrid(); g->setCutoff(cutoff); g->InitializeGrid(mk(box)); return g; }
H void h_dims(void* gv, long* out) { NBListGrid* g = (NBListGrid*)gv; out[0] = g->box_Na_; out[1] = g->box_Nb_; out[2] = g->box_Nc_; out[3] = (long)g->grid_.size(); out[4] = (long)sizeof(NBListGrid::cell_t); }
H void* h_cell(void* gv, const double* r) { NBListGrid* g = (NBListGrid*)gv; return &g->getCell(Eigen::Vector3d(r[0], r[1], r[2])); }
H void* h_cell0(void* gv) { NBListGrid* g = (NBListGrid*)gv; return &g->grid_(0, 0, 0); }
H long h_neigh(void* gv, long idx, long* out, long cap) {
  NBListGrid* g = (NBListGrid*)gv; NBListGrid::cell_t* base = &g->grid_(0, 0, 0); NBListGrid::cell_t& c = base[idx]; long n = 0;
  for (NBListGrid::cell_t* p : c.neighbours_) { if (n < cap) out[n] = p - base; n++; }
  return n;
}
// raw grid object for the bit-precise index check: only the fields getCell reads
H long h_cellindex(NBListGrid* g, const double* r) { return &g->getCell(Eigen::Vector3d(r[0], r[1], r[2])) - &g->grid_(0, 0, 0); }
// exclusions: n beads (ids, molecule ids) excluded as one list in the given order; out[n*i+j] = IsExcluded(bead i, bead j)
H void h_excl(long n, const long* ids, const long* mols, const long* order, long* out) {
  std::vector<std::unique_ptr<Bead>> beads;
  for (long i = 0; i < n; i++) { beads.emplace_back(new Bead(ids[i], "T", Bead::spherical, "A", 0, 1.0, 0.0)); beads.back()->setMoleculeId(mols[i]); }
  ExclusionList ex;
  std::list<Bead*> l; for (long k = 0; k < n; k++) l.push_back(beads[order[k]].get());
  ex.ExcludeList(l);
  for (long i = 0; i < n; i++) for (long j = 0; j < n; j++) out[n * i + j] = ex.IsExcluded(beads[i].get(), beads[j].get()) ? 1 : 0;
}
#ifdef VERIF_LAYOUT
#include <cstdio>
#include <cstddef>
int main() {
  printf("#define SIZEOF_G %zu\n#define OFF_norm_a %zu\n#define OFF_norm_b %zu\n#define OFF_norm_c %zu\n#define OFF_Na %zu\n#define OFF_Nb %zu\n#define OFF_Nc %zu\n#define OFF_grid %zu\n#define SIZEOF_CELL %zu\n",
         sizeof(NBListGrid), offsetof(NBListGrid, norm_a_), offsetof(NBListGrid, norm_b_), offsetof(NBListGrid, norm_c_), offsetof(NBListGrid, box_Na_), offsetof(NBListGrid, box_Nb_), offsetof(NBListGrid, box_Nc_), offsetof(NBListGrid, grid_), sizeof(NBListGrid::cell_t));
  // NDimVector<cell_t,3> = { std::vector<cell_t> storage_ (begin,end,cap), array<Index,3> dimensions_, array<Index,3> offsets_ }
  printf("#define OFF_storage_begin 0\n#define OFF_storage_end 8\n#define OFF_dims 24\n#define OFF_offsets 48\n");
}
#endif
