// C07 harness: value + analytic derivative pairs of the real code.
#include <string>
#include <vector>
#include <memory>
#include <Eigen/Dense>
#define private public
#define protected public
#include <votca/csg/topology.h>
#include <votca/csg/interaction.h>
#include "tools/src/libtools/table.cc"
#include "csg/src/libcsg/potentialfunctions/potentialfunction.cc"
#include "csg/src/libcsg/potentialfunctions/potentialfunctionlj126.cc"
#include "csg/src/libcsg/potentialfunctions/potentialfunctionljg.cc"
#include "csg/src/libcsg/potentialfunctions/potentialfunctioncbspl.cc"
#undef private
#undef protected
using namespace votca::csg;
#define H extern "C" __attribute__((noinline))

// Topology::getDist is the environment boundary (declared, not defined in this TU).
H void h_bond(double* out, const Topology* top, long bead) {
  IBond ia(0, 1);
  out[0] = ia.IBond::EvaluateVar(*top);
  Eigen::Vector3d g = ia.IBond::Grad(*top, bead);
  out[1] = g[0]; out[2] = g[1]; out[3] = g[2];
}
H void h_angle(double* out, const Topology* top, long bead) {
  IAngle ia(0, 1, 2);
  out[0] = ia.IAngle::EvaluateVar(*top);
  Eigen::Vector3d g = ia.IAngle::Grad(*top, bead);
  out[1] = g[0]; out[2] = g[1]; out[3] = g[2];
}
H void h_dih(double* out, const Topology* top, long bead) {
  IDihedral ia(0, 1, 2, 3);
  out[0] = ia.IDihedral::EvaluateVar(*top);
  Eigen::Vector3d g = ia.IDihedral::Grad(*top, bead);
  out[1] = g[0]; out[2] = g[1]; out[3] = g[2];
}
// potential functions: out[0]=F(r), out[1]=DF(i,r), out[2]=D2F(i,j,r)
H void h_lj126(double* out, const double* lam, double r, double rmin, double rcut, long i, long j) {
  PotentialFunctionLJ126 f("p", rmin, rcut);
  for (long k = 0; k < 2; k++) f.lam_(k) = lam[k];
  out[0] = f.CalculateF(r); out[1] = f.CalculateDF(i, r); out[2] = f.CalculateD2F(i, j, r);
}
H void h_ljg(double* out, const double* lam, double r, double rmin, double rcut, long i, long j) {
  PotentialFunctionLJG f("p", rmin, rcut);
  for (long k = 0; k < 5; k++) f.lam_(k) = lam[k];
  out[0] = f.CalculateF(r); out[1] = f.CalculateDF(i, r); out[2] = f.CalculateD2F(i, j, r);
}
// history independence: evaluate once at (lam1, r1), replace every parameter through a public setter (mode 0: setParam(k, val),
// 1: setParam(vector), 2: Params()(k) = val, 3: setOptParam(k, val)), evaluate at (lam2, r2).  kind 0: LJ126, 1: LJG
template <class PF> static void pot_seq(PF& f, long nl, double* out, const double* lam1, double r1, const double* lam2, double r2, long i, long j, long mode) {
  for (long k = 0; k < nl; k++) f.setParam(k, lam1[k]);
  volatile double sink = f.CalculateF(r1) + f.CalculateDF(i, r1) + f.CalculateD2F(i, j, r1); (void)sink;
  if (mode == 1) { Eigen::VectorXd v(nl); for (long k = 0; k < nl; k++) v(k) = lam2[k]; f.setParam(v); }
  else for (long k = 0; k < nl; k++) { if (mode == 0) f.setParam(k, lam2[k]); else if (mode == 2) f.Params()(k) = lam2[k]; else f.setOptParam(k, lam2[k]); }
  out[0] = f.CalculateF(r2); out[1] = f.CalculateDF(i, r2); out[2] = f.CalculateD2F(i, j, r2);
}
H void h_pot_seq(long kind, double* out, const double* lam1, double r1, const double* lam2, double r2, double rmin, double rcut, long i, long j, long mode) {
  if (kind == 0) { PotentialFunctionLJ126 f("p", rmin, rcut); pot_seq(f, 2, out, lam1, r1, lam2, r2, i, j, mode); }
  else { PotentialFunctionLJG f("p", rmin, rcut); pot_seq(f, 5, out, lam1, r1, lam2, r2, i, j, mode); }
}
// cubic B-spline: nlam knots, concrete rmin/rcut (they decide the knot layout), symbolic coefficients and r
H long h_cbspl(double* out, const double* lam, long nlam, double r, double rmin, double rcut, long i, long j) {
  try {
    PotentialFunctionCBSPL f("p", nlam, rmin, rcut);
    for (long k = 0; k < nlam; k++) f.lam_(k) = lam[k];
    out[0] = f.CalculateF(r); out[1] = f.CalculateDF(i, r); out[2] = f.CalculateD2F(i, j, r);
    out[3] = (double)f.nexcl_; out[4] = (double)f.getOptParamSize();
    return 0;
  } catch (...) { return -1; }
}

// SavePotTab: the table handed to Table::Save is captured (interpreter: model of Table::Save calls verif_capture;
// native build: the file written by the real Table::Save is read back)
static double* CAPX; static double* CAPY; static char* CAPF; static long CAPN, CAPCAP;
H void verif_capture(const votca::tools::Table* t) {
  CAPN = t->size();
  for (long k = 0; k < CAPN && k < CAPCAP; k++) { CAPX[k] = t->x_[k]; CAPY[k] = t->y_[k]; CAPF[k] = t->flags_[k]; }
}
// which: 0 LJ126, 1 LJG; overload 0: SavePotTab(file, step) over [min_,cut_off_]; 1: SavePotTab(file, step, r0, r1)
H long h_savepot(double* xs, double* ys, char* fl, long cap, const double* lam, double rmin, double rcut, double step, long which, long overload, double r0, double r1) {
  CAPX = xs; CAPY = ys; CAPF = fl; CAPN = -1; CAPCAP = cap;
  std::string fn("verif_pot.tab");
  try {
    if (which == 0) {
      PotentialFunctionLJ126 f("p", rmin, rcut); for (long k = 0; k < 2; k++) f.lam_(k) = lam[k];
      if (overload == 0) f.SavePotTab(fn, step); else f.SavePotTab(fn, step, r0, r1);
    } else {
      PotentialFunctionLJG f("p", rmin, rcut); for (long k = 0; k < 5; k++) f.lam_(k) = lam[k];
      if (overload == 0) f.SavePotTab(fn, step); else f.SavePotTab(fn, step, r0, r1);
    }
  } catch (...) { return -2; }
#ifdef VERIF_NATIVE
  { votca::tools::Table t; t.Load(fn); verif_capture(&t); remove(fn.c_str()); }
#endif
  return CAPN;
}

#ifdef VERIF_NATIVE
// native driver for encoder validation: getDist is supplied by a tiny stand-in that reads a table
#include <cstdio>
#include <cstring>
static double POS[4][3];
namespace votca { namespace csg {
Eigen::Vector3d Topology::getDist(Index b1, Index b2) const { return Eigen::Vector3d(POS[b2][0] - POS[b1][0], POS[b2][1] - POS[b1][1], POS[b2][2] - POS[b1][2]); }
}}
int main() {
  char cmd[32]; double out[8];
  alignas(16) static char topbuf[8192];
  const Topology* top = reinterpret_cast<const Topology*>(topbuf);
  while (scanf("%31s", cmd) == 1) {
    if (!strcmp(cmd, "bond") || !strcmp(cmd, "angle") || !strcmp(cmd, "dih")) {
      long bead; scanf("%ld", &bead);
      for (int b = 0; b < 4; b++) for (int k = 0; k < 3; k++) scanf("%la", &POS[b][k]);
      if (!strcmp(cmd, "bond")) h_bond(out, top, bead); else if (!strcmp(cmd, "angle")) h_angle(out, top, bead); else h_dih(out, top, bead);
      printf("%a %a %a %a\n", out[0], out[1], out[2], out[3]);
    } else if (!strcmp(cmd, "savepot")) {
      long which, ov; double lam[8], rmin, rcut, step, r0, r1; scanf("%ld %ld", &which, &ov);
      for (long k = 0; k < (which ? 5 : 2); k++) scanf("%la", &lam[k]);
      scanf("%la %la %la %la %la", &rmin, &rcut, &step, &r0, &r1);
      double xs[64], ys[64]; char fl[64];
      long n = h_savepot(xs, ys, fl, 64, lam, rmin, rcut, step, which, ov, r0, r1);
      printf("%ld", n); for (long k = 0; k < n && k < 64; k++) printf(" %a %a %c", xs[k], ys[k], fl[k]); printf("\n");
    } else {
      long n, i, j; double lam[16], r, rmin, rcut; scanf("%ld", &n);
      for (long k = 0; k < n; k++) scanf("%la", &lam[k]);
      scanf("%la %la %la %ld %ld", &r, &rmin, &rcut, &i, &j);
      long rc = 0;
      if (!strcmp(cmd, "lj126")) h_lj126(out, lam, r, rmin, rcut, i, j); else if (!strcmp(cmd, "ljg")) h_ljg(out, lam, r, rmin, rcut, i, j); else rc = h_cbspl(out, lam, n, r, rmin, rcut, i, j);
      printf("%ld %a %a %a\n", rc, out[0], out[1], out[2]);
    }
  }
}
#endif
