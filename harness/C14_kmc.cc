// C14 harness: Huffman-tree destination lookup, Marcus rates, waiting time.
#include <vector>
#include <queue>
#include <string>
#include <stdexcept>
#include <cstring>
#include <cmath>
#include <Eigen/Dense>
#define private public
#define protected public
#include "xtp/src/libxtp/gnode.cc"
#include "xtp/src/libxtp/rate_engine.cc"
#undef private
#undef protected
using namespace votca::xtp;
#define H extern "C" __attribute__((noinline))
// n decay events with the given rates on a raw GNode (only events_/hTree/escape_rate_ are used by the code under test)
H long h_tree(long n, const double* rates, double p, double* esc) {
  alignas(GNode) static char buf[sizeof(GNode)];
  std::memset(buf, 0, sizeof(buf));
  GNode* g = reinterpret_cast<GNode*>(buf);
  new (&g->events_) std::vector<GLink>();
  new (&g->hTree) huffmanTree<GLink>();
  for (long i = 0; i < n; i++) g->AddDecayEvent(rates[i]);
  g->InitEscapeRate(); *esc = g->getEscapeRate();
  g->MakeHuffTree();
  GLink* l = g->findHoppingDestination(p);
  return l - &g->events_[0];
}
// same, but the tree is built twice (kmclifetime adds decay events after LoadGraph built the tree): n1 events, build, n2 more, build
H long h_tree2(long n1, long n2, const double* rates, double p, double* esc) {
  alignas(GNode) static char buf[sizeof(GNode)];
  std::memset(buf, 0, sizeof(buf));
  GNode* g = reinterpret_cast<GNode*>(buf);
  new (&g->events_) std::vector<GLink>();
  new (&g->hTree) huffmanTree<GLink>();
  g->events_.reserve(n1 + n2);
  for (long i = 0; i < n1; i++) g->AddDecayEvent(rates[i]);
  g->InitEscapeRate(); g->MakeHuffTree();
  for (long i = n1; i < n1 + n2; i++) g->AddDecayEvent(rates[i]);
  g->InitEscapeRate(); *esc = g->getEscapeRate();
  g->MakeHuffTree();
  GLink* l = g->findHoppingDestination(p);
  return l - &g->events_[0];
}
// in[]: E1, E2 (EMpoles), UxXnN1, UxXnN2, UnXnN1, UnXnN2, UxNxX1, UxNxX2, lambda0, J2, R[3], F[3], kT ; carrier: QMStateType index
H long h_rate(const double* in, long carrier, double* out) {
  alignas(Segment) static char b1[sizeof(Segment)], b2[sizeof(Segment)];
  alignas(QMPair) static char bp[sizeof(QMPair)];
  alignas(Rate_Engine) static char be[sizeof(Rate_Engine)];
  std::memset(b1, 0, sizeof b1); std::memset(b2, 0, sizeof b2); std::memset(bp, 0, sizeof bp); std::memset(be, 0, sizeof be);
  Segment* s1 = reinterpret_cast<Segment*>(b1); Segment* s2 = reinterpret_cast<Segment*>(b2);
  QMPair* pr = reinterpret_cast<QMPair*>(bp); Rate_Engine* re = reinterpret_cast<Rate_Engine*>(be);
  QMStateType st(static_cast<QMStateType::statetype>(carrier));
  s1->site_eng_.setValue(in[0], st); s2->site_eng_.setValue(in[1], st);
  s1->U_xX_nN_.setValue(in[2], st); s2->U_xX_nN_.setValue(in[3], st);
  s1->U_nX_nN_.setValue(in[4], st); s2->U_nX_nN_.setValue(in[5], st);
  s1->U_xN_xX_.setValue(in[6], st); s2->U_xN_xX_.setValue(in[7], st);
  pr->segments_.first = s1; pr->segments_.second = s2;
  pr->lambda0_.setValue(in[8], st); pr->Jeff2_.setValue(in[9], st);
  pr->R_ = Eigen::Vector3d(in[10], in[11], in[12]);
  new (&re->ratetype_) std::string("marcus");
  re->field_ = Eigen::Vector3d(in[13], in[14], in[15]); re->temperature_ = in[16];
  try {
    Rate_Engine::PairRates r = re->Rate(*pr, st);
    out[0] = r.rate12; out[1] = r.rate21; return 0;
  } catch (...) { return -1; }
}
#ifdef WITH_KMC
#define private public
#define protected public
#include "xtp/src/libxtp/kmccalculator.cc"
#undef private
#undef protected
struct KProbe : public KMCCalculator {  // KMCCalculator is abstract; only Promotetime is exercised
  std::string Identify() const override { return "probe"; }
  bool WriteToStateFile() const override { return false; }
  void ParseSpecificOptions(const votca::tools::Property&) override {}
  bool Evaluate(Topology&) override { return true; }
  void RunVSSM() {}
};
H double h_promote(KMCCalculator* k, double cumulated_rate) { return k->Promotetime(cumulated_rate); }
H long h_sizeof_kmc() { return (long)sizeof(KProbe); }
#endif
