// C12 harness (table text reader): the real stream extraction operator of tools::Table on an arbitrary istream.
#include <string>
#include <vector>
#include <sstream>
#include <iostream>
#include <stdexcept>
#include <Eigen/Dense>
#define private public
#define protected public
#include "tools/src/libtools/table.cc"
#undef private
#undef protected
using namespace votca::tools;
#define H extern "C" __attribute__((noinline))
// returns the number of rows read (-1: the reader threw); rows are copied to xs/ys/fl
H long h_table_read(std::istream* in, double* xs, double* ys, char* fl, long cap) {
  try {
    Table t; (*in) >> t;
    long n = t.size();
    for (long k = 0; k < n && k < cap; k++) { xs[k] = t.x(k); ys[k] = t.y(k); fl[k] = t.flags(k); }
    return n;
  } catch (...) { return -1; }
}
// writes a table of n rows (optionally with an error column) through the real stream insertion operator
H void h_table_write(std::ostream* out, const double* xs, const double* ys, const double* es, const char* fl, long n, long has_yerr) {
  Table t; t.SetHasYErr(has_yerr != 0); t.resize(n);
  for (long k = 0; k < n; k++) { if (has_yerr) t.set(k, xs[k], ys[k], fl[k], es[k]); else t.set(k, xs[k], ys[k], fl[k]); }
  (*out) << t;
}
#ifdef VERIF_NATIVE
#include <cstdio>
#include <cstring>
int main(int argc, char** argv) {
  if (argc > 1 && !strcmp(argv[1], "roundtrip")) {
    // stdin: has_yerr n, then n rows "x y e flagcode"; the table is written and read back
    long he, n; scanf("%ld %ld", &he, &n); double xs[64], ys[64], es[64]; char fl[64];
    for (long k = 0; k < n; k++) { int f; scanf("%la %la %la %d", &xs[k], &ys[k], &es[k], &f); fl[k] = (char)f; }
    std::stringstream ss; h_table_write(&ss, xs, ys, es, fl, n, he);
    long m = h_table_read(&ss, xs, ys, fl, 64);
    printf("%ld", m); for (long k = 0; k < m && k < 64; k++) printf(" %a %a %d", xs[k], ys[k], (int)(unsigned char)fl[k]); printf("\n");
    return 0;
  }
  std::stringstream ss; ss << std::cin.rdbuf();
  double xs[64], ys[64]; char fl[64];
  long n = h_table_read(&ss, xs, ys, fl, 64);
  printf("%ld", n); for (long k = 0; k < n && k < 64; k++) printf(" %a %a %d", xs[k], ys[k], (int)(unsigned char)fl[k]); printf("\n");
}
#endif
