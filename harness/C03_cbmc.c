/* CBMC harness: NBListGrid::getCell (translated from IR: f_h_cellindex) always yields an index inside the grid,
   for arbitrary finite plane normals, any finite position and 1..NMAX cells per direction */
#include <stdlib.h>
#include <math.h>
#include "layout03.h"
void verif_init_globals(void);
unsigned long f_h_cellindex(char* g, char* r);
double nondet_double(void); long nondet_long(void);
static int fin(double x) { return x == x && x - x == 0.0; }
#ifndef NMAX
#define NMAX 6
#endif
int main(void) {
  verif_init_globals();
  long Na = nondet_long(), Nb = nondet_long(), Nc = nondet_long();
  __CPROVER_assume(Na >= 1 && Na <= NMAX && Nb >= 1 && Nb <= NMAX && Nc >= 1 && Nc <= NMAX);
  char* g = malloc(SIZEOF_G); __CPROVER_assume(g != 0);
  double r[3];
  for (int i = 0; i < 3; i++) { r[i] = nondet_double(); __CPROVER_assume(fin(r[i])); }
  for (int i = 0; i < 3; i++) {
    double a = nondet_double(), b = nondet_double(), c = nondet_double(); __CPROVER_assume(fin(a) && fin(b) && fin(c));
    ((double*)(g + OFF_norm_a))[i] = a; ((double*)(g + OFF_norm_b))[i] = b; ((double*)(g + OFF_norm_c))[i] = c;
  }
  *(long*)(g + OFF_Na) = Na; *(long*)(g + OFF_Nb) = Nb; *(long*)(g + OFF_Nc) = Nc;
  char* st = malloc(Na * Nb * Nc * SIZEOF_CELL); __CPROVER_assume(st != 0);
  *(char**)(g + OFF_grid + OFF_storage_begin) = st; *(char**)(g + OFF_grid + OFF_storage_end) = st + Na * Nb * Nc * SIZEOF_CELL;
  ((long*)(g + OFF_grid + OFF_dims))[0] = Na; ((long*)(g + OFF_grid + OFF_dims))[1] = Nb; ((long*)(g + OFF_grid + OFF_dims))[2] = Nc;
  ((long*)(g + OFF_grid + OFF_offsets))[0] = 1; ((long*)(g + OFF_grid + OFF_offsets))[1] = Na; ((long*)(g + OFF_grid + OFF_offsets))[2] = Na * Nb;
#ifdef FPTOSI_DEFINED
  /* functional clause only where the three floor() values fit an Index */
  for (int m = 0; m < 3; m++) { double* n = (double*)(g + (m == 0 ? OFF_norm_a : m == 1 ? OFF_norm_b : OFF_norm_c)); double q = floor(r[0] * n[0] + r[1] * n[1] + r[2] * n[2]); __CPROVER_assume(q > -0x1p62 && q < 0x1p62); }
#endif
  long idx = (long)f_h_cellindex(g, (char*)r);
  __CPROVER_assert(idx >= 0 && idx < Na * Nb * Nc, "cell index inside the grid");
#ifdef WITNESS
  __CPROVER_assert(0, "WITNESS reachable");
#endif
  return 0;
}
