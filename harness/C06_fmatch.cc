// C06 harness (c): the per-block bookkeeping of csg_fmatch -- one call of the real CGForceMatching::EvalConfiguration from an
// arbitrary matrix state, with no interaction splines registered (the design-matrix rows of the interactions are C07/C03 subjects)
#include <string>
#include <vector>
#include <list>
#include <iostream>
#include <sstream>
#include <fstream>
#include <stdexcept>
#include <Eigen/Dense>
#define private public
#define protected public
#include "csg/src/libcsg/boundarycondition.cc"
#include "csg/src/libcsg/orthorhombicbox.cc"
#include "csg/src/libcsg/triclinicbox.cc"
#include "csg/src/libcsg/openbox.cc"
#include "csg/src/libcsg/molecule.cc"
#include "csg/src/libcsg/topology.cc"
#include "csg/src/libcsg/exclusionlist.cc"
#define main votca_csg_fmatch_main
#include "csg/src/tools/csg_fmatch.cc"
#undef main
#undef private
#undef protected
using namespace votca::csg;
#define H extern "C" __attribute__((noinline))
// recording stubs' target (the interpreter redirects FmatchAccumulateData / WriteOutFiles here)
static double g_A[64], g_b[32]; static long g_seen = 0, g_nblocks = 0, g_wrote = 0;
extern "C" __attribute__((noinline)) void h_fm_accumulate(CGForceMatching* fm) {
  g_seen++; g_nblocks = fm->nblocks_;
  for (long i = 0; i < fm->A_.rows(); i++) for (long j = 0; j < fm->A_.cols(); j++) g_A[i * fm->A_.cols() + j] = fm->A_(i, j);
  for (long i = 0; i < fm->b_.size(); i++) g_b[i] = fm->b_(i);
}
extern "C" __attribute__((noinline)) void h_fm_writeout(CGForceMatching*) { g_wrote++; }
// state: A (rows x cols, row-major), b (rows), Bc (crow x cols); one frame with nbeads forces f[3*i+c]
// out: [0] frame_counter after, [1] nblocks after, [2] #accumulate calls, [3] #write calls, [4] nblocks seen by accumulate
H long h_fm_frame(long constr, long nbeads, long nframes, long frame_counter, long offset, const double* a, long rows, long cols, const double* b,
                  const double* bc, long crows, const double* f, double* outA, double* outb, double* outBc, double* accA, double* accb, long* out) {
  try {
    alignas(16) static char buf[sizeof(CGForceMatching)];
    std::memset(buf, 0, sizeof buf);
    CGForceMatching* fm = reinterpret_cast<CGForceMatching*>(buf);
    new (&fm->splines_) CGForceMatching::SplineContainer();
    new (&fm->A_) Eigen::MatrixXd(rows, cols); new (&fm->b_) Eigen::VectorXd(rows); new (&fm->x_) Eigen::VectorXd(cols); new (&fm->B_constr_) Eigen::MatrixXd(crows, cols);
    for (long i = 0; i < rows; i++) { fm->b_(i) = b[i]; for (long j = 0; j < cols; j++) fm->A_(i, j) = a[i * cols + j]; }
    for (long i = 0; i < crows; i++) for (long j = 0; j < cols; j++) fm->B_constr_(i, j) = bc[i * cols + j];
    fm->constr_least_sq_ = constr != 0; fm->nbeads_ = nbeads; fm->nframes_ = nframes; fm->frame_counter_ = frame_counter; fm->least_sq_offset_ = offset;
    fm->nblocks_ = 0; fm->has_existing_forces_ = false; fm->line_cntr_ = offset; fm->col_cntr_ = cols;
    g_seen = 0; g_wrote = 0; g_nblocks = -1;
    Topology top; top.CreateResidue("RES"); top.RegisterBeadType("A");
    for (long i = 0; i < nbeads; i++) { Bead* bd = top.CreateBead(Bead::spherical, "A", "A", 0, 1.0, 0.0); bd->setPos(Eigen::Vector3d(0, 0, 0)); bd->setF(Eigen::Vector3d(f[3 * i], f[3 * i + 1], f[3 * i + 2])); }
    fm->CGForceMatching::EvalConfiguration(&top, nullptr);   // non-virtual: the raw object has no vptr
    for (long i = 0; i < rows; i++) { outb[i] = fm->b_(i); accb[i] = g_b[i]; for (long j = 0; j < cols; j++) { outA[i * cols + j] = fm->A_(i, j); accA[i * cols + j] = g_A[i * cols + j]; } }
    for (long i = 0; i < crows; i++) for (long j = 0; j < cols; j++) outBc[i * cols + j] = fm->B_constr_(i, j);
    out[0] = fm->frame_counter_; out[1] = fm->nblocks_; out[2] = g_seen; out[3] = g_wrote; out[4] = g_nblocks;
    return 0;
  } catch (...) { return -1; }
}
