// C16 harness: canonicalisation leaves of the graph utilities: Edge and ReducedEdge
#include <string>
#include <vector>
#include <iostream>
#include <sstream>
#include <algorithm>
#include <cassert>
#define private public
#define protected public
#include "tools/src/libtools/edge.cc"
#include "tools/src/libtools/reducededge.cc"
#undef private
#undef protected
using namespace votca::tools;
#define H extern "C" __attribute__((noinline))
// out: [0] e1==e2, [1] e1<e2, [2] e2<e1, [3] EP1(e1), [4] EP2(e1), [5] other(a), [6] other(other(a)), [7] contains(a)&&contains(b), [8] e1!=e2
H void h_edge(long a, long b, long c, long d, long* out) {
  Edge e1(a, b), e2(c, d);
  out[0] = e1 == e2; out[1] = e1 < e2; out[2] = e2 < e1; out[3] = e1.getEndPoint1(); out[4] = e1.getEndPoint2();
  out[5] = e1.getOtherEndPoint(a); out[6] = e1.getOtherEndPoint(e1.getOtherEndPoint(a)); out[7] = e1.contains(a) && e1.contains(b); out[8] = e1 != e2;
}
// canonical chain and expansion of ReducedEdge(chain)
H long h_redge(const long* c, long n, long* chain, long* edges) {
  ReducedEdge r(std::vector<votca::Index>(c, c + n));
  std::vector<votca::Index> ch = r.getChain();
  for (size_t i = 0; i < ch.size(); i++) chain[i] = ch[i];
  std::vector<Edge> ex = r.expand();
  for (size_t i = 0; i < ex.size(); i++) { edges[2 * i] = ex[i].getEndPoint1(); edges[2 * i + 1] = ex[i].getEndPoint2(); }
  return (long)ex.size();
}
H long h_redge_eq(const long* c1, long n1, const long* c2, long n2) {
  ReducedEdge r1(std::vector<votca::Index>(c1, c1 + n1)), r2(std::vector<votca::Index>(c2, c2 + n2));
  return (r1 == r2) ? 1 : 0;
}

#ifdef VERIF_NATIVE
#include <cstdio>
#include <cstring>
#include <cstdlib>
int main(int argc, char** argv) {
  if (argc > 1 && !strcmp(argv[1], "edge")) {
    long o[9]; h_edge(atol(argv[2]), atol(argv[3]), atol(argv[4]), atol(argv[5]), o);
    for (int i = 0; i < 9; i++) printf("%ld ", o[i]); printf("\n"); return 0;
  }
  if (argc > 1 && !strcmp(argv[1], "redge_eq")) {
    long n1 = atol(argv[2]); long c1[16], c2[16];
    for (long i = 0; i < n1; i++) c1[i] = atol(argv[3 + i]);
    long n2 = atol(argv[3 + n1]);
    for (long i = 0; i < n2; i++) c2[i] = atol(argv[4 + n1 + i]);
    printf("%ld\n", h_redge_eq(c1, n1, c2, n2)); return 0;
  }
  if (argc > 1 && !strcmp(argv[1], "redge")) {
    long n = atol(argv[2]); long c[16], ch[16], ed[32];
    for (long i = 0; i < n; i++) c[i] = atol(argv[3 + i]);
    long k = h_redge(c, n, ch, ed);
    printf("%ld", k); for (long i = 0; i < n; i++) printf(" %ld", ch[i]); for (long i = 0; i < 2 * k; i++) printf(" %ld", ed[i]); printf("\n"); return 0;
  }
  return 2;
}
#endif
