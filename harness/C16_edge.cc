// C16 harness: canonicalisation leaves of the graph utilities: Edge and ReducedEdge
#include <string>
#include <vector>
#include <iostream>
#include <sstream>
#include <algorithm>
#include <cassert>
#define private public
#define protected public
#include "tools/src/libtools/edge.cc"
#include "tools/src/libtools/reducededge.cc"
#undef private
#undef protected
using namespace votca::tools;
#define H extern "C" __attribute__((noinline))
// out: [0] e1==e2, [1] e1<e2, [2] e2<e1, [3] EP1(e1), [4] EP2(e1), [5] other(a), [6] other(other(a)), [7] contains(a)&&contains(b), [8] e1!=e2
H void h_edge(long a, long b, long c, long d, long* out) {
  Edge e1(a, b), e2(c, d);
  out[0] = e1 == e2; out[1] = e1 < e2; out[2] = e2 < e1; out[3] = e1.getEndPoint1(); out[4] = e1.getEndPoint2();
  out[5] = e1.getOtherEndPoint(a); out[6] = e1.getOtherEndPoint(e1.getOtherEndPoint(a)); out[7] = e1.contains(a) && e1.contains(b); out[8] = e1 != e2;
}
// canonical chain and expansion of ReducedEdge(chain)
H long h_redge(const long* c, long n, long* chain, long* edges) {
  ReducedEdge r(std::vector<votca::Index>(c, c + n));
  std::vector<votca::Index> ch = r.getChain();
  for (size_t i = 0; i < ch.size(); i++) chain[i] = ch[i];
  std::vector<Edge> ex = r.expand();
  for (size_t i = 0; i < ex.size(); i++) { edges[2 * i] = ex[i].getEndPoint1(); edges[2 * i + 1] = ex[i].getEndPoint2(); }
  return (long)ex.size();
}
H long h_redge_eq(const long* c1, long n1, const long* c2, long n2) {
  ReducedEdge r1(std::vector<votca::Index>(c1, c1 + n1)), r2(std::vector<votca::Index>(c2, c2 + n2));
  return (r1 == r2) ? 1 : 0;
}
