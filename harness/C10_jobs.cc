// C10 harness: ProgObserver<vector<Job>> synchronisation step, job merge rule, thread-mutex bracketing, file-lock mode.
#include <string>
#include <vector>
#include <map>
#include <list>
#include <memory>
#include <sstream>
#include <complex>
#include <iostream>
#include <fstream>
#include <cstring>
#include <boost/program_options.hpp>
#include <boost/format.hpp>
#include <boost/interprocess/sync/file_lock.hpp>
#include <boost/date_time/posix_time/posix_time.hpp>
#include <Eigen/Dense>
#define private public
#define protected public
#include "tools/src/libtools/property.cc"
#include "xtp/src/libxtp/job.cc"
#include "xtp/src/libxtp/progressobserver.cc"
#undef private
#undef protected
using namespace votca::xtp;
typedef ProgObserver<std::vector<Job>> PO;
#define H extern "C" __attribute__((noinline))
alignas(16) static char po_buf[sizeof(PO)];
alignas(16) static char th_buf[sizeof(QMThread)];
// raw observer: only the fields the synchronisation step reads are initialised
H void* h_po_setup(long cache, long maxjobs, long restart_mode) {
  std::memset(po_buf, 0, sizeof po_buf); std::memset(th_buf, 0xff, sizeof th_buf);   // logger report level = -1: nothing is logged
  PO* po = reinterpret_cast<PO*>(po_buf);
  new (&po->lockFile_) std::string("L"); new (&po->progFile_) std::string("F");
  new (&po->jobs_) std::vector<Job>(); new (&po->jobsToProc_) std::vector<Job*>();
  new (&po->restart_hosts_) std::map<std::string, bool>(); new (&po->restart_stats_) std::map<std::string, bool>();
  po->cacheSize_ = cache; po->maxJobs_ = maxjobs; po->startJobsCount_ = 0; po->restartMode_ = restart_mode != 0; po->moreJobsAvailable_ = true;
  return po;
}
// ---- the "disk": job file and its backup as job vectors; LOAD_JOBS / WRITE_JOBS are redirected here by the checker ----
static std::vector<Job>* g_file = nullptr; static std::vector<Job>* g_backup = nullptr;
static long g_events[16]; static long g_nevents = 0;     // 1 = LOAD(file), 2 = WRITE(backup), 3 = WRITE(file)
H void* h_jobs_new() { return new std::vector<Job>(); }
H void h_jobs_add_full(void* v, long id, long status, long has_host, long hostch, long has_output, long has_error) {
  std::vector<Job>* jobs = reinterpret_cast<std::vector<Job>*>(v);
  votca::tools::Property input; input.add("input", "x");
  jobs->push_back(Job(id, "t", input, static_cast<Job::JobStatus>(status)));
  if (has_host) { std::string h(3, ':'); h[0] = (char)hostch; h[2] = '1'; jobs->back().setHost(h); }
  if (has_output) jobs->back().setOutput("o");
  if (has_error) { jobs->back().error_ = "e"; jobs->back().has_error_ = true; }
}
H void h_jobs_add(void* v, long id, long status, long has_host, long hostch) {
  std::vector<Job>* jobs = reinterpret_cast<std::vector<Job>*>(v);
  votca::tools::Property input;
  input.add("input", "x");
  jobs->push_back(Job(id, "t", input, static_cast<Job::JobStatus>(status)));
  if (has_host) { std::string h(3, ':'); h[0] = (char)hostch; h[2] = '1'; jobs->back().setHost(h); }
}
H long h_jobs_size(const void* v) { return (long)reinterpret_cast<const std::vector<Job>*>(v)->size(); }
// out: id, status, has_host, host[0], has_time, has_output, has_error
H void h_job_get(const void* v, long i, long* out) {
  const Job& j = (*reinterpret_cast<const std::vector<Job>*>(v))[i];
  out[0] = j.id_; out[1] = (long)j.status_; out[2] = j.has_host_; out[3] = j.has_host_ && j.host_.size() ? (unsigned char)j.host_[0] : 0; out[4] = j.has_time_; out[5] = j.has_output_; out[6] = j.has_error_;
}
H void h_disk_set(void* filev) { g_file = reinterpret_cast<std::vector<Job>*>(filev); g_backup = nullptr; g_nevents = 0; }
H void* h_disk_file() { return g_file; }
H void* h_disk_backup() { return g_backup; }
H long h_disk_event(long k) { return k < g_nevents ? g_events[k] : 0; }
H void h_load_impl(std::vector<Job>* out, const std::string* name) { new (out) std::vector<Job>(*g_file); g_events[g_nevents++] = (name->size() && name->back() == '~') ? 4 : 1; }
H void h_write_impl(const std::vector<Job>* jobs, const std::string* name) {
  bool bak = name->size() && name->back() == '~';
  std::vector<Job>* copy = new std::vector<Job>(*jobs);
  if (bak) g_backup = copy; else g_file = copy;
  g_events[g_nevents++] = bak ? 2 : 3;
}
H void h_po_set_jobs(void* pov, const void* v) { PO* po = reinterpret_cast<PO*>(pov); po->jobs_ = *reinterpret_cast<const std::vector<Job>*>(v); po->metajit_ = po->jobs_.begin(); }
H void* h_po_jobs(void* pov) { return &reinterpret_cast<PO*>(pov)->jobs_; }
H long h_po_ntoproc(void* pov) { return (long)reinterpret_cast<PO*>(pov)->jobsToProc_.size(); }
H long h_po_toproc(void* pov, long k) { PO* po = reinterpret_cast<PO*>(pov); return po->jobsToProc_[k] - &po->jobs_[0]; }
H void h_po_add_restart(void* pov, long which, long ch) { PO* po = reinterpret_cast<PO*>(pov); if (which == 0) { std::string h(3, ':'); h[0] = (char)ch; h[2] = '1'; po->restart_hosts_[h] = true; } else po->restart_stats_[ch == 2 ? "FAILED" : (ch == 1 ? "ASSIGNED" : "COMPLETE")] = true; }
H void h_po_sync(void* pov) { PO* po = reinterpret_cast<PO*>(pov); po->SyncWithProgFile(*reinterpret_cast<QMThread*>(th_buf)); }
H void h_po_lock(void* pov) { PO* po = reinterpret_cast<PO*>(pov); po->LockProgFile(*reinterpret_cast<QMThread*>(th_buf)); po->ReleaseProgFile(*reinterpret_cast<QMThread*>(th_buf)); }
H void* h_po_request(void* pov) { PO* po = reinterpret_cast<PO*>(pov); return po->RequestNextJob(*reinterpret_cast<QMThread*>(th_buf)); }
H void h_update(const std::vector<Job>* from, std::vector<Job>* to, const std::string* host) { UPDATE_JOBS(*from, *to, *host); }
H long h_sizeof_job() { return (long)sizeof(Job); }
H long h_off(long which) {
  switch (which) { case 0: return offsetof(Job, id_); case 1: return offsetof(Job, status_); case 2: return offsetof(Job, host_); case 3: return offsetof(Job, has_host_);
    case 4: return offsetof(Job, time_); case 5: return offsetof(Job, has_time_); case 6: return offsetof(Job, has_output_); case 7: return offsetof(Job, has_error_); case 8: return offsetof(Job, error_);
    case 9: return offsetof(Job, attemptsCount_); case 10: return offsetof(PO, jobs_); case 11: return offsetof(PO, jobsToProc_); case 12: return offsetof(PO, metajit_); case 13: return offsetof(PO, startJobsCount_); }
  return -1;
}
