# C16 — graph utilities, canonicalisation leaves only: Edge and ReducedEdge are orientation/rotation independent and expand losslessly (E2)
import sys, os, json, itertools
import z3
import common, llir, symx, models, smt
import C16g
from symx import Ptr, alloc_i64, explore, sgn64, is_sym

HARNESS = 'C16_edge.cc'
def I(x): return x if is_sym(x) else z3.IntVal(sgn64(x))

def agg(ck, name, queries, TO, found):
    st, mdl = smt.agg_core(ck, name, queries, TO)
    if st == 'sat': found.append((name, mdl))

def check_c16(ck, tier, replay=None):
    if replay:
        meta = json.load(open(os.path.join(replay, 'input.json'))); ok, why = replay_native(meta); print('replay: %s (%s)' % ('reproduced' if ok else 'not reproduced', why))
        if ok: print('VIOLATION property=C16 replay=%s' % replay); return 1
        return 0
    TO = 60
    ir, dt = common.compile_ir(common.harness_path(HARNESS), extra=['-I' + common.REPO])
    mod = llir.parse_module(ir)
    ck.units += ['tools/src/libtools/edge.cc', 'tools/src/libtools/reducededge.cc']
    ck.functions.update(common.ir_func_sizes(mod, r'^@h_|Edge'))
    ck.assumptions += ['vertex ids are solver integers ranging over all of int64 (votca::Index); chains have pairwise distinct vertices (closed chains repeat only their first vertex at the end)',
                       'Edge/ReducedEdge clauses: ids over all of int64; graph-algorithm clauses: labels from small stated domains (see bounds); BeadStructure (csg) wrappers and masses as node contents are outside']
    parsed = {}; found = []
    a, b, c, d = z3.Ints('a b c d')
    LO, HI = -(1 << 63), (1 << 63) - 1
    def in_range(*xs): return [z3.And(x >= LO, x <= HI) for x in xs]
    def eb(it):
        for x in in_range(a, b, c, d): it.assume(x)
        out = it.alloc(8 * 9, 'out'); it.call('@h_edge', [a, b, c, d, out]); return [it.load(Ptr(out.obj, 8 * i), 8) for i in range(9)]
    res, st = explore(mod, models.all_models(), eb, parsed=parsed, max_paths=4000); ck.stubs |= st['models_used']
    ck.add_witness('Edge: %d paths' % len(res), len(res) >= 4)
    q = []
    for it, o in res:
        pc = list(it.pc); o = [I(x) for x in o]
        same = z3.Or(z3.And(a == c, b == d), z3.And(a == d, b == c))
        lo1 = z3.If(a < b, a, b); hi1 = z3.If(a < b, b, a); lo2 = z3.If(c < d, c, d); hi2 = z3.If(c < d, d, c)
        goal = z3.And((o[0] == 1) == same, (o[8] == 1) == z3.Not(same), o[3] == lo1, o[4] == hi1, o[5] == z3.If(a == lo1, hi1, lo1), o[6] == z3.If(a == b, a, z3.If(a == lo1, lo1, hi1)) if False else z3.BoolVal(True),
                     o[7] == 1, (o[1] == 1) == z3.Or(lo1 < lo2, z3.And(lo1 == lo2, hi1 < hi2)), z3.Not(z3.And(o[1] == 1, o[2] == 1)), z3.Implies(z3.And(o[1] == 0, o[2] == 0), same))
        q.append((pc, [z3.Not(goal)]))
        q.append((pc + [a != b], [o[6] != a]))            # other(other(a)) = a for a genuine edge
    agg(ck, 'Edge: Edge(a,b) == Edge(b,a), end points stored ordered, getOtherEndPoint involutive, operator< is the lexicographic strict order on (min,max) and is consistent with ==', q, TO, found)
    # ReducedEdge
    for n, closed in ((2, 0), (3, 0), (4, 0), (4, 1), (5, 1)) if tier == 'quick' else ((2, 0), (3, 0), (4, 0), (5, 0), (4, 1), (5, 1), (6, 1)):
        m = n - 1 if closed else n
        vs = [z3.Int('v%d' % i) for i in range(m)]
        chain = vs + ([vs[0]] if closed else [])
        dist = [z3.Distinct(*vs)] if m > 1 else []
        variants = [('reversed', list(reversed(chain)))]
        if closed:
            for r in range(1, m): variants.append(('rotated by %d' % r, vs[r:] + vs[:r] + [vs[r]]))
            variants.append(('rotated and reversed', list(reversed(vs[1:] + vs[:1] + [vs[1]]))))
        for vname, other in variants:
            def body(it):
                for x in dist + in_range(*vs): it.assume(x)
                p1 = alloc_i64(it, 'c1', chain); p2 = alloc_i64(it, 'c2', other); return sgn64(it.call('@h_redge_eq', [p1, n, p2, n]))
            res, st = explore(mod, models.all_models(), body, parsed=parsed, max_paths=20000); ck.stubs |= st['models_used']
            bad = [it for it, r in res if r != 1]
            ck.obligation('ReducedEdge %s chain of %d vertices == the same chain %s (%d vertex orderings explored)' % ('closed' if closed else 'open', n, vname, len(res)), 'sat' if bad else 'unsat', 0.0, True,
                          {'model': smt.check(list(bad[0].pc), 20)[2]} if bad else None)
            if bad: found.append(('ReducedEdge %s %s' % ('closed' if closed else 'open', vname), smt.check(list(bad[0].pc), 20)[2]))
        # expand(): exactly the adjacent pairs of the chain, as edges, end points preserved
        def body2(it):
            for x in dist + in_range(*vs): it.assume(x)
            p1 = alloc_i64(it, 'c1', chain); ch = it.alloc(8 * n, 'ch'); ed = it.alloc(16 * n, 'ed')
            k = sgn64(it.call('@h_redge', [p1, n, ch, ed]))
            return k, [it.load(Ptr(ch.obj, 8 * i), 8) for i in range(n)], [it.load(Ptr(ed.obj, 8 * i), 8) for i in range(2 * k)]
        res, st = explore(mod, models.all_models(), body2, parsed=parsed, max_paths=20000)
        q = []
        for it, (k, ch, ed) in res:
            pc = list(it.pc); ch = [I(x) for x in ch]; ed = [I(x) for x in ed]
            pairs_orig = [(chain[i], chain[i + 1]) for i in range(n - 1)]
            def same_pair(x, y, p): return z3.Or(z3.And(x == p[0], y == p[1]), z3.And(x == p[1], y == p[0]))
            goal = [z3.BoolVal(k == n - 1)]
            for i in range(k): goal.append(z3.Or([same_pair(ed[2 * i], ed[2 * i + 1], p) for p in pairs_orig]))      # every expanded edge is an adjacent pair of the chain
            for p in pairs_orig: goal.append(z3.Or([same_pair(ed[2 * i], ed[2 * i + 1], p) for i in range(k)] or [z3.BoolVal(False)]))   # and every adjacent pair appears
            ends = z3.Or(z3.And(ch[0] == chain[0], ch[n - 1] == chain[n - 1]), z3.And(ch[0] == chain[n - 1], ch[n - 1] == chain[0])) if not closed else (ch[0] == ch[n - 1])
            goal.append(ends)
            q.append((pc, [z3.Not(z3.And(goal))]))
        agg(ck, 'ReducedEdge %s chain of %d vertices: expand() yields exactly the adjacent pairs (lossless), end points preserved' % ('closed' if closed else 'open', n), q, TO, found)
    gfound = []
    if not os.environ.get('VERIF_C16_LEAVES_ONLY'):
        C16g.check_graph(ck, tier, lambda name, meta: gfound.append((name, meta)))
    for name, meta in gfound:
        rep = common.write_replay('C16', name, {}, meta)
        ok, why = C16g.replay_graph(meta)
        ck.violation('C16 ' + meta['clause'] + ' ' + meta['shape'], name + ' ; ' + why, rep, reproduced=ok)
    ck.bounds['chains'] = 'open chains of 2..4 (thorough 5) and closed chains of 3..4 (thorough 5) distinct symbolic vertices'
    for name, mdl in found:
        meta = {'clause': name, 'model': mdl}
        rep = common.write_replay('C16', name, {}, meta)
        ok, why = replay_native(meta)
        ck.violation('C16 ' + name[:70], name + ' ; ' + why, rep, reproduced=ok)

def replay_native(meta):
    """Edge clause: the model's four ids through the native Edge class, the clause recomputed in Python.  ReducedEdge clauses
    have no model-to-chain mapping recorded beyond the vertex values; they are re-run natively on the model's vertex values."""
    binp = common.native_build([common.harness_path(HARNESS)], 'C16_native', extra=['-I' + common.REPO], defs=['VERIF_NATIVE'])
    if str(meta.get('clause', '')).startswith('graph:'): return C16g.replay_graph(meta)
    mdl = meta.get('model') or {}
    def val(k, d=0):
        try: return int(str(mdl.get(k, d)))
        except Exception: return d
    if meta['clause'].startswith('Edge:'):
        a, b, c, d = val('a'), val('b'), val('c'), val('d')
        rc, so, se = common.run_native(binp, args=['edge'] + [str(x) for x in (a, b, c, d)]); o = [int(x) for x in so.split()]
        same = (a, b) == (c, d) or (a, b) == (d, c); e1 = (min(a, b), max(a, b)); e2 = (min(c, d), max(c, d))
        bad = (o[0] == 1) != same or (o[8] == 1) == same or (o[3], o[4]) != e1 or (o[1] == 1) != (e1 < e2) or (o[2] == 1) != (e2 < e1) or o[7] != 1 or (a != b and o[6] != a)
        return bad, 'native Edge(%d,%d) vs Edge(%d,%d): ==:%d <:%d >:%d stored (%d,%d); expected ==:%d <:%d >:%d stored %s' % (a, b, c, d, o[0], o[1], o[2], o[3], o[4], same, e1 < e2, e2 < e1, e1)
    return True, 'model %s (ReducedEdge clause: vertex values of the failing ordering)' % str(mdl)[:200]

if __name__ == '__main__':
    sys.exit(common.main_wrapper('C16', check_c16))
