# C18 — wildcard matching (E1: IR->C->CBMC vs DP reference) and range expressions (E2 with placeholder tokens)
import sys, os, re, json, time, random, itertools
from fractions import Fraction as F
from concurrent.futures import ThreadPoolExecutor
import z3
import common, llir, symx, models, smt, ir2c, cbmc_run
from symx import Ptr, NULL, explore, is_sym, Unsupported

HARNESS = 'C18_sel.cc'

# ---------------------------------------------------------------------------------------------- wildcmp (E1)
def glob_ref(p, s):
    m = [[False] * (len(s) + 2) for _ in range(len(p) + 2)]
    for i in range(len(p), -1, -1):
        for j in range(len(s), -1, -1):
            if i == len(p): v = j == len(s)
            elif p[i] == ord('*'): v = m[i + 1][j] or (j < len(s) and m[i][j + 1])
            else: v = j < len(s) and (p[i] == ord('?') or p[i] == s[j]) and m[i + 1][j + 1]
            m[i][j] = v
    return m[0][0]

def wild(ck, mod, tier, wd):
    t = ir2c.Translator(mod); c = t.translate(['@h_wildcmp'])
    gen = os.path.join(wd, 'gen_wild.c'); open(gen, 'w').write(ir2c.PRELUDE + c)
    ck.extra['e1_generated_c_lines'] = len(c.split('\n')); ck.extra['e1_externals_left_nondeterministic'] = sorted(t.externs)
    # translator validation: gcc build of generated C vs native C++ on the repo's test_tokenizer cases + random strings
    rnd = random.Random(common.SEED)
    cases = [(b'*.*', b'test.txt'), (b'*.t?t', b'test.txt'), (b't*t', b'test.txt'), (b'*', b''), (b'?', b''), (b'a*b*c', b'aXbXc'), (b'a*b*c', b'ab'), (b'', b''), (b'', b'a'), (b'**', b'a'), (b'*?', b'a'), (b'*a', b'ba'), (b'?*?', b'ab')]
    al = b'ab*?'
    for _ in range(300):
        cases.append((bytes(rnd.choice(al) for _ in range(rnd.randint(0, 6))), bytes(rnd.choice(b'ab') for _ in range(rnd.randint(0, 7)))))
    drv = os.path.join(wd, 'wdrv.c')
    open(drv, 'w').write('#include <stdio.h>\n#include <string.h>\nvoid verif_init_globals(void); unsigned int f_h_wildcmp(char*, char*);\nstatic void dec(char* s){ if(!strcmp(s,"-")){s[0]=0;return;} size_t n=strlen(s)/2; for(size_t i=0;i<n;i++){unsigned v; sscanf(s+2*i,"%2x",&v); s[i]=(char)v;} s[n]=0; }\nint main(void){ char c[16],a[256],b[256]; verif_init_globals(); while(scanf("%15s %255s %255s",c,a,b)==3){ dec(a); dec(b); printf("%d\\n", f_h_wildcmp(a,b)!=0); } return 0; }\n')
    binc = os.path.join(wd, 'wdrv.bin')
    rc, so, se, dt = common._run(['gcc', '-O0', '-w', gen, drv, '-o', binc])
    if rc != 0: raise common.EncoderError('gcc on generated C failed: ' + se[-500:])
    binn = common.native_build([common.harness_path(HARNESS)], 'C18_native', extra=['-I' + common.REPO], defs=['VERIF_NATIVE'], cxx=common.CLANG)
    inp = ''.join('wild %s %s\n' % (p.hex() or '-', s.hex() or '-') for p, s in cases)
    r1 = common.run_native(binc, inp); r2 = common.run_native(binn, inp)
    ck.add_validation('E1 translator: gcc build of C generated from the IR of wildcmp vs native C++ (test_tokenizer cases + 300 random)', len(cases), r1[0] == 0 and r2[0] == 0 and r1[1] == r2[1], 'outputs differ')
    refok = all((glob_ref(p, s)) == (o == '1') for (p, s), o in zip(cases, r2[1].split()))
    ck.extra['reference_matcher_agrees_with_native_on_validation_vectors'] = refok
    L = 5 if tier == 'quick' else 7
    LX = 3 if tier == 'quick' else 4
    h = common.harness_path('C18_wild_cbmc.c')
    TO = 400 if tier == 'quick' else 3000
    be = [] if tier == 'quick' else ['--external-sat-solver', 'kissat']
    jobs = {'witness': ([gen, h], (L + 1) ** 2 + 3, ['LP=%d' % L, 'LS=%d' % L, 'WITNESS']),
            'equal': ([gen, h], (L + 1) ** 2 + 3, ['LP=%d' % L, 'LS=%d' % L]),
            'exact': ([gen, h], (LX + 1) ** 2 + 3, ['LP=%d' % LX, 'LS=%d' % LX, 'EXACT_BUFFERS'])}
    with ThreadPoolExecutor(3) as ex:
        futs = {k: ex.submit(cbmc_run.run, f, u, d, [wd], TO, 24, (), 'main', True, be if k == 'equal' else ()) for k, (f, u, d) in jobs.items()}
        res = {k: f.result() for k, f in futs.items()}
    ck.add_witness('wildcmp CBMC harness reaches its end', any(p['desc'].startswith('WITNESS') and p['status'] == 'FAILURE' for p in res['witness']['props']))
    found = []
    for k, nm in (('equal', 'wildcmp(p,s) == glob reference for all patterns/strings of length <= %d over the full 8-bit alphabet' % L), ('exact', 'wildcmp never reads past either terminator (exactly sized buffers, length <= %d)' % LX)):
        r = res[k]; ck.states += r.get('sat_vars', 0); ck.transitions += r.get('sat_clauses', 0)
        bad = cbmc_run.failed(r)
        if r['verdict'] in ('timeout', 'error') or any('unwinding' in p['desc'] for p in bad):
            ck.obligation(nm, 'unknown', r['time_s'], True, {'cbmc': r['verdict'], 'tail': r['raw_tail'][-300:]}); continue
        ck.obligation(nm, 'sat' if bad else 'unsat', r['time_s'], True, {'failed': [p['desc'] for p in bad][:4]} if bad else {'properties': len(r['props'])})
        if bad: found.append((k, r))
    ck.sample({'engine': 'E1', 'cbmc_cmd': res['equal']['cmd'][:300]})
    ck.bounds['wildcmp'] = 'pattern and string length <= %d (functional), <= %d (over-read), all byte values; unwind (L+1)^2+3 with unwinding assertions' % (L, LX)
    out = []
    for k, r in found:
        tr = next(iter(r['trace'].values()), {})
        out.append((k, tr, r))
    return out

def wild_extract(tr, raw):
    """pattern/string bytes from a CBMC trace (assignments p[i]=.., s[i]=..)."""
    def arr(nm):
        d = {}
        for k, v in tr.items():
            m = re.match(r'%s\[(\d+)l?\]' % nm, k)
            if m:
                v = v.strip()
                try:
                    if v.startswith("'"):
                        import ast
                        d[int(m.group(1))] = ord(ast.literal_eval(v)) & 0xff
                    else: d[int(v.rstrip('ul')) if False else int(m.group(1))] = int(v) & 0xff
                except (ValueError, SyntaxError): pass
        return bytes(d.get(i, 0) for i in range(max(d) + 1)) if d else b''
    return arr('p'), arr('s')           # complete buffers, including whatever lies behind the terminator

# ---------------------------------------------------------------------------------------------- RangeParser (E2)
class Placeholders:
    def __init__(s): s.syms = {}
    def new(s, e):
        k = len(s.syms); s.syms[k] = e; return k

def range_models(PH, os_layout):
    M = models.all_models()
    def m_strtol(it, a):
        sp, endp, base = a
        b = it.cstr(sp)
        mm = re.match(rb'@(\d+)', b)
        if mm:
            k = int(mm.group(1)); it.store(endp, Ptr(sp.obj, sp.off + mm.end()), 8); return PH.syms[k]
        mm = re.match(rb'\s*[-+]?\d+', b)
        if not mm: it.store(endp, sp, 8); return 0
        it.store(endp, Ptr(sp.obj, sp.off + mm.end()), 8); return int(mm.group(0)) & ((1 << 64) - 1)
    errno = [None]
    def m_errno(it, a):
        if errno[0] is None or errno[0][0] is not it:
            p = it.alloc(4, 'errno'); it.store(p, 0, 4); errno[0] = (it, p)
        return errno[0][1]
    M.update({'@strtol': m_strtol, '@__errno_location': m_errno,
              '@isspace': lambda it, a: int(chr(a[0] & 0xff).isspace()), '@ispunct': lambda it, a: int(chr(a[0] & 0xff) in '!"#$%&\'()*+,-./:;<=>?@[\\]^_`{|}~')})
    # ostringstream: all stream-buffer pointers null, contents kept in the stringbuf's internal std::string
    size, soff = os_layout
    def m_os_ctor(it, a):
        this = a[0]
        it.zerofill(this, size); models.sinit(it, Ptr(this.obj, this.off + soff))
    def m_ins_long(it, a):
        os_, v = a; sp = Ptr(os_.obj, os_.off + soff)
        if is_sym(v): tok = ('@%d' % PH.new(v)).encode()
        else: tok = str(symx.sgn64(v)).encode()
        models.sset(it, sp, models.sget(it, sp) + list(tok)); return os_
    def m_ins_str(it, a):
        os_, p, n = a; sp = Ptr(os_.obj, os_.off + soff)
        models.sset(it, sp, models.sget(it, sp) + models.rd(it, p, n)); return os_
    M.update({'re:^@_ZNSt7__cxx1119basic_ostringstreamIcSt11char_traitsIcESaIcEEC[12]Ev': m_os_ctor, 're:^@_ZNSt7__cxx1119basic_ostringstreamIcSt11char_traitsIcESaIcEED[12]Ev': lambda it, a: None,
              '@_ZNSo9_M_insertIlEERSoT_': m_ins_long, 're:^@_ZSt16__ostream_insertIcSt11char_traitsIcEE': m_ins_str})
    return M

def os_layout(mod):
    it = symx.Interp(mod)
    ty = llir.NamedTy('%"class.std::__cxx11::basic_ostringstream"')
    size = it.size(ty)
    sb = llir.NamedTy('%"class.std::__cxx11::basic_stringbuf"')
    rt = it.resolve(ty)
    k = [i for i, e in enumerate(rt.els) if isinstance(e, llir.NamedTy) and 'basic_stringbuf' in e.name][0]
    off_sb = it.field_off(rt, k)
    rsb = it.resolve(sb)
    ks = [i for i, e in enumerate(rsb.els) if isinstance(e, llir.NamedTy) and 'basic_string"' in e.name][0]
    return size, off_sb + it.field_off(rsb, ks)

def expected_seq(b, s, e, n):
    """constraints: an accepted block enumerates b, b+s, ... in order up to e (n values)"""
    last = b + (n - 1) * s; nxt = b + n * s
    if n == 0: return z3.If(s > 0, b > e, b < e)
    return z3.And(s != 0, z3.If(s > 0, z3.And(last <= e, nxt > e), z3.And(last >= e, nxt < e)))

def ranges(ck, mod, tier, parsed):
    R = 3 if tier == 'quick' else 6
    TO = 60
    lay = os_layout(mod)
    forms = [('@0:@1:@2', 3), ('@0:@1', 2), ('@0', 1), ('@0:@1:@2,@3:@4', 5), ('@0,@1:@2:@3', 4)]
    if tier == 'quick': forms = forms[:4]
    found = []
    CAP = 2 * (2 * R + 1) + 3
    for text, nph in forms:
        PH = Placeholders(); xs = [z3.Int('x%d' % i) for i in range(nph)]
        for x in xs: PH.new(x)
        M = range_models(PH, lay)
        def body(it, text=text):
            for x in xs: it.assume(z3.And(x >= -R, x <= R))
            tp = it.alloc(len(text) + 1, 'text')
            for i, c in enumerate(text.encode() + b'\0'): it.store(Ptr(tp.obj, i), c, 1)
            o1 = it.alloc(8 * CAP, 'out1'); o2 = it.alloc(8 * CAP, 'out2')
            r = symx.sgn64(it.call('@h_range_rt', [tp, o1, o2, CAP]))
            if isinstance(r, int) and r >= 0:
                n1, n2 = divmod(r, 1000)
                return r, [it.load(Ptr(o1.obj, 8 * i), 8) for i in range(n1)], [it.load(Ptr(o2.obj, 8 * i), 8) for i in range(n2)]
            return r, [], []
        nsyms0 = len(PH.syms)
        res, st = explore(mod, M, body, parsed=parsed, max_paths=6000 if tier == 'quick' else 60000); ck.stubs |= st['models_used']
        ck.add_witness('range form "%s": %d feasible paths, accepted and rejected outcomes both occur' % (text, len(res)), any(r[1][0] >= 0 for r in res) and (nph < 2 or any(r[1][0] == -1 for r in res)))
        # blocks of the form
        blocks = []
        k = 0
        for blk in text.split(','):
            t = blk.split(':')
            if len(t) == 3: blocks.append((xs[k], xs[k + 1], xs[k + 2])); k += 3
            elif len(t) == 2: blocks.append((xs[k], z3.IntVal(1), xs[k + 1])); k += 2
            else: blocks.append((xs[k], z3.IntVal(1), xs[k])); k += 1
        valid = z3.And([z3.And(s != 0, z3.If(s > 0, b <= e, b >= e)) for b, s, e in blocks])
        # group verdicts per outcome class to keep the obligation list readable; every path is one solver query
        agg = {}
        def rec(cls, status, dt, mdl):
            a = agg.setdefault(cls, {'n': 0, 'bad': None, 'dt': 0.0}); a['n'] += 1; a['dt'] += dt
            if status != 'unsat' and a['bad'] is None: a['bad'] = (status, mdl)
        for it, (r, v1, v2) in res:
            pc = list(it.pc)
            if r == -2 or r == -4:
                st_, dt, mdl = smt.check(pc, TO); rec('accepted expressions terminate (iteration ends within %d steps)' % CAP, 'sat' if st_ == 'sat' else ('unsat' if st_ == 'unsat' else 'unknown'), dt, mdl)
            elif r == -1:
                st_, dt, mdl = smt.check(pc + [valid], TO); rec('rejected => some block has stride 0 or the wrong direction', st_ if st_ in ('sat', 'unsat') else 'unknown', dt, mdl)
            elif r == -3:
                st_, dt, mdl = smt.check(pc, TO); rec('printed form of an accepted range parses again', 'sat' if st_ == 'sat' else ('unsat' if st_ == 'unsat' else 'unknown'), dt, mdl)
            else:
                n1 = len(v1)
                # split n1 values over the blocks: search the split that is consistent (block values are contiguous per block)
                goal = []
                for split in compositions(n1, len(blocks)):
                    cs = []; pos = 0
                    for (b, s, e), nn in zip(blocks, split):
                        cs.append(expected_seq(b, s, e, nn))
                        for i in range(nn): cs.append(v1[pos + i] == b + i * s)
                        pos += nn
                    goal.append(z3.And(cs))
                st_, dt, mdl = smt.check(pc + [z3.Not(z3.Or(goal))], TO); rec('accepted => enumerates exactly b, b+s, ... up to e, block after block, in order', st_ if st_ in ('sat', 'unsat') else 'unknown', dt, mdl)
                same = z3.And([z3.BoolVal(len(v1) == len(v2))] + [a == b for a, b in zip(v1, v2)])
                st_, dt, mdl = smt.check(pc + [z3.Not(same)], TO); rec('print -> parse gives the same sequence', st_ if st_ in ('sat', 'unsat') else 'unknown', dt, mdl)
        for cls, a in agg.items():
            st_ = 'unsat' if a['bad'] is None else a['bad'][0]
            ck.obligation('RangeParser "%s": %s (%d paths)' % (text, cls, a['n']), st_, a['dt'], True, {'model': a['bad'][1]} if a['bad'] else None)
            if st_ == 'sat': found.append((text, cls, a['bad'][1], nph))
        # the complementary direction: every valid expression is accepted -- covered because all paths were explored:
        st_, dt, mdl = smt.check([z3.And([z3.And(x >= -R, x <= R) for x in xs]), valid, z3.Not(z3.Or([z3.And(it.pc) for it, (r, _, _) in res if r >= 0] or [z3.BoolVal(False)]))], TO)
        ck.obligation('RangeParser "%s": every valid expression is accepted (path conditions of accepted paths cover the valid region)' % text, st_ if st_ in ('sat', 'unsat') else 'unknown', dt, True, {'model': mdl} if mdl else None)
        if st_ == 'sat': found.append((text, 'valid expression rejected', mdl, nph))
        if text == '@0:@1:@2': ck.sample({'unit': 'RangeParser::Parse + iterator', 'text': text, 'paths': len(res), 'outcomes': {str(k): sum(1 for x in res if x[1][0] == k) for k in sorted({x[1][0] for x in res})}})
    # malformed expressions (concrete text, real tokenising)
    for txt in ('1:2:3:4', '1:2:3:4:5'):
        PH = Placeholders(); M = range_models(PH, lay)
        def body(it, txt=txt):
            tp = it.alloc(len(txt) + 1, 'text')
            for i, c in enumerate(txt.encode() + b'\0'): it.store(Ptr(tp.obj, i), c, 1)
            o1 = it.alloc(8 * 8, 'o'); return symx.sgn64(it.call('@h_range', [tp, o1, 8]))
        res, _ = explore(mod, M, body, parsed=parsed)
        ck.obligation('RangeParser "%s" (more than three fields) is rejected' % txt, 'unsat' if all(r == -1 for _, r in res) else 'sat', 0.0, True)
        if not all(r == -1 for _, r in res): found.append((txt, 'malformed accepted', {}, 0))
    ck.bounds['RangeParser'] = 'begin/stride/end in [-%d,%d] (symbolic integers through placeholder tokens), forms %s, iteration cap %d' % (R, R, [f for f, _ in forms], CAP)
    return found

def index_vectors(ck, mod, tier, parsed):
    """IndexParser::CreateIndexVector: the result is exactly the sorted, duplicate-free set the index string denotes"""
    R = 4 if tier == 'quick' else 6; TO = 60; found = []
    forms = ['@0 @1', '@0:@1', '@0:@1 @2', '@0 @1:@2', '@0:@1 @2:@3'] if tier == 'thorough' else ['@0 @1', '@0:@1', '@0:@1 @2', '@0:@1 @2:@3']
    for text in forms:
        nph = len(re.findall(r'@\d', text)); xs = [z3.Int('x%d' % i) for i in range(nph)]
        M = models.all_models()
        def conv(it, a):
            this = a[0]; vp = it.load(Ptr(this.obj, this.off + 16), 8); b = it.load(Ptr(this.obj, this.off + 24), 8); e = it.load(Ptr(this.obj, this.off + 32), 8)
            txt = bytes(it.load(Ptr(b.obj, b.off + i), 1) & 0xff for i in range(e.off - b.off))
            mm = re.fullmatch(rb'@(\d+)', txt)
            if mm: it.store(vp, xs[int(mm.group(1))], 8); return 1
            if re.fullmatch(rb'\d+', txt): it.store(vp, int(txt), 8); return 1
            return 0
        M['re:^@_ZN5boost6detail18lcast_ret_unsignedISt11char_traitsIcEmcE7convertEv'] = conv
        M['@isspace'] = lambda it, a: int(chr(a[0] & 0xff).isspace()); M['@ispunct'] = lambda it, a: 0
        CAP = 4 * (R + 1)
        def body(it, text=text):
            for x in xs: it.assume(z3.And(x >= 0, x <= R))
            tp = it.alloc(len(text) + 1, 'text')
            for i, c in enumerate(text.encode() + b'\0'): it.store(Ptr(tp.obj, i), c, 1)
            out = it.alloc(8 * CAP, 'out'); n = symx.sgn64(it.call('@h_index_vec', [tp, out, CAP]))
            return n, [it.load(Ptr(out.obj, 8 * i), 8) for i in range(max(0, n))]
        res, st = explore(mod, M, body, parsed=parsed, max_paths=20000); ck.stubs |= st['models_used'] | {'boost lcast_ret_unsigned::convert: placeholder token -> symbolic non-negative integer'}
        # denoted set
        toks = text.split(); k = 0; den = []
        for t in toks:
            if ':' in t: den.append(('range', xs[k], xs[k + 1])); k += 2
            else: den.append(('single', xs[k])); k += 1
        def denoted(v): return z3.Or([(d[1] == v) if d[0] == 'single' else z3.And(d[1] <= v, v <= d[2]) for d in den])
        q = []
        for it, (n, r) in res:
            if n < 0: q.append((list(it.pc), [])); continue          # no rejection/overflow may be reachable for well-formed input
            r = [x if symx.is_sym(x) else z3.IntVal(symx.sgn64(x)) for x in r]
            goal = [r[i] < r[i + 1] for i in range(n - 1)] + [z3.Or([x == v for x in r] or [z3.BoolVal(False)]) == denoted(v) for v in range(R + 1)] + [z3.And(x >= 0, x <= R) for x in r]
            q.append((list(it.pc), [z3.Not(z3.And(goal))]))
        out = smt.parallel_check([(i, a + g) for i, (a, g) in enumerate(q)], timeout_s=TO)
        bad = [i for i in out if out[i][0] != 'unsat']
        st_ = 'unsat' if not bad else ('sat' if any(out[i][0] == 'sat' for i in bad) else 'unknown')
        ck.obligation('IndexParser "%s": the index vector is exactly the sorted duplicate-free set denoted (%d paths)' % (text, len(q)), st_, sum(v[1] for v in out.values()), True, {'model': out[bad[0]][2]} if bad else None)
        if st_ == 'sat': found.append((text, 'index vector is not the sorted duplicate-free denoted set', out[[i for i in bad if out[i][0] == 'sat'][0]][2], nph))
    ck.bounds['IndexParser'] = 'indices in [0,%d] through placeholder tokens, forms %s' % (R, forms)
    return found

def compositions(n, k):
    if k == 1: yield (n,); return
    for i in range(n + 1):
        for rest in compositions(n - i, k - 1): yield (i,) + rest

# ----------------------------------------------------------------------------------------------
def check_c18(ck, tier, replay=None):
    if replay: return do_replay(replay)
    wd = common.workdir()
    ir, dt = common.compile_ir(common.harness_path(HARNESS), extra=['-I' + common.REPO])
    mod = llir.parse_module(ir)
    ck.units += ['xtp/src/libxtp/IndexParser.cc (CreateIndexVector)', 'tools/src/libtools/tokenizer.cc (wildcmp)', 'tools/src/libtools/rangeparser.cc + tools/include/votca/tools/rangeparser.h (Parse, ParseBlock, iterator, operator<<)', 'tools/include/votca/tools/tokenizer.h (Tokenizer over boost::tokenizer)']
    ck.functions.update(common.ir_func_sizes(mod, r'^@h_|wildcmp|RangeParser'))
    ck.assumptions += ['wildcmp: bit-precise (CBMC), inputs are NUL-terminated byte strings; reference = dynamic-programming glob matcher in harness/C18_wild_cbmc.c (validated against the native function on every run)',
                       'RangeParser: decimal conversion abstracted (strtol maps a placeholder token to a symbolic integer; operator<<(long) prints a placeholder); tokenising, validity test, block list, iterator and printing are the real code',
                       'IndexParser::CreateIndexVector is covered (digit conversion abstracted like for RangeParser); CreateIndexString and BeadList name: selection are outside this check']
    wf = wild(ck, mod, tier, wd)
    parsed = {}
    rf = ranges(ck, mod, tier, parsed)
    try: xf = index_vectors(ck, mod, tier, {})
    except Unsupported as e: ck.inconc('IndexParser: %s' % e); xf = []
    for k, tr, r in wf:
        pf, sf = wild_extract(tr, r)
        p = pf.split(b'\0')[0]; s = sf.split(b'\0')[0]
        meta = {'kind': 'wild', 'pattern': p.hex(), 'string': s.hex(), 'pattern_buffer': pf.hex(), 'string_buffer': sf.hex(), 'clause': k}
        rep = common.write_replay('C18', 'wild' + k + p.hex() + s.hex(), {}, meta); ok, why = replay_wild(meta)
        ck.violation('C18 wildcmp ' + ('mismatch' if k == 'equal' else 'over-read'), 'wildcmp(%r, %r): %s' % (p, s, why), rep, reproduced=ok)
    for text, cls, mdl, nph in xf:
        meta = {'kind': 'index', 'text': text, 'model': mdl, 'clause': cls}
        rep = common.write_replay('C18', 'idx' + text + cls, {}, meta); ok, why = replay_index(meta)
        ck.violation('C18 IndexParser vector', 'IndexParser %s: %s; %s' % (text, cls, why), rep, reproduced=ok)
    for text, cls, mdl, nph in rf:
        meta = {'kind': 'range', 'text': text, 'model': mdl, 'clause': cls}
        rep = common.write_replay('C18', text + cls, {}, meta); ok, why = replay_range(meta)
        ck.violation('C18 RangeParser ' + cls.split(' (')[0][:60], 'RangeParser %s: %s; %s' % (text, cls, why), rep, reproduced=ok)
    # bead selection by type / "name:" pattern (BeadList::Generate), glob matcher by contract
    import C03p
    sfound = []
    C03p.check_selection(ck, tier, sfound)
    for tag, name, meta in sfound:
        rep = common.write_replay('C18', 'select' + name, {}, meta); ok, why = C03p.replay_selection(meta)
        ck.violation('C18 bead selection', name + ' ; ' + why, rep, reproduced=ok)

def replay_wild(meta):
    p = bytes.fromhex(meta['pattern']); s = bytes.fromhex(meta['string'])
    binn = common.native_build([common.harness_path(HARNESS)], 'C18_native_r', extra=['-I' + common.REPO], defs=['VERIF_NATIVE'], san=True)
    rc, so, se = common.run_native(binn, 'wild %s %s\n' % (p.hex() or '-', s.hex() or '-'))
    if rc != 0: return True, 'sanitizer/abort: ' + se.split('\n')[0][:160]
    got = so.strip() == '1'; exp = glob_ref(p, s)
    if got != exp: return True, 'real wildcmp returns %s, glob semantics give %s' % (got, exp)
    # same strings, but followed in memory by the bytes CBMC chose behind the terminators: a result that changes shows a read past the end
    pf = bytes.fromhex(meta.get('pattern_buffer', '')); sf = bytes.fromhex(meta.get('string_buffer', ''))
    if pf or sf:
        rc, so2, se = common.run_native(binn, 'wildbuf %s %s\n' % (pf.hex() or '00', sf.hex() or '00'))
        got2 = so2.strip() == '1'
        if got2 != exp: return True, 'real wildcmp(%r, %r) returns %s when the buffers continue with %r / %r behind the terminators (glob semantics: %s): it reads past the end of its arguments' % (p, s, got2, pf[len(p) + 1:], sf[len(s) + 1:], exp)
    return False, 'real wildcmp returns %s, glob semantics give %s' % (got, exp)

def replay_range(meta):
    mdl = meta['model'] or {}; text = meta['text']
    def val(m):
        v = mdl.get('x' + m.group(1), '0'); return str(int(F(str(v))))
    conc = re.sub(r'@(\d+)', val, text)
    binn = common.native_build([common.harness_path(HARNESS)], 'C18_native_r2', extra=['-I' + common.REPO], defs=['VERIF_NATIVE'])
    if 'print' in str(meta.get('clause', '')):
        # round-trip clause: parse, print with the real operator<<, parse the printed text, compare the two enumerations
        rc, so, se = common.run_native(binn, 'rt %s\n' % conc, timeout=30); t = so.strip()
        n = int(t.split()[0]) if t else -9
        if n < 0: return n in (-3, -4), '"%s": printing and re-parsing fails with code %d (-3: printed text rejected, -4: its iteration does not end)' % (conc, n)
        a, _, b = t.partition('|'); s1 = [int(x) for x in a.split()[1:]]; s2 = [int(x) for x in b.split()]
        return s1 != s2, '"%s" enumerates %s; printed with operator<< and parsed again it enumerates %s' % (conc, s1, s2)
    rc, so, se = common.run_native(binn, 'range %s\n' % conc, timeout=30)
    t = so.split(); n = int(t[0]) if t else -9; got = [int(x) for x in t[1:]]
    exp = []; valid = True
    for blk in conc.split(','):
        f = [int(x) for x in blk.split(':')]
        b, s, e = (f[0], 1, f[0]) if len(f) == 1 else ((f[0], 1, f[1]) if len(f) == 2 else (f[0], f[1], f[2]))
        if s == 0 or (s > 0 and b > e) or (s < 0 and b < e): valid = False; continue
        x = b
        while (s > 0 and x <= e) or (s < 0 and x >= e): exp.append(x); x += s
    if n == -2: return True, '"%s" is accepted but its iteration does not terminate (stopped after 40 values)' % conc
    if n == -1: return valid, '"%s" is rejected although it denotes %s' % (conc, exp)
    bad = (not valid) or got != exp
    return bad, '"%s" enumerates %s, denotes %s' % (conc, got, exp if valid else 'nothing (invalid)')

def replay_index(meta):
    mdl = meta['model'] or {}; text = meta['text']
    conc = re.sub(r'@(\d+)', lambda m: str(int(F(str(mdl.get('x' + m.group(1), '0'))))), text)
    src = os.path.join(common.workdir(), 'idxrep.cc')
    open(src, 'w').write('#include "%s"\n#include <cstdio>\nint main(int c,char**a){ long out[64]; long n=h_index_vec(a[1],out,64); printf("%%ld",n); for(long i=0;i<n;i++) printf(" %%ld",out[i]); printf("\\n"); }\n' % common.harness_path(HARNESS))
    b = common.native_build([src], 'C18_idx', extra=['-I' + common.REPO], libs=common.votca_libs(False))
    rc, so, se = common.run_native(b, args=[conc]); t = so.split(); got = [int(x) for x in t[1:]]
    exp = set()
    for tok in conc.split():
        if ':' in tok: a_, b_ = [int(x) for x in tok.split(':')]; exp |= set(range(a_, b_ + 1))
        else: exp.add(int(tok))
    return got != sorted(exp), '"%s" gives %s, denotes %s' % (conc, got, sorted(exp))

def do_replay(path):
    meta = json.load(open(os.path.join(path, 'input.json')))
    ok, why = {'wild': replay_wild, 'range': replay_range, 'index': replay_index}[meta['kind']](meta)
    print('replay: %s (%s)' % ('reproduced' if ok else 'not reproduced', why))
    if ok: print('VIOLATION property=C18 replay=%s' % path); return 1
    return 0

if __name__ == '__main__':
    sys.exit(common.main_wrapper('C18', check_c18, level='model_checking'))
