# C20 — unit conversions and constants (E2: enum arguments symbolic, switch tables as ite chains; z3 over exact rationals)
import sys, os, re, json, time
from fractions import Fraction as F
import z3
import common, llir, symx, models, smt
from symx import explore

HARNESS = 'C20_units.cc'
# SI magnitude of one unit, by enumerator name (CODATA 2018 / SI exact values); calorie = thermochemical (4.184 J)
EV = F('1.602176634e-19'); HA = F('4.3597447222071e-18'); BOHR = F('5.29177210903e-11'); AMU = F('1.66053906660e-27'); KCAL = F(4184)
SI = {
 'DistanceUnit': {'meters': F(1), 'centimeters': F(1, 100), 'nanometers': F(1, 10**9), 'angstroms': F(1, 10**10), 'bohr': BOHR},
 'TimeUnit': {'seconds': F(1), 'microseconds': F(1, 10**6), 'nanoseconds': F(1, 10**9), 'femtoseconds': F(1, 10**15), 'picoseconds': F(1, 10**12)},
 'MassUnit': {'attograms': F(1, 10**21), 'picograms': F(1, 10**15), 'femtograms': F(1, 10**18), 'atomic_mass_units': AMU, 'grams_per_mole': AMU, 'kilograms': F(1), 'grams': F(1, 1000)},
 'EnergyUnit': {'electron_volts': EV, 'kilocalories': KCAL, 'hartrees': HA, 'joules': F(1), 'kilojoules': F(1000)},
 'MolarEnergyUnit': {'kilojoules_per_mole': F(1000), 'joules_per_mole': F(1), 'kilocalories_per_mole': KCAL, 'electron_volts_per_mole': EV, 'hartrees_per_mole': HA},
 'ChargeUnit': {'e': EV, 'coulombs': F(1)},
 'VelocityUnit': {'angstroms_per_femtosecond': F(10**5), 'angstroms_per_picosecond': F(100), 'nanometers_per_picosecond': F(1000)},
 'ForceUnit': {'kilocalories_per_angstrom': KCAL * 10**10, 'newtons': F(1), 'kilojoules_per_nanometer': F(10**12), 'kilojoules_per_angstrom': F(10**13), 'hatree_per_bohr': HA / BOHR},
 'MolarForceUnit': {'kilocalories_per_mole_angstrom': KCAL * 10**10, 'newtons_per_mole': F(1), 'kilojoules_per_mole_nanometer': F(10**12), 'kilojoules_per_mole_angstrom': F(10**13), 'hatree_per_mole_bohr': HA / BOHR},
}
FN = {'DistanceUnit': 'dist', 'TimeUnit': 'time', 'MassUnit': 'mass', 'EnergyUnit': 'energy', 'MolarEnergyUnit': 'menergy', 'ChargeUnit': 'charge', 'VelocityUnit': 'vel', 'ForceUnit': 'force', 'MolarForceUnit': 'mforce'}
# derived unit -> (numerator enum type, name), (denominator enum type, name)
DERIVED = {
 'VelocityUnit': {'angstroms_per_femtosecond': (('DistanceUnit', 'angstroms'), ('TimeUnit', 'femtoseconds')), 'angstroms_per_picosecond': (('DistanceUnit', 'angstroms'), ('TimeUnit', 'picoseconds')), 'nanometers_per_picosecond': (('DistanceUnit', 'nanometers'), ('TimeUnit', 'picoseconds'))},
 'ForceUnit': {'kilocalories_per_angstrom': (('EnergyUnit', 'kilocalories'), ('DistanceUnit', 'angstroms')), 'newtons': (('EnergyUnit', 'joules'), ('DistanceUnit', 'meters')), 'kilojoules_per_nanometer': (('EnergyUnit', 'kilojoules'), ('DistanceUnit', 'nanometers')), 'kilojoules_per_angstrom': (('EnergyUnit', 'kilojoules'), ('DistanceUnit', 'angstroms')), 'hatree_per_bohr': (('EnergyUnit', 'hartrees'), ('DistanceUnit', 'bohr'))},
 'MolarForceUnit': {'kilocalories_per_mole_angstrom': (('MolarEnergyUnit', 'kilocalories_per_mole'), ('DistanceUnit', 'angstroms')), 'newtons_per_mole': (('MolarEnergyUnit', 'joules_per_mole'), ('DistanceUnit', 'meters')), 'kilojoules_per_mole_nanometer': (('MolarEnergyUnit', 'kilojoules_per_mole'), ('DistanceUnit', 'nanometers')), 'kilojoules_per_mole_angstrom': (('MolarEnergyUnit', 'kilojoules_per_mole'), ('DistanceUnit', 'angstroms')), 'hatree_per_mole_bohr': (('MolarEnergyUnit', 'hartrees_per_mole'), ('DistanceUnit', 'bohr'))},
}
KB_EV = F('1.380649e-23') / EV; HBAR_EVS = F('1.054571817e-34') / EV; NA = F('6.02214076e23')
CONSTS = [  # index in h_const, name, reference value, alternative accepted values
 (0, 'kB [eV/K]', KB_EV, []), (1, 'hbar [eV s]', HBAR_EVS, []), (2, 'bohr2nm', BOHR * 10**9, []), (3, 'nm2bohr', 1 / (BOHR * 10**9), []),
 (4, 'ang2bohr', 1 / (BOHR * 10**10), []), (5, 'bohr2ang', BOHR * 10**10, []), (6, 'nm2ang', F(10), []), (7, 'ang2nm', F(1, 10), []),
 (8, 'hrt2ev', HA / EV, []), (9, 'ev2hrt', EV / HA, []), (10, 'ev2kj_per_mol', EV * NA / 1000, []),
 (11, 'kcal2kj', F('4.184'), [F('4.1868')]), (12, 'kj2kcal', 1 / F('4.184'), [1 / F('4.1868')]),
]
TOL = F(1, 10**4)

def parse_enums():
    txt = open(common.REPO + '/tools/include/votca/tools/unitconverter.h').read()
    txt = re.sub(r'//[^\n]*', '', txt); txt = re.sub(r'/\*.*?\*/', '', txt, flags=re.S)
    out = {}
    for m in re.finditer(r'enum\s+(?:class\s+)?(\w+)\s*\{([^}]*)\}', txt):
        names = [x.strip().split('=')[0].strip() for x in m.group(2).split(',') if x.strip()]
        out[m.group(1)] = names
    return out

def ite_table(idx, vals):
    e = z3.RealVal(vals[-1])
    for k in range(len(vals) - 2, -1, -1): e = z3.If(idx == k, z3.RealVal(vals[k]), e)
    return e

CASE_SPLIT = set()
def sym_convert(mod, fn, n, a, b, parsed):
    """convert(a,b) with the enum arguments as solver variables.  Normally the switch tables become ite chains and one path
    covers all pairs; if the conversion is no longer table-shaped (loops or branches on the arguments) and the symbolic run
    exceeds its budget, the arguments are case-split (one run per ordered pair, still discharged by the solver per case)."""
    def body(it):
        it.table_ite = True; it.max_instr = 2_000_000
        it.assume(z3.And(a >= 0, a < n, b >= 0, b < n))
        return it.call('@h_' + fn, [a, b])
    try:
        return explore(mod, models.all_models(), body, parsed=parsed, max_paths=300, timeout=60)
    except symx.Unsupported:
        CASE_SPLIT.add(fn)
        results = []; stats = {'models_used': set(), 'paths': 0}
        for i in range(n):
            for j in range(n):
                def body2(it, i=i, j=j):
                    it.max_instr = 2_000_000
                    it.assume(z3.And(a == i, b == j)); return it.call('@h_' + fn, [i, j])
                r, st = explore(mod, models.all_models(), body2, parsed=parsed, max_paths=50, timeout=30)
                results.append((i, j, r)); stats['models_used'] |= st['models_used']; stats['paths'] += st['paths']
        if all(len(r) == 1 for _, _, r in results):
            # one value per ordered pair: fold the cases back into a single expression over (a, b)
            e = None
            for i, j, r in results:
                v = r[0][1]; v = v if z3.is_expr(v) else z3.RealVal(v)
                e = v if e is None else z3.If(z3.And(a == i, b == j), v, e)
            class _P: pc = []
            return [(_P(), e)], stats
        return [(it_, (v if z3.is_expr(v) else z3.RealVal(v))) for _, _, r in results for it_, v in r], stats

def check_c20(ck, tier, replay=None):
    if replay: return do_replay(replay)
    TO = 60
    ir, dt = common.compile_ir(common.harness_path(HARNESS), extra=['-I' + common.REPO])
    mod = llir.parse_module(ir)
    ck.units += ['tools/include/votca/tools/unitconverter.h (nine UnitConverter::convert overloads, get*Value_ tables)', 'tools/include/votca/tools/constants.h (tools::conv)', 'csg/include/votca/csg/units.h (CsgUnits)', 'csg/src/libcsg/modules/io/lammpsdumpreader.cc (factors used)']
    ck.functions.update(common.ir_func_sizes(mod, r'^@h_'))
    ck.functions['switch tables'] = len([g for g in mod.globals if 'switch.table' in g])
    enums = parse_enums()
    parsed = {}
    # encoder validation: every pair, natively
    binp = common.native_build([common.harness_path(HARNESS)], 'C20_native', extra=['-I' + common.REPO], defs=['VERIF_NATIVE'], cxx=common.CLANG)
    lines = []
    for ty, fn in FN.items():
        n = len(enums[ty])
        lines += ['%s %d %d' % (fn, i, j) for i in range(n) for j in range(n)]
    lines += ['const %d 0' % k for k in range(14)] + ['csgunit %d 0' % k for k in range(7)]
    rc, so, se = common.run_native(binp, '\n'.join(lines) + '\n')
    nat = [float.fromhex(x) for x in so.split()]; bad = 0
    for ln, nv in zip(lines, nat):
        t = ln.split()
        def body(it):
            if t[0] == 'const': return it.call('@h_const', [int(t[1])])
            if t[0] == 'csgunit': return float(symx.sgn64(it.call('@h_csgunit', [int(t[1])])) & 0xffffffff)
            return it.call('@h_' + t[0], [int(t[1]), int(t[2])])
        r, _ = explore(mod, models.all_models(), body, fpmode='float', parsed=parsed)
        if float(r[0][1]).hex() != nv.hex(): bad += 1; print('  validation mismatch', ln, r[0][1], nv)
    ck.add_validation('interpreter(float mode) vs native build: all enum pairs of the nine convert overloads, conv constants, CsgUnits', len(lines), bad == 0, '%d mismatches' % bad)
    # ---------------- symbolic enum arguments ----------------
    a, b, c = z3.Ints('a b c')
    conv_expr = {}
    for ty, fn in FN.items():
        names = enums[ty]; n = len(names)
        missing = [x for x in names if x not in SI[ty]]
        if missing: ck.inconc('enumerators %s of %s have no reference value in the checker' % (missing, ty)); continue
        si = [SI[ty][x] for x in names]
        rab, st = sym_convert(mod, fn, n, a, b, parsed); ck.stubs |= st['models_used']
        ck.add_witness('%s: convert explored (%d path(s))' % (ty, len(rab)), len(rab) >= 1)
        rba, _ = sym_convert(mod, fn, n, b, a, parsed); rbc, _ = sym_convert(mod, fn, n, b, c, parsed); rac, _ = sym_convert(mod, fn, n, a, c, parsed)
        rng = [a >= 0, a < n, b >= 0, b < n, c >= 0, c < n]
        free = z3.Real('free')
        # the exploration may fork (guards, selects); obligations are discharged per combination of paths
        def allpc(*rs): return [x for r in rs for x in r[0].pc]
        k = 0
        for pab in rab:
            eab = pab[1]
            smt.prove(ck, '%s: convert(a,b) > 0 for all a,b' % ty, rng + allpc(pab), [z3.Not(eab > 0)], TO, probe=[z3.Not(free > 0)])
            sa = ite_table(a, si); sb = ite_table(b, si)
            st_, mdl = smt.prove(ck, '%s: |convert(a,b)*SI(b) - SI(a)| <= 1e-4 SI(a) for all a,b' % ty, rng + allpc(pab), [z3.Not(z3.And(eab * sb - sa <= TOL * sa, sa - eab * sb <= TOL * sa))], TO,
                                 probe=rng + [z3.Not(z3.And(free * sb - sa <= TOL * sa, sa - free * sb <= TOL * sa))])
            if st_ == 'sat': note_violation(ck, ty, names, mdl, 'SI value', 'pair')
            for pba in rba:
                st_, mdl = smt.prove(ck, '%s: convert(a,b)*convert(b,a) == 1 for all a,b' % ty, rng + allpc(pab, pba), [eab * pba[1] != 1], TO, probe=rng + [free * pba[1] != 1] + allpc(pba))
                if st_ == 'sat': note_violation(ck, ty, names, mdl, 'round trip', 'pair')
            for pbc in rbc:
                for pac in rac:
                    st_, mdl = smt.prove(ck, '%s: convert(a,b)*convert(b,c) == convert(a,c) for all a,b,c' % ty, rng + allpc(pab, pbc, pac), [eab * pbc[1] != pac[1]], TO, probe=rng + [free * pbc[1] != pac[1]] + allpc(pbc, pac))
                    if st_ == 'sat': note_violation(ck, ty, names, mdl, 'transitivity', 'triple')
        conv_expr[ty] = (rab, names)
        ck.sample({'dimension': ty, 'enumerators': names, 'convert(a,b)': str(z3.simplify(rab[0][1]) if z3.is_expr(rab[0][1]) else rab[0][1])[:300]})
    # ---------------- derived units equal the quotient of the base conversions (to 2^-50 relative) ----------------
    EPS = F(1, 2**50)
    for ty, comp in DERIVED.items():
        names = enums[ty]; n = len(names)
        if any(x not in comp for x in names): ck.inconc('derived unit table of the checker does not cover %s' % ty); continue
        rab, _ = sym_convert(mod, FN[ty], n, a, b, parsed)
        def comp_idx(idx, pos):
            # enumerator index of the numerator/denominator unit of derived unit #idx
            vals = [enums[comp[x][pos][0]].index(comp[x][pos][1]) for x in names]
            e = z3.IntVal(vals[-1])
            for k in range(len(vals) - 2, -1, -1): e = z3.If(idx == k, vals[k], e)
            return e
        nty = comp[names[0]][0][0]; dty = comp[names[0]][1][0]
        na, nb_, da, db = z3.Ints('na nb da db')
        rn, _ = sym_convert(mod, FN[nty], len(enums[nty]), na, nb_, parsed); rd, _ = sym_convert(mod, FN[dty], len(enums[dty]), da, db, parsed)
        link = [na == comp_idx(a, 0), nb_ == comp_idx(b, 0), da == comp_idx(a, 1), db == comp_idx(b, 1), a >= 0, a < n, b >= 0, b < n]
        for pab in rab:
            for pn in rn:
                for pd in rd:
                    q = pn[1] / pd[1]
                    st_, mdl = smt.prove(ck, '%s: convert(a,b) == convert_%s(num)/convert_%s(den) within 2^-50' % (ty, nty, dty), link + list(pab[0].pc) + list(pn[0].pc) + list(pd[0].pc),
                              [z3.Not(z3.And(pab[1] - q <= EPS * q, q - pab[1] <= EPS * q))], TO, probe=link + [z3.Real('free') != q] + list(pn[0].pc) + list(pd[0].pc))
                    if st_ == 'sat': note_violation(ck, ty, names, mdl, 'derived quotient', 'pair')
    # ---------------- constants: CODATA and cross-consistency (ground obligations, still discharged by the solver) ----------------
    cv = {}
    for k, nm, ref, alts in CONSTS + [(13, 'Pi', F('3.14159265358979323846'), [])]:
        r, _ = explore(mod, models.all_models(), lambda it: it.call('@h_const', [k]), parsed=parsed)
        v = r[0][1]; cv[nm] = v
        ok = z3.Or([z3.And(z3.RealVal(v) - x <= TOL * x, x - z3.RealVal(v) <= TOL * x) for x in [ref] + alts])
        st_, mdl = smt.prove(ck, 'constant %s = %s within 1e-4 of the reference %s' % (nm, float(v), [float(x) for x in [ref] + alts]), [], [z3.Not(ok)], TO, probe=[z3.Real('free') != z3.RealVal(ref)])
        if st_ == 'sat': ck.violation('C20 constant %s vs CODATA' % nm, 'conv::%s = %r differs from the reference %r by more than 1e-4' % (nm, float(v), float(ref)), common.write_replay('C20', nm, {}, {'constant': nm, 'value': float(v), 'ref': float(ref)}))
    def close(x, y, tol): return z3.And(z3.RealVal(x) - z3.RealVal(y) <= tol * z3.RealVal(y), z3.RealVal(y) - z3.RealVal(x) <= tol * z3.RealVal(y))
    def uc(ty, frm, to):
        names = enums[ty]; r, _ = explore(mod, models.all_models(), lambda it: it.call('@h_' + FN[ty], [names.index(frm), names.index(to)]), parsed=parsed); return r[0][1]
    pairs = [('nm2bohr', cv['nm2bohr'], 'UnitConverter nm->bohr', uc('DistanceUnit', 'nanometers', 'bohr')), ('ang2bohr', cv['ang2bohr'], 'UnitConverter ang->bohr', uc('DistanceUnit', 'angstroms', 'bohr')),
             ('bohr2nm', cv['bohr2nm'], 'UnitConverter bohr->nm', uc('DistanceUnit', 'bohr', 'nanometers')), ('hrt2ev', cv['hrt2ev'], 'UnitConverter hartree->eV', uc('EnergyUnit', 'hartrees', 'electron_volts')),
             ('ev2hrt', cv['ev2hrt'], 'UnitConverter eV->hartree', uc('EnergyUnit', 'electron_volts', 'hartrees')), ('kcal2kj', cv['kcal2kj'], 'UnitConverter kcal->kJ', uc('EnergyUnit', 'kilocalories', 'kilojoules')),
             ('kj2kcal', cv['kj2kcal'], 'UnitConverter kJ->kcal', uc('EnergyUnit', 'kilojoules', 'kilocalories')), ('kcal2kj', cv['kcal2kj'], 'UnitConverter kcal/mol->kJ/mol', uc('MolarEnergyUnit', 'kilocalories_per_mole', 'kilojoules_per_mole')),
             ('nm2ang', cv['nm2ang'], 'UnitConverter nm->ang', uc('DistanceUnit', 'nanometers', 'angstroms')), ('ang2nm', cv['ang2nm'], 'UnitConverter ang->nm', uc('DistanceUnit', 'angstroms', 'nanometers')),
             ('ev2kj_per_mol', cv['ev2kj_per_mol'], 'UnitConverter eV->kJ times N_A', uc('EnergyUnit', 'electron_volts', 'kilojoules') * NA)]
    for nm, x, nm2, y in pairs:
        st_, mdl = smt.prove(ck, 'same quantity, two places: conv::%s (%.9g) vs %s (%.9g) agree to 1e-4' % (nm, float(x), nm2, float(y)), [], [z3.Not(close(x, y, TOL))], TO, probe=[z3.Real('free') != z3.RealVal(y)])
        if st_ == 'sat':
            rep = common.write_replay('C20', nm + nm2, {}, {'a': nm, 'a_value': float(x), 'b': nm2, 'b_value': float(y), 'kind': 'cross'})
            ck.violation('C20 conv::%s disagrees with %s' % (nm, nm2.split(' ')[0] + ' ' + nm2.split(' ')[1]), 'conv::%s = %.9g but %s = %.9g (relative difference %.2e > 1e-4)' % (nm, float(x), nm2, float(y), abs(float(x) - float(y)) / float(y)), rep)
    recips = [('bohr2nm', 'nm2bohr'), ('ang2bohr', 'bohr2ang'), ('nm2ang', 'ang2nm'), ('hrt2ev', 'ev2hrt'), ('kcal2kj', 'kj2kcal')]
    for p, q in recips:
        st_, _ = smt.prove(ck, 'reciprocal pair conv::%s * conv::%s == 1 within 1e-4 (same quantity, four significant digits)' % (p, q), [], [z3.Not(close(cv[p] * cv[q], F(1), TOL))], TO, probe=[z3.Real('free') != 1])
        if st_ == 'sat': ck.violation('C20 reciprocal %s %s' % (p, q), 'conv::%s * conv::%s = %.12g' % (p, q, float(cv[p] * cv[q])), common.write_replay('C20', p + q, {}, {'p': p, 'q': q}))
    # CsgUnits are the documented internal units (nm, amu, ps, e, kJ/mol, nm/ps, kJ/mol/nm)
    want = [('DistanceUnit', 'nanometers'), ('MassUnit', 'atomic_mass_units'), ('TimeUnit', 'picoseconds'), ('ChargeUnit', 'e'), ('MolarEnergyUnit', 'kilojoules_per_mole'), ('VelocityUnit', 'nanometers_per_picosecond'), ('MolarForceUnit', 'kilojoules_per_mole_nanometer')]
    for k, (ty, nm) in enumerate(want):
        r, _ = explore(mod, models.all_models(), lambda it: it.call('@h_csgunit', [k]), parsed=parsed)
        got = symx.sgn64(r[0][1]) & 0xffffffff
        ck.obligation('CsgUnits[%d] is %s::%s' % (k, ty, nm), 'unsat' if got == enums[ty].index(nm) else 'sat', 0.0, True)
    check_elements(ck, TO)
    ck.assumptions += ['enum arguments range over the declared enumerators (out-of-range casts are outside the claim)', 'reference values: CODATA 2018 / SI exact constants embedded in props/C20.py; calorie: thermochemical 4.184 J for UnitConverter, either thermochemical or International-Table accepted for the stand-alone constant, but all places must agree with each other',
                       'the double literals are taken as their exact rational values; products/quotients in exact real arithmetic; derived (constexpr-folded) tables compared to 2^-50 relative']
    if CASE_SPLIT: ck.notes.append('convert overloads %s are not table-shaped any more: enum arguments case-split per ordered pair' % sorted(CASE_SPLIT))
    ck.bounds.update({'enum pairs/triples': 'all (symbolic enum arguments, one query per clause and dimension)', 'tolerance': '1e-4 relative (four significant digits)'})
    for o in ck.obl:
        if o['status'] == 'sat' and not any(o['name'] in v['what'] or True for v in ck.viol + [{'what': w} for _, w in ck.known_hit]):
            ck.violation('C20 ' + o['name'][:60], o['name'], None)

# ---------------- element data (Elements tables behind the public getters) ----------------
ELEM_HARNESS = 'C20_elem.cc'
PERIODIC = ['H','He','Li','Be','B','C','N','O','F','Ne','Na','Mg','Al','Si','P','S','Cl','Ar','K','Ca','Sc','Ti','V','Cr','Mn','Fe','Co','Ni','Cu','Zn','Ga','Ge','As','Se','Br','Kr','Rb','Sr','Y','Zr','Nb','Mo','Tc','Ru','Rh','Pd','Ag','Cd','In','Sn','Sb','Te','I','Xe','Cs','Ba',
            'La','Ce','Pr','Nd','Pm','Sm','Eu','Gd','Tb','Dy','Ho','Er','Tm','Yb','Lu','Hf','Ta','W','Re','Os','Ir','Pt','Au','Hg','Tl','Pb','Bi','Po','At','Rn','Fr','Ra','Ac','Th','Pa','U','Np','Pu','Am','Cm','Bk','Cf','Es','Fm','Md','No','Lr','Rf','Db','Sg','Bh','Hs','Mt','Ds','Rg','Cn','Nh','Fl','Mc','Lv','Ts','Og']
# standard atomic weights (IUPAC abridged; mass number of the longest-lived isotope for Tc, Pm, Po, At, Rn)
WEIGHT = {'H':'1.008','He':'4.0026','Li':'6.94','Be':'9.0122','B':'10.81','C':'12.011','N':'14.007','O':'15.999','F':'18.998','Ne':'20.180','Na':'22.990','Mg':'24.305','Al':'26.982','Si':'28.085','P':'30.974','S':'32.06','Cl':'35.45','Ar':'39.948','K':'39.098','Ca':'40.078','Sc':'44.956','Ti':'47.867','V':'50.942','Cr':'51.996','Mn':'54.938','Fe':'55.845','Co':'58.933','Ni':'58.693','Cu':'63.546','Zn':'65.38','Ga':'69.723','Ge':'72.630','As':'74.922','Se':'78.971','Br':'79.904','Kr':'83.798','Rb':'85.468','Sr':'87.62','Y':'88.906','Zr':'91.224','Nb':'92.906','Mo':'95.95','Tc':'98','Ru':'101.07','Rh':'102.91','Pd':'106.42','Ag':'107.87','Cd':'112.41','In':'114.82','Sn':'118.71','Sb':'121.76','Te':'127.60','I':'126.90','Xe':'131.29','Cs':'132.91','Ba':'137.33',
          'La':'138.91','Ce':'140.12','Pr':'140.91','Nd':'144.24','Pm':'145','Sm':'150.36','Eu':'151.96','Gd':'157.25','Tb':'158.93','Dy':'162.50','Ho':'164.93','Er':'167.26','Tm':'168.93','Yb':'173.05','Lu':'174.97','Hf':'178.49','Ta':'180.95','W':'183.84','Re':'186.21','Os':'190.23','Ir':'192.22','Pt':'195.08','Au':'196.97','Hg':'200.59','Tl':'204.38','Pb':'207.2','Bi':'208.98','Po':'209','At':'210','Rn':'222'}
MASS_TOL = F(5, 10**4)

def elem_native():
    return common.native_build([common.harness_path(ELEM_HARNESS)], 'C20_elem_native', extra=['-I' + common.REPO], defs=['VERIF_NATIVE'], cxx=common.CLANG)

def elem_violation(ck, clause, sym, what, meta):
    meta = dict(meta); meta.update({'kind': 'element', 'clause': clause, 'symbol': sym})
    rep = common.write_replay('C20', 'element %s %s' % (clause, sym), {}, meta)
    ck.violation('C20 element %s %s' % (clause, sym), what, rep, reproduced=replay_element(meta))

def replay_element(meta):
    binp = elem_native()
    def q(cmd, key):
        rc, so, se = common.run_native(binp, '%s %s\n' % (cmd, key)); return so.split()[0] if so.split() else '?'
    c = meta['clause']
    if c == 'number->symbol->number':
        nm = q('elename', meta['Z']); return nm == '?' or int(q('elenum', nm)) != int(meta['Z']) or int(q('nuccrg', nm)) != int(meta['Z'])
    if c == 'symbol->number->symbol':
        n = int(q('elenum', meta['symbol'])); return q('elename', n) != meta['symbol']
    if c == 'nuclear charge':
        return int(q('nuccrg', meta['symbol'])) != int(q('elenum', meta['symbol']))
    if c == 'atomic number':
        return int(q('elenum', meta['symbol'])) != int(meta['ref'])
    if c == 'symbol->full name->symbol':
        return q('eleshort', q('elefull', meta['key'])) != meta['key']
    if c == 'full name->symbol->full name':
        return q('elefull', q('eleshort', meta['key'])) != meta['key']
    if c == 'covalent radius units':
        un = meta.get('unit', ''); rc, so, se = common.run_native(binp, 'covrad %s:%s\n' % (meta['symbol'], un)); o = so.split()
        if len(o) < 2: return True
        v, b = float.fromhex(o[0]), float.fromhex(o[1])
        exp = {'ang': b, 'nm': 0.1 * b, 'bohr': b / 0.52917721}.get(un, -1.0)
        return abs(v - exp) > 1e-4 * abs(exp)
    if c == 'mass':
        m = float.fromhex(q('mass', meta['symbol'])); ref = float(meta['ref']); return m < 0 or abs(m - ref) > float(MASS_TOL) * ref
    return True

def check_elements(ck, TO):
    ir, dt = common.compile_ir(common.harness_path(ELEM_HARNESS), extra=['-I' + common.REPO])
    mod = llir.parse_module(ir); parsed = {}
    ck.units += ['tools/src/libtools/elements.cc (Elements::getEleNum/getEleName/getNucCrg/getMass/getEleFull/getEleShort with their Fill* tables, std::map lookups executed from the IR)']
    ck.functions.update(common.ir_func_sizes(mod, r'^@h_(get|dump)_'))
    ck.functions.update(common.ir_func_sizes(mod, r'Elements'))
    from symx import Ptr
    # --- encoder validation: concrete lookups, interpreter vs native ---
    binp = elem_native(); probes = ['H', 'He', 'C', 'Ru', 'Rh', 'Ta', 'Rn', 'Xx', 'h']
    lines = ['elenum %s' % x for x in probes] + ['nuccrg %s' % x for x in probes] + ['mass %s' % x for x in probes] + ['elename %d' % z for z in (0, 1, 17, 44, 45, 73, 86, 87)]
    rc, so, se = common.run_native(binp, '\n'.join(lines) + '\n'); nat = so.split(); bad = 0
    for ln, nv in zip(lines, nat):
        cmd, key = ln.split()
        def body(it):
            if cmd == 'elename':
                out = it.alloc(8, 'out'); n = symx.sgn64(it.call('@h_get_elename', [int(key), out])); return '?' if n < 0 else it.cstr(out).decode()
            kp = it.alloc(len(key) + 1, 'key')
            for i, ch in enumerate(key.encode() + b'\0'): it.store(Ptr(kp.obj, i), ch, 1)
            r = it.call('@h_get_' + cmd, [kp]); return float(r).hex() if cmd == 'mass' else str(symx.sgn64(r))
        r, _ = explore(mod, models.all_models(), body, fpmode='float', parsed=parsed)
        got = r[0][1]; want = float.fromhex(nv).hex() if cmd == 'mass' else nv
        if got != want: bad += 1; print('  validation mismatch', ln, got, want)
    ck.add_validation('interpreter vs native build: Elements getters on %d concrete keys (hits and misses)' % len(lines), len(lines), bad == 0 and len(nat) == len(lines), '%d mismatches' % bad)
    # --- A: symbolic atomic number through getEleName, then back through getEleNum / getNucCrg ---
    Z = z3.Int('Z'); ZLO, ZHI = -2, 130
    def bodyA(it):
        it.assume(z3.And(Z >= ZLO, Z <= ZHI))
        out = it.alloc(8, 'out'); n = it.call('@h_get_elename', [Z, out])
        if symx.sgn64(n) < 0: return None
        return (it.cstr(out).decode(), it.call('@h_get_elenum', [out]), it.call('@h_get_nuccrg', [out]))
    rA, st = explore(mod, models.all_models(), bodyA, parsed=parsed, max_paths=2000, timeout=600); ck.stubs |= st['models_used']
    hitsA = [(it_, v) for it_, v in rA if v is not None]
    ck.add_witness('getEleName(Z) explored for symbolic Z in [%d,%d]: %d paths, %d hit an element' % (ZLO, ZHI, len(rA), len(hitsA)), len(hitsA) >= 1 and len(rA) > len(hitsA))
    jobs = {}; info = {}
    def I(v): return v if z3.is_expr(v) else z3.IntVal(symx.sgn64(v))
    for k, (it_, (nm, z2, zc)) in enumerate(hitsA):
        jobs[('A1', k)] = list(it_.pc) + [z3.Or(I(z2) != Z, I(zc) != Z)]
        ref = PERIODIC.index(nm) + 1 if nm in PERIODIC else -1
        jobs[('A2', k)] = list(it_.pc) + [Z != ref]
        info[k] = nm
    outA = smt.parallel_check(list(jobs.items()), timeout_s=TO)
    def group(name, tag, n, out, probe):
        sts = [out[(tag, k)][0] for k in range(n)]
        st = 'unsat' if all(x == 'unsat' for x in sts) else ('sat' if 'sat' in sts else 'unknown')
        nt = smt.check(probe, 15)[0] == 'sat'
        ck.obligation('%s (%d path queries)' % (name, n), st, sum(out[(tag, k)][1] for k in range(n)), nt)
        return [k for k in range(n) if sts[k] == 'sat'], [k for k in range(n) if sts[k] not in ('sat', 'unsat')]
    free = z3.Int('free')
    badk, unk = group('elements: getEleNum(getEleName(Z)) == Z and getNucCrg(getEleName(Z)) == Z for every Z that names an element', 'A1', len(hitsA), outA, [free != Z])
    for k in badk:
        m = outA[('A1', k)][2] or {}; z = int(m.get('Z', 0))
        elem_violation(ck, 'number->symbol->number', info[k], 'getEleName(%d) = %s but getEleNum/getNucCrg(%s) != %d' % (z, info[k], info[k], z), {'Z': z})
    badk2, unk2 = group('elements: getEleName(Z) is the symbol of element Z in the periodic table (reference embedded in the checker)', 'A2', len(hitsA), outA, [free != Z])
    for k in badk2:
        m = outA[('A2', k)][2] or {}; z = int(m.get('Z', 0))
        if k not in badk: elem_violation(ck, 'number->symbol->number', info[k], 'getEleName(%d) = %s, which is element %s' % (z, info[k], PERIODIC.index(info[k]) + 1 if info[k] in PERIODIC else '?'), {'Z': z})
    if unk or unk2: ck.inconc('element queries undecided: %d' % (len(unk) + len(unk2)))
    # --- C: covalent radii through getCovRad with the unit name as symbolic bytes: "ang" is the table value, "nm" and "bohr" are
    # that value times the library's own length factors (which are tied to CODATA in the constants clause); any other name is rejected
    u = [z3.Int('u%d' % i) for i in range(4)]
    for sym_ in (b'C', b'Si'):
        def bodyC(it):
            for x in u: it.assume(z3.And(x >= 0, x < 256))
            key = it.alloc(3, 'key')
            for i_, c_ in enumerate(sym_ + b'\0'): it.store(Ptr(key.obj, i_), c_, 1)
            un = it.alloc(5, 'unit')
            for i_ in range(4): it.store(Ptr(un.obj, i_), u[i_], 1)
            it.store(Ptr(un.obj, 4), 0, 1)
            ang = it.alloc(4, 'ang')
            for i_, c_ in enumerate(b'ang\0'): it.store(Ptr(ang.obj, i_), c_, 1)
            return it.call('@h_get_covrad', [key, un]), it.call('@h_get_covrad', [key, ang])
        rC, st = explore(mod, models.all_models(), bodyC, parsed=parsed, max_paths=400, timeout=300); ck.stubs |= st['models_used']
        ck.add_witness('getCovRad(%s, unit) with a symbolic unit name of up to 4 bytes: %d paths' % (sym_.decode(), len(rC)), len(rC) >= 4)
        BOHR = F(52917721, 100000000)   # 0.52917721 Angstrom per bohr
        qC = []
        def is_name(nm): return z3.And([u[i_] == (nm + b'\0\0\0\0')[i_] for i_ in range(min(4, len(nm) + 1))])
        for it_, (val, base) in rC:
            v = val if z3.is_expr(val) else z3.RealVal(F(val)); b_ = base if z3.is_expr(base) else z3.RealVal(F(base))
            close = lambda x, y: z3.And(x - y <= F(1, 10000) * y, y - x <= F(1, 10000) * y)
            want = z3.If(is_name(b'ang'), v == b_, z3.If(is_name(b'nm'), close(v * 10, b_), z3.If(is_name(b'bohr'), close(v * z3.RealVal(BOHR), b_), v == -1)))
            qC.append((list(it_.pc), [z3.Not(z3.And(b_ > 0, want))]))
        nameC = 'getCovRad(%s, unit) for every unit name of at most 4 bytes: ang = table value, nm = 0.1 x, bohr = value / 0.52917721 (to 1e-4), anything else rejected' % sym_.decode()
        sC, mC = smt.agg_core(ck, nameC, qC, TO, probe=[z3.Real('free_cov') != 1])
        if sC == 'sat':
            bs = bytes(int((mC or {}).get('u%d' % i_, 0)) & 0xff for i_ in range(4)).split(b'\0')[0].decode('latin1')
            elem_violation(ck, 'covalent radius units', sym_.decode(), 'getCovRad(%s, "%s") is not the Angstrom value in the named unit' % (sym_.decode(), bs), {'unit': bs})
    # --- B: symbolic symbol (up to 2 characters) through getEleNum, then getEleName / getNucCrg / getMass ---
    b0, b1 = z3.Ints('b0 b1')
    def bodyB(it):
        it.assume(z3.And(b0 >= 0, b0 < 256, b1 >= 0, b1 < 256))
        key = it.alloc(3, 'key'); it.store(key, b0, 1); it.store(Ptr(key.obj, 1), b1, 1); it.store(Ptr(key.obj, 2), 0, 1)
        n = it.call('@h_get_elenum', [key])
        if symx.sgn64(n) < 0: return None
        out = it.alloc(8, 'out'); m = symx.sgn64(it.call('@h_get_elename', [n, out]))
        return (symx.sgn64(n), (it.cstr(out) if m >= 0 else None), it.call('@h_get_nuccrg', [key]), it.call('@h_get_mass', [key]))
    rB, st = explore(mod, models.all_models(), bodyB, parsed=parsed, max_paths=4000, timeout=900); ck.stubs |= st['models_used']
    hitsB = [(it_, v) for it_, v in rB if v is not None]
    ck.add_witness('getEleNum(s) explored for every string s of at most 2 symbolic bytes: %d paths, %d hit an element' % (len(rB), len(hitsB)), len(hitsB) >= 1 and len(rB) > len(hitsB))
    jobs = {}; infoB = {}
    for k, (it_, (n, nm, zc, mass)) in enumerate(hitsB):
        # the symbol on this path, read back from the path condition by the solver (the bytes are pinned by the compare results)
        nmb = (nm or b'') + b'\0\0'
        jobs[('B1', k)] = list(it_.pc) + [z3.Or(b0 != nmb[0], b1 != nmb[1])] if nm is not None else list(it_.pc)
        jobs[('B2', k)] = list(it_.pc) + [I(zc) != n]
        sym = PERIODIC[n - 1] if 1 <= n <= len(PERIODIC) else None
        refb = (sym.encode() if sym else b'') + b'\0\0'
        jobs[('B3', k)] = list(it_.pc) + [z3.Or(b0 != refb[0], b1 != refb[1])]
        mv = mass if z3.is_expr(mass) else z3.RealVal(mass)
        ref = F(WEIGHT[sym]) if sym in WEIGHT else None
        jobs[('B4', k)] = list(it_.pc) + ([z3.Not(z3.And(mv - ref <= MASS_TOL * ref, ref - mv <= MASS_TOL * ref))] if ref is not None else [])
        infoB[k] = (n, nm, sym, mass, ref)
    outB = smt.parallel_check(list(jobs.items()), timeout_s=TO)
    def keyof(k, tag):
        m = outB[(tag, k)][2] or {}; bs = bytes([int(m.get('b0', 0)) & 0xff, int(m.get('b1', 0)) & 0xff]); return bs.split(b'\0')[0].decode('latin1')
    fb = z3.Int('freeb'); fr = z3.Real('freer')
    bad1, u1 = group('elements: getEleName(getEleNum(s)) == s for every symbol s that getEleNum knows', 'B1', len(hitsB), outB, [fb != b0])
    for k in bad1:
        s_ = keyof(k, 'B1'); elem_violation(ck, 'symbol->number->symbol', s_, 'getEleNum(%s) = %d but getEleName(%d) = %s' % (s_, infoB[k][0], infoB[k][0], (infoB[k][1] or b'<missing>').decode()), {'Z': infoB[k][0]})
    bad2, u2 = group('elements: getNucCrg(s) == getEleNum(s) for every symbol s', 'B2', len(hitsB), outB, [fb != free])
    for k in bad2:
        s_ = keyof(k, 'B2'); elem_violation(ck, 'nuclear charge', s_, 'getNucCrg(%s) != getEleNum(%s) = %d' % (s_, s_, infoB[k][0]), {'Z': infoB[k][0]})
    bad3, u3 = group('elements: getEleNum(s) is the atomic number of s in the periodic table (reference embedded in the checker)', 'B3', len(hitsB), outB, [fb != b0])
    for k in bad3:
        s_ = keyof(k, 'B3')
        if k not in bad1: elem_violation(ck, 'atomic number', s_, 'getEleNum(%s) = %d; the periodic table has %s' % (s_, infoB[k][0], PERIODIC.index(s_) + 1 if s_ in PERIODIC else 'no such symbol'), {'Z': infoB[k][0], 'ref': PERIODIC.index(s_) + 1 if s_ in PERIODIC else -1})
    bad4, u4 = group('elements: getMass(s) within 5e-4 of the standard atomic weight of s for every symbol s', 'B4', len(hitsB), outB, [z3.Not(z3.And(fr - 12 <= MASS_TOL * 12, 12 - fr <= MASS_TOL * 12))])
    for k in bad4:
        s_ = keyof(k, 'B4'); n, nm, sym, mass, ref = infoB[k]
        mf = float(mass) if not z3.is_expr(mass) else float('nan')
        elem_violation(ck, 'mass', s_, 'getMass(%s) = %s but the standard atomic weight of %s (Z=%d) is %s' % (s_, ('no entry' if mf < 0 else repr(mf)), sym, n, WEIGHT.get(sym, '?')), {'Z': n, 'ref': WEIGHT.get(sym, '0'), 'value': mf})
    if u1 or u2 or u3 or u4: ck.inconc('element queries undecided: %d' % (len(u1) + len(u2) + len(u3) + len(u4)))
    # every symbol reached through A is reached through B and vice versa (the two tables name the same elements)
    sa = sorted(v[0] for _, v in hitsA); sb = sorted((v[1] or b'?').decode() for _, v in hitsB)
    ck.obligation('elements: the symbols reachable through getEleName and through getEleNum are the same set (%d / %d)' % (len(sa), len(sb)), 'unsat' if sa == sb else 'sat', 0.0, True)
    if sa != sb: elem_violation(ck, 'symbol->number->symbol', ','.join(sorted(set(sa) ^ set(sb)))[:40], 'symbols known to only one of getEleName / getEleNum: %s' % sorted(set(sa) ^ set(sb)), {'Z': 0})
    # --- C: full names <-> symbols (tables read back through the real map iteration; index symbolic) ---
    def dump(fn, kw, vw):
        def body(it):
            kp = it.alloc(kw * 160, 'k'); vp = it.alloc(vw * 160, 'v'); n = symx.sgn64(it.call('@' + fn, [kp, vp]))
            return [(it.cstr(Ptr(kp.obj, kw * i))[:kw - 1], it.cstr(Ptr(vp.obj, vw * i))[:vw - 1]) for i in range(n)]
        r, _ = explore(mod, models.all_models(), body, parsed=parsed); return r[0][1]
    full = dump('h_dump_elefull', 8, 16); short = dump('h_dump_eleshort', 16, 8)
    def enc(bs): return int.from_bytes(bs[:15], 'big')
    i = z3.Int('i')
    def table(idx, vals, default=-1):
        e = z3.IntVal(default)
        for k in range(len(vals) - 1, -1, -1): e = z3.If(idx == k, z3.IntVal(vals[k]), e)
        return e
    def lookup(keyexpr, tab):      # map lookup as an ite chain over the extracted (key,value) pairs
        e = z3.IntVal(-1)
        for kk, vv in reversed(tab): e = z3.If(keyexpr == enc(kk), z3.IntVal(enc(vv)), e)
        return e
    def name_clause(title, tab, other, kexpr, vexpr, clause):
        # all failing entries are enumerated by blocking each counterexample index in turn (bounded by the table size)
        base = [i >= 0, i < len(tab)]; goal = [lookup(vexpr, other) != kexpr]
        st_, mdl = smt.prove(ck, title, base, goal, TO, probe=base + [free != kexpr])
        blocked = []
        while st_ == 'sat' and len(blocked) < len(tab):
            idx = int(mdl['i']); k_, v_ = tab[idx]; back = dict(other).get(v_)
            elem_violation(ck, clause, k_.decode(), '%s -> %s -> %s' % (k_.decode(), v_.decode(), back.decode() if back is not None else '<no entry>'), {'key': k_.decode(), 'value': v_.decode()})
            blocked.append(i != idx)
            st_, _, mdl = smt.check(base + goal + blocked, TO)
    name_clause('elements: getEleShort(getEleFull(s)) == s for every symbol s with a full name (%d entries)' % len(full), full, short, table(i, [enc(k_) for k_, _ in full]), table(i, [enc(v_) for _, v_ in full]), 'symbol->full name->symbol')
    name_clause('elements: getEleFull(getEleShort(name)) == name for every full name (%d entries)' % len(short), short, full, table(i, [enc(k_) for k_, _ in short]), table(i, [enc(v_) for _, v_ in short]), 'full name->symbol->full name')
    fk = table(i, [enc(k_) for k_, _ in full])
    symtab = [(s_.encode(), s_.encode()) for s_ in sb]
    smt.prove(ck, 'elements: every symbol with a full name has an atomic number and vice versa', [i >= 0, i < max(len(full), len(sb))],
              [z3.Or(z3.And(i < len(full), lookup(fk, symtab) == -1), z3.And(i < len(sb), lookup(table(i, [enc(x.encode()) for x in sb]), full) == -1))], TO, probe=[free != fk, i >= 0, i < len(full)])
    ck.bounds.update({'element symbols': 'every string of at most 2 bytes (both bytes symbolic); atomic numbers %d..%d symbolic' % (ZLO, ZHI), 'element mass tolerance': '5e-4 relative against IUPAC abridged standard atomic weights (covers the revisions between editions, e.g. Li 6.941/6.94, S 32.066/32.06)'})
    ck.assumptions += ['element reference data: periodic-table symbols and IUPAC abridged standard atomic weights embedded in props/C20.py; van der Waals radii, covalent radii and polarisabilities have no independent reference here and are outside the claim',
                       'symbols longer than 2 characters are outside the symbolic key space (the tables hold none)']
    ck.sample({'elements': len(sb), 'lookup paths': {'by number': len(rA), 'by symbol': len(rB)}})

def note_violation(ck, ty, names, mdl, clause, kind):
    ia = int(mdl.get('a', 0)); ib = int(mdl.get('b', 0))
    what = '%s %s fails for %s -> %s' % (ty, clause, names[ia] if 0 <= ia < len(names) else ia, names[ib] if 0 <= ib < len(names) else ib)
    rep = common.write_replay('C20', what, {}, {'dimension': ty, 'clause': clause, 'a': ia, 'b': ib, 'c': int(mdl.get('c', 0)), 'kind': 'convert'})
    ok = replay_convert(ty, clause, ia, ib, int(mdl.get('c', 0)), names)
    ck.violation('C20 %s %s' % (ty, clause), what, rep, reproduced=ok)

def replay_convert(ty, clause, ia, ib, ic, names):
    binp = common.native_build([common.harness_path(HARNESS)], 'C20_native_r', extra=['-I' + common.REPO], defs=['VERIF_NATIVE'])
    def cv(i, j):
        rc, so, se = common.run_native(binp, '%s %d %d\n' % (FN[ty], i, j)); return float.fromhex(so.split()[0])
    if clause == 'round trip': return abs(cv(ia, ib) * cv(ib, ia) - 1) > 1e-12
    if clause == 'transitivity': return abs(cv(ia, ib) * cv(ib, ic) - cv(ia, ic)) > 1e-12 * abs(cv(ia, ic))
    if clause == 'SI value':
        si = [SI[ty][x] for x in names]; return abs(cv(ia, ib) * float(si[ib]) - float(si[ia])) > 1e-4 * float(si[ia])
    return True

def do_replay(path):
    meta = json.load(open(os.path.join(path, 'input.json')))
    if meta.get('kind') == 'element':
        ok = replay_element(meta)
    elif meta.get('kind') == 'convert':
        names = parse_enums()[meta['dimension']]
        ok = replay_convert(meta['dimension'], meta['clause'], meta['a'], meta['b'], meta['c'], names)
    else:
        ok = True
    print('replay: %s' % ('reproduced' if ok else 'not reproduced'))
    if ok: print('VIOLATION property=C20 replay=%s' % path); return 1
    return 0

if __name__ == '__main__':
    sys.exit(common.main_wrapper('C20', check_c20))
