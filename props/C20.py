# C20 — unit conversions and constants (E2: enum arguments symbolic, switch tables as ite chains; z3 over exact rationals)
import sys, os, re, json, time
from fractions import Fraction as F
import z3
import common, llir, symx, models, smt
from symx import explore

HARNESS = 'C20_units.cc'
# SI magnitude of one unit, by enumerator name (CODATA 2018 / SI exact values); calorie = thermochemical (4.184 J)
EV = F('1.602176634e-19'); HA = F('4.3597447222071e-18'); BOHR = F('5.29177210903e-11'); AMU = F('1.66053906660e-27'); KCAL = F(4184)
SI = {
 'DistanceUnit': {'meters': F(1), 'centimeters': F(1, 100), 'nanometers': F(1, 10**9), 'angstroms': F(1, 10**10), 'bohr': BOHR},
 'TimeUnit': {'seconds': F(1), 'microseconds': F(1, 10**6), 'nanoseconds': F(1, 10**9), 'femtoseconds': F(1, 10**15), 'picoseconds': F(1, 10**12)},
 'MassUnit': {'attograms': F(1, 10**21), 'picograms': F(1, 10**15), 'femtograms': F(1, 10**18), 'atomic_mass_units': AMU, 'grams_per_mole': AMU, 'kilograms': F(1), 'grams': F(1, 1000)},
 'EnergyUnit': {'electron_volts': EV, 'kilocalories': KCAL, 'hartrees': HA, 'joules': F(1), 'kilojoules': F(1000)},
 'MolarEnergyUnit': {'kilojoules_per_mole': F(1000), 'joules_per_mole': F(1), 'kilocalories_per_mole': KCAL, 'electron_volts_per_mole': EV, 'hartrees_per_mole': HA},
 'ChargeUnit': {'e': EV, 'coulombs': F(1)},
 'VelocityUnit': {'angstroms_per_femtosecond': F(10**5), 'angstroms_per_picosecond': F(100), 'nanometers_per_picosecond': F(1000)},
 'ForceUnit': {'kilocalories_per_angstrom': KCAL * 10**10, 'newtons': F(1), 'kilojoules_per_nanometer': F(10**12), 'kilojoules_per_angstrom': F(10**13), 'hatree_per_bohr': HA / BOHR},
 'MolarForceUnit': {'kilocalories_per_mole_angstrom': KCAL * 10**10, 'newtons_per_mole': F(1), 'kilojoules_per_mole_nanometer': F(10**12), 'kilojoules_per_mole_angstrom': F(10**13), 'hatree_per_mole_bohr': HA / BOHR},
}
FN = {'DistanceUnit': 'dist', 'TimeUnit': 'time', 'MassUnit': 'mass', 'EnergyUnit': 'energy', 'MolarEnergyUnit': 'menergy', 'ChargeUnit': 'charge', 'VelocityUnit': 'vel', 'ForceUnit': 'force', 'MolarForceUnit': 'mforce'}
# derived unit -> (numerator enum type, name), (denominator enum type, name)
DERIVED = {
 'VelocityUnit': {'angstroms_per_femtosecond': (('DistanceUnit', 'angstroms'), ('TimeUnit', 'femtoseconds')), 'angstroms_per_picosecond': (('DistanceUnit', 'angstroms'), ('TimeUnit', 'picoseconds')), 'nanometers_per_picosecond': (('DistanceUnit', 'nanometers'), ('TimeUnit', 'picoseconds'))},
 'ForceUnit': {'kilocalories_per_angstrom': (('EnergyUnit', 'kilocalories'), ('DistanceUnit', 'angstroms')), 'newtons': (('EnergyUnit', 'joules'), ('DistanceUnit', 'meters')), 'kilojoules_per_nanometer': (('EnergyUnit', 'kilojoules'), ('DistanceUnit', 'nanometers')), 'kilojoules_per_angstrom': (('EnergyUnit', 'kilojoules'), ('DistanceUnit', 'angstroms')), 'hatree_per_bohr': (('EnergyUnit', 'hartrees'), ('DistanceUnit', 'bohr'))},
 'MolarForceUnit': {'kilocalories_per_mole_angstrom': (('MolarEnergyUnit', 'kilocalories_per_mole'), ('DistanceUnit', 'angstroms')), 'newtons_per_mole': (('MolarEnergyUnit', 'joules_per_mole'), ('DistanceUnit', 'meters')), 'kilojoules_per_mole_nanometer': (('MolarEnergyUnit', 'kilojoules_per_mole'), ('DistanceUnit', 'nanometers')), 'kilojoules_per_mole_angstrom': (('MolarEnergyUnit', 'kilojoules_per_mole'), ('DistanceUnit', 'angstroms')), 'hatree_per_mole_bohr': (('MolarEnergyUnit', 'hartrees_per_mole'), ('DistanceUnit', 'bohr'))},
}
KB_EV = F('1.380649e-23') / EV; HBAR_EVS = F('1.054571817e-34') / EV; NA = F('6.02214076e23')
CONSTS = [  # index in h_const, name, reference value, alternative accepted values
 (0, 'kB [eV/K]', KB_EV, []), (1, 'hbar [eV s]', HBAR_EVS, []), (2, 'bohr2nm', BOHR * 10**9, []), (3, 'nm2bohr', 1 / (BOHR * 10**9), []),
 (4, 'ang2bohr', 1 / (BOHR * 10**10), []), (5, 'bohr2ang', BOHR * 10**10, []), (6, 'nm2ang', F(10), []), (7, 'ang2nm', F(1, 10), []),
 (8, 'hrt2ev', HA / EV, []), (9, 'ev2hrt', EV / HA, []), (10, 'ev2kj_per_mol', EV * NA / 1000, []),
 (11, 'kcal2kj', F('4.184'), [F('4.1868')]), (12, 'kj2kcal', 1 / F('4.184'), [1 / F('4.1868')]),
]
TOL = F(1, 10**4)

def parse_enums():
    txt = open(common.REPO + '/tools/include/votca/tools/unitconverter.h').read()
    txt = re.sub(r'//[^\n]*', '', txt); txt = re.sub(r'/\*.*?\*/', '', txt, flags=re.S)
    out = {}
    for m in re.finditer(r'enum\s+(?:class\s+)?(\w+)\s*\{([^}]*)\}', txt):
        names = [x.strip().split('=')[0].strip() for x in m.group(2).split(',') if x.strip()]
        out[m.group(1)] = names
    return out

def ite_table(idx, vals):
    e = z3.RealVal(vals[-1])
    for k in range(len(vals) - 2, -1, -1): e = z3.If(idx == k, z3.RealVal(vals[k]), e)
    return e

CASE_SPLIT = set()
def sym_convert(mod, fn, n, a, b, parsed):
    """convert(a,b) with the enum arguments as solver variables.  Normally the switch tables become ite chains and one path
    covers all pairs; if the conversion is no longer table-shaped (loops or branches on the arguments) and the symbolic run
    exceeds its budget, the arguments are case-split (one run per ordered pair, still discharged by the solver per case)."""
    def body(it):
        it.table_ite = True; it.max_instr = 2_000_000
        it.assume(z3.And(a >= 0, a < n, b >= 0, b < n))
        return it.call('@h_' + fn, [a, b])
    try:
        return explore(mod, models.all_models(), body, parsed=parsed, max_paths=300, timeout=60)
    except symx.Unsupported:
        CASE_SPLIT.add(fn)
        results = []; stats = {'models_used': set(), 'paths': 0}
        for i in range(n):
            for j in range(n):
                def body2(it, i=i, j=j):
                    it.max_instr = 2_000_000
                    it.assume(z3.And(a == i, b == j)); return it.call('@h_' + fn, [i, j])
                r, st = explore(mod, models.all_models(), body2, parsed=parsed, max_paths=50, timeout=30)
                results.append((i, j, r)); stats['models_used'] |= st['models_used']; stats['paths'] += st['paths']
        if all(len(r) == 1 for _, _, r in results):
            # one value per ordered pair: fold the cases back into a single expression over (a, b)
            e = None
            for i, j, r in results:
                v = r[0][1]; v = v if z3.is_expr(v) else z3.RealVal(v)
                e = v if e is None else z3.If(z3.And(a == i, b == j), v, e)
            class _P: pc = []
            return [(_P(), e)], stats
        return [(it_, (v if z3.is_expr(v) else z3.RealVal(v))) for _, _, r in results for it_, v in r], stats

def check_c20(ck, tier, replay=None):
    if replay: return do_replay(replay)
    TO = 60
    ir, dt = common.compile_ir(common.harness_path(HARNESS), extra=['-I' + common.REPO])
    mod = llir.parse_module(ir)
    ck.units += ['tools/include/votca/tools/unitconverter.h (nine UnitConverter::convert overloads, get*Value_ tables)', 'tools/include/votca/tools/constants.h (tools::conv)', 'csg/include/votca/csg/units.h (CsgUnits)', 'csg/src/libcsg/modules/io/lammpsdumpreader.cc (factors used)']
    ck.functions.update(common.ir_func_sizes(mod, r'^@h_'))
    ck.functions['switch tables'] = len([g for g in mod.globals if 'switch.table' in g])
    enums = parse_enums()
    parsed = {}
    # encoder validation: every pair, natively
    binp = common.native_build([common.harness_path(HARNESS)], 'C20_native', extra=['-I' + common.REPO], defs=['VERIF_NATIVE'], cxx=common.CLANG)
    lines = []
    for ty, fn in FN.items():
        n = len(enums[ty])
        lines += ['%s %d %d' % (fn, i, j) for i in range(n) for j in range(n)]
    lines += ['const %d 0' % k for k in range(14)] + ['csgunit %d 0' % k for k in range(7)]
    rc, so, se = common.run_native(binp, '\n'.join(lines) + '\n')
    nat = [float.fromhex(x) for x in so.split()]; bad = 0
    for ln, nv in zip(lines, nat):
        t = ln.split()
        def body(it):
            if t[0] == 'const': return it.call('@h_const', [int(t[1])])
            if t[0] == 'csgunit': return float(symx.sgn64(it.call('@h_csgunit', [int(t[1])])) & 0xffffffff)
            return it.call('@h_' + t[0], [int(t[1]), int(t[2])])
        r, _ = explore(mod, models.all_models(), body, fpmode='float', parsed=parsed)
        if float(r[0][1]).hex() != nv.hex(): bad += 1; print('  validation mismatch', ln, r[0][1], nv)
    ck.add_validation('interpreter(float mode) vs native build: all enum pairs of the nine convert overloads, conv constants, CsgUnits', len(lines), bad == 0, '%d mismatches' % bad)
    # ---------------- symbolic enum arguments ----------------
    a, b, c = z3.Ints('a b c')
    conv_expr = {}
    for ty, fn in FN.items():
        names = enums[ty]; n = len(names)
        missing = [x for x in names if x not in SI[ty]]
        if missing: ck.inconc('enumerators %s of %s have no reference value in the checker' % (missing, ty)); continue
        si = [SI[ty][x] for x in names]
        rab, st = sym_convert(mod, fn, n, a, b, parsed); ck.stubs |= st['models_used']
        ck.add_witness('%s: convert explored (%d path(s))' % (ty, len(rab)), len(rab) >= 1)
        rba, _ = sym_convert(mod, fn, n, b, a, parsed); rbc, _ = sym_convert(mod, fn, n, b, c, parsed); rac, _ = sym_convert(mod, fn, n, a, c, parsed)
        rng = [a >= 0, a < n, b >= 0, b < n, c >= 0, c < n]
        free = z3.Real('free')
        # the exploration may fork (guards, selects); obligations are discharged per combination of paths
        def allpc(*rs): return [x for r in rs for x in r[0].pc]
        k = 0
        for pab in rab:
            eab = pab[1]
            smt.prove(ck, '%s: convert(a,b) > 0 for all a,b' % ty, rng + allpc(pab), [z3.Not(eab > 0)], TO, probe=[z3.Not(free > 0)])
            sa = ite_table(a, si); sb = ite_table(b, si)
            st_, mdl = smt.prove(ck, '%s: |convert(a,b)*SI(b) - SI(a)| <= 1e-4 SI(a) for all a,b' % ty, rng + allpc(pab), [z3.Not(z3.And(eab * sb - sa <= TOL * sa, sa - eab * sb <= TOL * sa))], TO,
                                 probe=rng + [z3.Not(z3.And(free * sb - sa <= TOL * sa, sa - free * sb <= TOL * sa))])
            if st_ == 'sat': note_violation(ck, ty, names, mdl, 'SI value', 'pair')
            for pba in rba:
                st_, mdl = smt.prove(ck, '%s: convert(a,b)*convert(b,a) == 1 for all a,b' % ty, rng + allpc(pab, pba), [eab * pba[1] != 1], TO, probe=rng + [free * pba[1] != 1] + allpc(pba))
                if st_ == 'sat': note_violation(ck, ty, names, mdl, 'round trip', 'pair')
            for pbc in rbc:
                for pac in rac:
                    st_, mdl = smt.prove(ck, '%s: convert(a,b)*convert(b,c) == convert(a,c) for all a,b,c' % ty, rng + allpc(pab, pbc, pac), [eab * pbc[1] != pac[1]], TO, probe=rng + [free * pbc[1] != pac[1]] + allpc(pbc, pac))
                    if st_ == 'sat': note_violation(ck, ty, names, mdl, 'transitivity', 'triple')
        conv_expr[ty] = (rab, names)
        ck.sample({'dimension': ty, 'enumerators': names, 'convert(a,b)': str(z3.simplify(rab[0][1]) if z3.is_expr(rab[0][1]) else rab[0][1])[:300]})
    # ---------------- derived units equal the quotient of the base conversions (to 2^-50 relative) ----------------
    EPS = F(1, 2**50)
    for ty, comp in DERIVED.items():
        names = enums[ty]; n = len(names)
        if any(x not in comp for x in names): ck.inconc('derived unit table of the checker does not cover %s' % ty); continue
        rab, _ = sym_convert(mod, FN[ty], n, a, b, parsed)
        def comp_idx(idx, pos):
            # enumerator index of the numerator/denominator unit of derived unit #idx
            vals = [enums[comp[x][pos][0]].index(comp[x][pos][1]) for x in names]
            e = z3.IntVal(vals[-1])
            for k in range(len(vals) - 2, -1, -1): e = z3.If(idx == k, vals[k], e)
            return e
        nty = comp[names[0]][0][0]; dty = comp[names[0]][1][0]
        na, nb_, da, db = z3.Ints('na nb da db')
        rn, _ = sym_convert(mod, FN[nty], len(enums[nty]), na, nb_, parsed); rd, _ = sym_convert(mod, FN[dty], len(enums[dty]), da, db, parsed)
        link = [na == comp_idx(a, 0), nb_ == comp_idx(b, 0), da == comp_idx(a, 1), db == comp_idx(b, 1), a >= 0, a < n, b >= 0, b < n]
        for pab in rab:
            for pn in rn:
                for pd in rd:
                    q = pn[1] / pd[1]
                    st_, mdl = smt.prove(ck, '%s: convert(a,b) == convert_%s(num)/convert_%s(den) within 2^-50' % (ty, nty, dty), link + list(pab[0].pc) + list(pn[0].pc) + list(pd[0].pc),
                              [z3.Not(z3.And(pab[1] - q <= EPS * q, q - pab[1] <= EPS * q))], TO, probe=link + [z3.Real('free') != q] + list(pn[0].pc) + list(pd[0].pc))
                    if st_ == 'sat': note_violation(ck, ty, names, mdl, 'derived quotient', 'pair')
    # ---------------- constants: CODATA and cross-consistency (ground obligations, still discharged by the solver) ----------------
    cv = {}
    for k, nm, ref, alts in CONSTS + [(13, 'Pi', F('3.14159265358979323846'), [])]:
        r, _ = explore(mod, models.all_models(), lambda it: it.call('@h_const', [k]), parsed=parsed)
        v = r[0][1]; cv[nm] = v
        ok = z3.Or([z3.And(z3.RealVal(v) - x <= TOL * x, x - z3.RealVal(v) <= TOL * x) for x in [ref] + alts])
        st_, mdl = smt.prove(ck, 'constant %s = %s within 1e-4 of the reference %s' % (nm, float(v), [float(x) for x in [ref] + alts]), [], [z3.Not(ok)], TO, probe=[z3.Real('free') != z3.RealVal(ref)])
        if st_ == 'sat': ck.violation('C20 constant %s vs CODATA' % nm, 'conv::%s = %r differs from the reference %r by more than 1e-4' % (nm, float(v), float(ref)), common.write_replay('C20', nm, {}, {'constant': nm, 'value': float(v), 'ref': float(ref)}))
    def close(x, y, tol): return z3.And(z3.RealVal(x) - z3.RealVal(y) <= tol * z3.RealVal(y), z3.RealVal(y) - z3.RealVal(x) <= tol * z3.RealVal(y))
    def uc(ty, frm, to):
        names = enums[ty]; r, _ = explore(mod, models.all_models(), lambda it: it.call('@h_' + FN[ty], [names.index(frm), names.index(to)]), parsed=parsed); return r[0][1]
    pairs = [('nm2bohr', cv['nm2bohr'], 'UnitConverter nm->bohr', uc('DistanceUnit', 'nanometers', 'bohr')), ('ang2bohr', cv['ang2bohr'], 'UnitConverter ang->bohr', uc('DistanceUnit', 'angstroms', 'bohr')),
             ('bohr2nm', cv['bohr2nm'], 'UnitConverter bohr->nm', uc('DistanceUnit', 'bohr', 'nanometers')), ('hrt2ev', cv['hrt2ev'], 'UnitConverter hartree->eV', uc('EnergyUnit', 'hartrees', 'electron_volts')),
             ('ev2hrt', cv['ev2hrt'], 'UnitConverter eV->hartree', uc('EnergyUnit', 'electron_volts', 'hartrees')), ('kcal2kj', cv['kcal2kj'], 'UnitConverter kcal->kJ', uc('EnergyUnit', 'kilocalories', 'kilojoules')),
             ('kj2kcal', cv['kj2kcal'], 'UnitConverter kJ->kcal', uc('EnergyUnit', 'kilojoules', 'kilocalories')), ('kcal2kj', cv['kcal2kj'], 'UnitConverter kcal/mol->kJ/mol', uc('MolarEnergyUnit', 'kilocalories_per_mole', 'kilojoules_per_mole')),
             ('nm2ang', cv['nm2ang'], 'UnitConverter nm->ang', uc('DistanceUnit', 'nanometers', 'angstroms')), ('ang2nm', cv['ang2nm'], 'UnitConverter ang->nm', uc('DistanceUnit', 'angstroms', 'nanometers')),
             ('ev2kj_per_mol', cv['ev2kj_per_mol'], 'UnitConverter eV->kJ times N_A', uc('EnergyUnit', 'electron_volts', 'kilojoules') * NA)]
    for nm, x, nm2, y in pairs:
        st_, mdl = smt.prove(ck, 'same quantity, two places: conv::%s (%.9g) vs %s (%.9g) agree to 1e-4' % (nm, float(x), nm2, float(y)), [], [z3.Not(close(x, y, TOL))], TO, probe=[z3.Real('free') != z3.RealVal(y)])
        if st_ == 'sat':
            rep = common.write_replay('C20', nm + nm2, {}, {'a': nm, 'a_value': float(x), 'b': nm2, 'b_value': float(y), 'kind': 'cross'})
            ck.violation('C20 conv::%s disagrees with %s' % (nm, nm2.split(' ')[0] + ' ' + nm2.split(' ')[1]), 'conv::%s = %.9g but %s = %.9g (relative difference %.2e > 1e-4)' % (nm, float(x), nm2, float(y), abs(float(x) - float(y)) / float(y)), rep)
    recips = [('bohr2nm', 'nm2bohr'), ('ang2bohr', 'bohr2ang'), ('nm2ang', 'ang2nm'), ('hrt2ev', 'ev2hrt'), ('kcal2kj', 'kj2kcal')]
    for p, q in recips:
        st_, _ = smt.prove(ck, 'reciprocal pair conv::%s * conv::%s == 1 within 1e-4 (same quantity, four significant digits)' % (p, q), [], [z3.Not(close(cv[p] * cv[q], F(1), TOL))], TO, probe=[z3.Real('free') != 1])
        if st_ == 'sat': ck.violation('C20 reciprocal %s %s' % (p, q), 'conv::%s * conv::%s = %.12g' % (p, q, float(cv[p] * cv[q])), common.write_replay('C20', p + q, {}, {'p': p, 'q': q}))
    # CsgUnits are the documented internal units (nm, amu, ps, e, kJ/mol, nm/ps, kJ/mol/nm)
    want = [('DistanceUnit', 'nanometers'), ('MassUnit', 'atomic_mass_units'), ('TimeUnit', 'picoseconds'), ('ChargeUnit', 'e'), ('MolarEnergyUnit', 'kilojoules_per_mole'), ('VelocityUnit', 'nanometers_per_picosecond'), ('MolarForceUnit', 'kilojoules_per_mole_nanometer')]
    for k, (ty, nm) in enumerate(want):
        r, _ = explore(mod, models.all_models(), lambda it: it.call('@h_csgunit', [k]), parsed=parsed)
        got = symx.sgn64(r[0][1]) & 0xffffffff
        ck.obligation('CsgUnits[%d] is %s::%s' % (k, ty, nm), 'unsat' if got == enums[ty].index(nm) else 'sat', 0.0, True)
    ck.assumptions += ['enum arguments range over the declared enumerators (out-of-range casts are outside the claim)', 'reference values: CODATA 2018 / SI exact constants embedded in props/C20.py; calorie: thermochemical 4.184 J for UnitConverter, either thermochemical or International-Table accepted for the stand-alone constant, but all places must agree with each other',
                       'the double literals are taken as their exact rational values; products/quotients in exact real arithmetic; derived (constexpr-folded) tables compared to 2^-50 relative', 'Elements tables (string-keyed maps) are outside the claim']
    if CASE_SPLIT: ck.notes.append('convert overloads %s are not table-shaped any more: enum arguments case-split per ordered pair' % sorted(CASE_SPLIT))
    ck.bounds.update({'enum pairs/triples': 'all (symbolic enum arguments, one query per clause and dimension)', 'tolerance': '1e-4 relative (four significant digits)'})
    for o in ck.obl:
        if o['status'] == 'sat' and not any(o['name'] in v['what'] or True for v in ck.viol + [{'what': w} for _, w in ck.known_hit]):
            ck.violation('C20 ' + o['name'][:60], o['name'], None)

def note_violation(ck, ty, names, mdl, clause, kind):
    ia = int(mdl.get('a', 0)); ib = int(mdl.get('b', 0))
    what = '%s %s fails for %s -> %s' % (ty, clause, names[ia] if 0 <= ia < len(names) else ia, names[ib] if 0 <= ib < len(names) else ib)
    rep = common.write_replay('C20', what, {}, {'dimension': ty, 'clause': clause, 'a': ia, 'b': ib, 'c': int(mdl.get('c', 0)), 'kind': 'convert'})
    ok = replay_convert(ty, clause, ia, ib, int(mdl.get('c', 0)), names)
    ck.violation('C20 %s %s' % (ty, clause), what, rep, reproduced=ok)

def replay_convert(ty, clause, ia, ib, ic, names):
    binp = common.native_build([common.harness_path(HARNESS)], 'C20_native_r', extra=['-I' + common.REPO], defs=['VERIF_NATIVE'])
    def cv(i, j):
        rc, so, se = common.run_native(binp, '%s %d %d\n' % (FN[ty], i, j)); return float.fromhex(so.split()[0])
    if clause == 'round trip': return abs(cv(ia, ib) * cv(ib, ia) - 1) > 1e-12
    if clause == 'transitivity': return abs(cv(ia, ib) * cv(ib, ic) - cv(ia, ic)) > 1e-12 * abs(cv(ia, ic))
    if clause == 'SI value':
        si = [SI[ty][x] for x in names]; return abs(cv(ia, ib) * float(si[ib]) - float(si[ia])) > 1e-4 * float(si[ia])
    return True

def do_replay(path):
    meta = json.load(open(os.path.join(path, 'input.json')))
    if meta.get('kind') == 'convert':
        names = parse_enums()[meta['dimension']]
        ok = replay_convert(meta['dimension'], meta['clause'], meta['a'], meta['b'], meta['c'], names)
    else:
        ok = True
    print('replay: %s' % ('reproduced' if ok else 'not reproduced'))
    if ok: print('VIOLATION property=C20 replay=%s' % path); return 1
    return 0

if __name__ == '__main__':
    sys.exit(common.main_wrapper('C20', check_c20))
