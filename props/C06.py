# C06 — inverse solvers (E2), claimed partially:
#   (a) tools::linalg_constrained_qrsolve: the returned vector satisfies the constraints exactly and its residual gradient is
#       orthogonal to the constraint null space;   Eigen::HouseholderQR (third party) by contract.
#   (b) csg_imc_solve (CG_IMC_solve::Run): x solves (A^T A + r I) x = -A^T b and is split into the per-interaction tables named in
#       the index file;   Eigen::SelfAdjointEigenSolver by contract, files by model (engine/fileio.py, shared with C08).
# csg_fmatch (trajectory -> design matrix) is outside.
import sys, os, json, re, itertools
from fractions import Fraction as F
import z3
import common, llir, symx, models, smt, fileio
from symx import Ptr, alloc_i64, alloc_doubles, read_doubles, explore, sgn64, is_sym

HARNESS = 'C06_solve.cc'
FIO = fileio.FileIO()

def R(x): return x if is_sym(x) else z3.RealVal(F(x))
def simp(e): return z3.simplify(e, som=True) if is_sym(e) else e
def is_zero(e):
    e = simp(R(e))
    return z3.is_rational_value(e) and e.numerator_as_long() == 0

# ---- rational orthogonal frames (not symmetric, so that a transposed use is visible) ----
def mat_mul(A, B): return [[sum((A[i][k] * B[k][j] for k in range(len(B))), F(0)) for j in range(len(B[0]))] for i in range(len(A))]
def transpose(A): return [list(r) for r in zip(*A)]
def eye(n): return [[F(int(i == j)) for j in range(n)] for i in range(n)]
def rot(n, i, j, c, s_):
    M = eye(n); M[i][i] = c; M[j][j] = c; M[i][j] = -s_; M[j][i] = s_; return M
def frame(n, variant=0):
    """an n x n rational orthogonal matrix without special structure (product of Pythagorean Givens rotations)"""
    trip = [(F(3, 5), F(4, 5)), (F(5, 13), F(12, 13)), (F(8, 17), F(15, 17)), (F(7, 25), F(24, 25)), (F(20, 29), F(21, 29))]
    Q = eye(n); k = variant
    for i in range(n):
        for j in range(i + 1, n):
            c, s_ = trip[k % len(trip)]; k += 1
            Q = mat_mul(Q, rot(n, i, j, c, s_))
    if n == 1: Q = [[F(-1)]] if variant % 2 else [[F(1)]]
    assert mat_mul(transpose(Q), Q) == eye(n)
    return Q

def rd_matrix(it, m):
    data = it.load(m, 8); rows = sgn64(it.load(Ptr(m.obj, m.off + 8), 8)); cols = sgn64(it.load(Ptr(m.obj, m.off + 16), 8))
    return [[it.load(Ptr(data.obj, data.off + 8 * (c * rows + r)), 8, llir.FloatTy(64)) for c in range(cols)] for r in range(rows)]
def wr_matrix(it, m, M):
    """overwrite the contents of an existing column-major MatrixXd of the same shape"""
    data = it.load(m, 8); rows = len(M)
    for r in range(rows):
        for c in range(len(M[0])): it.store(Ptr(data.obj, data.off + 8 * (c * rows + r)), M[r][c], 8)
def rd_vector(it, v):
    data = it.load(v, 8); n = sgn64(it.load(Ptr(v.obj, v.off + 8), 8))
    return [it.load(Ptr(data.obj, data.off + 8 * i), 8, llir.FloatTy(64)) for i in range(n)]
def new_vector(it, dst, xs, name):
    nd = it.alloc(8 * max(1, len(xs)), name); it.store(dst, nd, 8); it.store(Ptr(dst.obj, dst.off + 8), len(xs), 8)
    for i, x in enumerate(xs): it.store(Ptr(nd.obj, 8 * i), x, 8)
def new_matrix(it, dst, M, name):
    rows = len(M); cols = len(M[0]) if M else 0
    nd = it.alloc(8 * max(1, rows * cols), name); it.store(dst, nd, 8); it.store(Ptr(dst.obj, dst.off + 8), rows, 8); it.store(Ptr(dst.obj, dst.off + 16), cols, 8)
    for r in range(rows):
        for c in range(cols): it.store(Ptr(nd.obj, 8 * (c * rows + r)), M[r][c], 8)
def sym_mul(A, B):
    return [[simp(z3.Sum([R(A[i][k]) * R(B[k][j]) for k in range(len(B))])) for j in range(len(B[0]))] for i in range(len(A))]

class ContractMismatch(Exception): pass

# ---- contract for Eigen::HouseholderQR (third party) -----------------------------------------------------------------
class QRContract:
    """HouseholderQR(M).householderQ() is SOME orthogonal Q with Q^T M = [R; 0] (R upper triangular); HouseholderQR(M).solve(b)
    is a least-squares solution z of M z ~ b (normal equations M^T (M z - b) = 0).  The harness knows a frame Q for the constraint
    matrix it builds (constr = L Q1^T); the stub checks that Q really triangularises the matrix the code passed, so that a
    factorisation of anything else (constr instead of constr^T, wrong block) is noticed instead of silently modelled."""
    def __init__(s, Q): s.Q = Q; s.of = {}; s.events = []; s.normal = {}
    def models(s):
        def key(it, p): return (id(it), p.obj, p.off)
        def ctor_T(it, a):
            this = a[0]; inner = it.load(a[1], 8)           # Transpose<const MatrixXd>: reference to the matrix
            M = transpose(rd_matrix(it, inner))
            s.of[key(it, this)] = ('Q', M); s.events.append(('qr-of-transpose', len(M), len(M[0])))
            if len(M) != len(s.Q): raise ContractMismatch('HouseholderQR of a %dx%d matrix where constr^T is %dx?' % (len(M), len(M[0]), len(s.Q)))
            low = sym_mul(transpose(s.Q), M)
            for i in range(len(low)):
                for j in range(len(low[0])):
                    if i > j and not is_zero(low[i][j]): raise ContractMismatch('the matrix given to the first HouseholderQR is not constr^T')
            return None
        def ctor(it, a):
            this = a[0]; M = rd_matrix(it, a[1]); s.of[key(it, this)] = ('LS', M); s.events.append(('qr', len(M), len(M[0]) if M else 0)); return None
        def dtor(it, a): return None
        def solve(it, a):
            this, rhs, dst = a
            kind, M = s.of[key(it, this)]; b = rd_vector(it, rhs); n = len(M); m = len(M[0])
            if len(b) != n: raise ContractMismatch('solve: right-hand side of length %d for a %dx%d matrix' % (len(b), n, m))
            z = [it.newsym('ls_z') for _ in range(m)]
            res = [z3.Sum([R(M[i][j]) * z[j] for j in range(m)]) - R(b[i]) for i in range(n)]
            ne = [simp(z3.Sum([R(M[i][j]) * res[i] for i in range(n)])) for j in range(m)]; s.normal[id(it)] = ne
            for e in ne: it.assume(e == 0)
            s.events.append(('solve', n, m))
            new_vector(it, dst, z, 'qr_solution'); return None
        def seq_Q(it, seq):
            qr = it.load(seq, 8)                             # HouseholderSequence::m_vectors -> HouseholderQR::m_qr (offset 0)
            k = key(it, qr)
            if k not in s.of or s.of[k][0] != 'Q': raise ContractMismatch('householderQ() of a factorisation the contract does not cover')
            return s.Q
        def apply_right(it, a):
            Q = seq_Q(it, a[0]); D = rd_matrix(it, a[1])
            if D and len(D[0]) != len(Q): raise ContractMismatch('A * Q with A having %d columns, Q being %dx%d' % (len(D[0]), len(Q), len(Q)))
            wr_matrix(it, a[1], sym_mul(D, Q)); s.events.append(('A*Q',)); return None
        def times_vec(it, a):
            dst, seq, v = a; Q = seq_Q(it, seq); x = rd_vector(it, v)
            if len(x) != len(Q): raise ContractMismatch('Q * v with v of length %d' % len(x))
            new_vector(it, dst, [r[0] for r in sym_mul(Q, [[e] for e in x])], 'Q_times_v'); s.events.append(('Q*v',)); return None
        P = 'N5Eigen13HouseholderQRINS_6MatrixIdLin1ELin1ELi0ELin1ELin1EEEE'
        HS = 'NK5Eigen19HouseholderSequenceINS_6MatrixIdLin1ELin1ELi0ELin1ELin1EEENS1_IdLin1ELi1ELi0ELin1ELi1EEELi1EE'
        return {'re:^@_Z' + P + 'C[12]INS_9TransposeIKS2_EEEERKNS_9EigenBaseIT_EE': ctor_T,
                're:^@_Z' + P + 'C[12]IS2_EERNS_9EigenBaseIT_EE': ctor, 're:^@_Z' + P + 'D[12]Ev': dtor,
                're:^@_ZNK' + P[1:] + '11_solve_impl': solve,
                're:^@_Z' + HS + '19applyThisOnTheRightIS2_EEvRT_$': apply_right,
                're:^@_Z' + HS + 'mlIS3_EE': times_vec}

def cqr_case(ck, mod, parsed, n, m, k, variant, TO, found):
    """A (n x m) and b arbitrary, constr = L Q1^T with L an arbitrary invertible lower-triangular k x k matrix and Q a listed frame"""
    Q = frame(m, variant); Q1 = [r[:k] for r in Q]; Q2 = [r[k:] for r in Q]
    A = [[z3.Real('a%d_%d' % (i, j)) for j in range(m)] for i in range(n)]; b = [z3.Real('b%d' % i) for i in range(n)]
    L = [[z3.Real('l%d_%d' % (i, j)) if j <= i else F(0) for j in range(k)] for i in range(k)]
    C = sym_mul(L, transpose(Q1))
    qc = QRContract(Q); mism = []
    def body(it):
        for j in range(m): it.assume(A[0][j] != 0)           # no zero column (that case is a separate clause)
        for i in range(k): it.assume(L[i][i] != 0)
        pa = alloc_doubles(it, 'A', [A[i][j] for i in range(n) for j in range(m)]); pb = alloc_doubles(it, 'b', b)
        pc = alloc_doubles(it, 'C', [C[i][j] for i in range(k) for j in range(m)]); px = it.alloc(8 * (m + 2), 'x')
        try: rc = sgn64(it.call('@h_cqr', [pa, pb, pc, n, m, k, px]))
        except ContractMismatch as e: mism.append(str(e)); return None
        return rc, read_doubles(it, px, m) if rc == m else []
    M = models.all_models(); M.update(qc.models())
    res, st = explore(mod, M, body, parsed=parsed, max_paths=400); ck.stubs |= st['models_used']
    label = 'constrained least squares, A %dx%d, %d constraint(s), frame %d' % (n, m, k, variant)
    ck.add_witness('%s: %d path(s), events %s' % (label, len(res), sorted(set(e[0] for e in qc.events))), len(res) >= 1 and (mism or {'A*Q', 'Q*v', 'solve'} <= set(e[0] for e in qc.events)))
    meta = {'clause': 'cqr', 'n': n, 'm': m, 'k': k, 'variant': variant}
    if mism:
        ck.obligation(label + ': the Householder factorisations are taken of constr^T and of the right block of A Q', 'sat', 0, True, {'contract': mism[0]})
        found.append((label + ': ' + mism[0], meta)); return
    q1 = []; q2 = []; ident = 0
    for it, r in res:
        pc = list(it.pc)
        rc, x = r
        if rc != m: q1.append((pc, [z3.BoolVal(True)])); continue
        Cx = [simp(z3.Sum([R(C[i][j]) * R(x[j]) for j in range(m)])) for i in range(k)]
        q1.append((pc, [z3.Or([e != 0 for e in Cx])] if k else [z3.BoolVal(False)]))
        resid = [z3.Sum([A[i][j] * R(x[j]) for j in range(m)]) - b[i] for i in range(n)]
        grad = [z3.Sum([A[i][j] * resid[i] for i in range(n)]) for j in range(m)]
        proj = [simp(z3.Sum([R(Q2[j][c]) * grad[j] for j in range(m)])) for c in range(m - k)]
        ne = qc.normal.get(id(it), [])
        if len(ne) == len(proj) and all(is_zero(proj[c] - ne[c]) for c in range(len(proj))):
            # normal form: the projected gradient IS the left-hand side of the normal equations the factorised block satisfies
            q2.append((pc, [z3.Or([e != 0 for e in ne])])); ident += 1
        else: q2.append((pc, [z3.Or([e != 0 for e in proj])]))
    xf = [z3.Real('x_free%d' % j) for j in range(m)]
    s1, mdl1 = smt.agg_core(ck, label + ': constr * x = 0 exactly', q1, TO, probe=[z3.Or([z3.Sum([R(C[i][j]) * xf[j] for j in range(m)]) != 0 for i in range(k)])])
    if s1 == 'sat': found.append((label + ': constraints violated', dict(meta, model=mdl1)))
    s2, mdl2 = smt.agg_core(ck, label + ': A^T (A x - b) is orthogonal to the null space of constr', q2, TO, probe=[g for g in q2[0][1]] if q2 else None)
    if s2 == 'sat': found.append((label + ': residual gradient not orthogonal to the constraint null space', dict(meta, model=mdl2)))

def cqr_zero_column(ck, mod, parsed, n, m, k, TO, found):
    Q = frame(m, 0); Q1 = [r[:k] for r in Q]
    for zc in range(m):
        A = [[(F(0) if j == zc else z3.Real('a%d_%d' % (i, j))) for j in range(m)] for i in range(n)]; b = [z3.Real('b%d' % i) for i in range(n)]
        C = [[Q1[j][i] for j in range(m)] for i in range(k)]
        qc = QRContract(Q)
        def body(it):
            for j in range(m):
                if j != zc: it.assume(A[0][j] != 0)
            pa = alloc_doubles(it, 'A', [A[i][j] for i in range(n) for j in range(m)]); pb = alloc_doubles(it, 'b', b)
            pc = alloc_doubles(it, 'C', [C[i][j] for i in range(k) for j in range(m)]); px = it.alloc(8 * (m + 2), 'x')
            try: return sgn64(it.call('@h_cqr', [pa, pb, pc, n, m, k, px]))
            except ContractMismatch: return 0
        M = models.all_models(); M.update(qc.models())
        res, st = explore(mod, M, body, parsed=parsed, max_paths=200)
        q = [(list(it.pc), [z3.BoolVal(rc != -1)]) for it, rc in res]
        name = 'constrained least squares, A %dx%d whose column %d is zero: rejected with an error' % (n, m, zc)
        s_, mdl = smt.agg_core(ck, name, q, TO, probe=[z3.BoolVal(True)])
        if s_ == 'sat': found.append((name, {'clause': 'cqr-zero', 'n': n, 'm': m, 'k': k, 'zc': zc}))

def validate_cqr(ck, mod, parsed):
    """encoder + contract validation: one concrete instance through the interpreter (contract in place, exact rationals; the
    least-squares symbols are determined by their normal equations) against the native build running the real Eigen code"""
    n, m, k, v = 3, 3, 1, 0
    A, b, C = concrete_instance(n, m, k, v, None)
    qc = QRContract(frame(m, v))
    def body(it):
        pa = alloc_doubles(it, 'A', [x for r in A for x in r]); pb = alloc_doubles(it, 'b', b); pc = alloc_doubles(it, 'C', [x for r in C for x in r]); px = it.alloc(8 * (m + 2), 'x')
        rc = sgn64(it.call('@h_cqr', [pa, pb, pc, n, m, k, px])); return rc, read_doubles(it, px, m) if rc == m else []
    M = models.all_models(); M.update(qc.models())
    res, st = explore(mod, M, body, parsed=parsed, max_paths=50)
    it, (rc, x) = res[0]
    r, dt, mdl = smt.check(list(it.pc) + [z3.Real('vx%d' % j) == R(x[j]) for j in range(m)], 30)
    sym = [float(F(str(mdl['vx%d' % j]))) if r == 'sat' and mdl else None for j in range(m)]
    nat = native_cqr(n, m, k, A, b, C)
    ok = rc == m and nat[0] == m and r == 'sat' and all(abs(sym[j] - nat[1][j]) < 1e-9 * max(1, abs(nat[1][j])) for j in range(m))
    ck.add_validation('linalg_constrained_qrsolve 3x3, 1 constraint: interpreter with the QR contract vs native run with the real Eigen code', 1, ok, 'symbolic %s native %s' % (sym, nat))

def concrete_instance(n, m, k, v, zc):
    import random
    rnd = random.Random(7)
    Q = frame(m, v); Q1 = [r[:k] for r in Q]
    A = [[F(rnd.randint(1, 9)) + F(i == j) * 3 for j in range(m)] for i in range(n)]; b = [F(rnd.randint(-5, 5)) for i in range(n)]
    if zc is not None:
        for i in range(n): A[i][zc] = F(0)
    L = [[F(rnd.randint(1, 4)) if j <= i else F(0) for j in range(k)] for i in range(k)]
    return A, b, mat_mul(L, transpose(Q1))

def native_cqr(n, m, k, A, b, C):
    binp = native_bin()
    args = [str(n), str(m), str(k)] + [repr(float(x)) for r in A for x in r] + [repr(float(x)) for x in b] + [repr(float(x)) for r in C for x in r]
    rc, so, se = common.run_native(binp, args=args); o = so.strip().split()
    if not o: return None, se[:200]
    return int(o[0]), [float(t) for t in o[1:]]

def check_c06(ck, tier, replay=None):
    if replay:
        meta = json.load(open(os.path.join(replay, 'input.json'))); ok, why = replay_native(meta); print('replay: %s (%s)' % ('reproduced' if ok else 'not reproduced', why))
        if ok: print('VIOLATION property=C06 replay=%s' % replay); return 1
        return 0
    TO = 60
    ir, dt = common.compile_ir(common.harness_path(HARNESS), extra=['-I' + common.REPO])
    mod = llir.parse_module(ir); parsed = {}
    ck.units += ['tools/src/libtools/linalg.cc', 'csg/src/tools/csg_imc_solve.cc', 'csg/src/libcsg/imcio.cc', 'tools/src/libtools/table.cc', 'tools/src/libtools/rangeparser.cc']
    ck.functions.update(common.ir_func_sizes(mod, r'^@h_|linalg_constrained_qrsolve|CG_IMC_solve3Run|imcio_read'))
    ck.assumptions += ['doubles as exact reals',
                       'Eigen::HouseholderQR (third party) by contract: householderQ() is an orthogonal Q with Q^T M = [R;0] for the matrix M it was given (checked against the matrix the code passes), solve(b) satisfies the normal equations; which matrices are factorised, which block of A Q is used, where z is placed and how Q is applied is the real code',
                       'constraint matrices are constr = L Q1^T with L an arbitrary invertible lower-triangular matrix and Q from a list of rational orthogonal frames (every full-rank constraint matrix has this form for some orthogonal Q; the list is the bound)']
    found = []
    validate_cqr(ck, mod, parsed)
    cases = [(2, 2, 1, 0), (3, 3, 1, 0), (3, 3, 2, 1), (4, 3, 1, 2)] + ([(4, 4, 2, 0), (5, 3, 1, 1), (5, 4, 3, 2), (4, 3, 2, 3)] if tier != 'quick' else [])
    for (n, m, k, v) in cases: cqr_case(ck, mod, parsed, n, m, k, v, TO, found)
    cqr_zero_column(ck, mod, parsed, 3, 3, 1, TO, found)
    ck.bounds['cqr'] = 'constraint null space of dimension <= 2 (dimension 3, e.g. 4x4 with 1 constraint, was not decided by z3 within 60 s and is outside); A n x m, b arbitrary reals; (n, m, constraints, frame) in %s; zero-column rejection for 3x3' % cases
    try:
        import C06i
        C06i.check_imc(ck, tier, mod, parsed, found)
    except ImportError:
        pass
    try:
        import C06f
        C06f.check_fmatch(ck, tier, found)
    except ImportError:
        pass
    for name, meta in found:
        rep = common.write_replay('C06', name, {}, meta)
        ok, why = replay_native(meta)
        ck.violation('C06 ' + meta['clause'], name + ' ; ' + why, rep, reproduced=ok)

DRIVER = r'''
#include <cstdio>
#include <cstdlib>
#include <cmath>
extern "C" long h_cqr(const double* a, const double* b, const double* c, long n, long m, long k, double* x);
int main(int argc, char** argv) {
  long n = atol(argv[1]), m = atol(argv[2]), k = atol(argv[3]); int p = 4;
  double a[64], b[16], c[64], x[16];
  for (long i = 0; i < n * m; i++) a[i] = atof(argv[p++]);
  for (long i = 0; i < n; i++) b[i] = atof(argv[p++]);
  for (long i = 0; i < k * m; i++) c[i] = atof(argv[p++]);
  long rc = h_cqr(a, b, c, n, m, k, x);
  printf("%ld", rc); for (long j = 0; j < (rc > 0 ? rc : 0); j++) printf(" %.17g", x[j]); printf("\n");
}
'''
def native_bin():
    drv = os.path.join(common.workdir(), 'c06_driver.cc'); open(drv, 'w').write(DRIVER)
    return common.native_build([common.harness_path(HARNESS), drv], 'C06_native', extra=['-I' + common.REPO, '-I/usr/include/eigen3'], libs=['-lboost_program_options'] + common.votca_libs())

def replay_native(meta):
    c = meta['clause']
    if c.startswith('imc'):
        import C06i
        return C06i.replay_native(meta)
    if c.startswith('fmatch'):
        import C06f
        return C06f.replay_native(meta)
    n, m, k = meta['n'], meta['m'], meta['k']; v = meta.get('variant', 0)
    Q = frame(m, v); Q2 = [r[k:] for r in Q]
    A, b, C = concrete_instance(n, m, k, v, meta.get('zc') if c == 'cqr-zero' else None)
    nat = native_cqr(n, m, k, A, b, C)
    if nat[0] is None: return True, 'native run failed: ' + str(nat[1])
    o = [str(nat[0])] + [repr(t) for t in nat[1]]
    if c == 'cqr-zero': return int(o[0]) != -1, 'native: A with zero column %d returned %s' % (meta['zc'], o[0])
    if int(o[0]) != m: return True, 'native: returned %s' % o[0]
    x = [float(t) for t in o[1:]]
    Cx = max(abs(sum(float(C[i][j]) * x[j] for j in range(m))) for i in range(k)) if k else 0.0
    resid = [sum(float(A[i][j]) * x[j] for j in range(m)) - float(b[i]) for i in range(n)]
    grad = [sum(float(A[i][j]) * resid[i] for i in range(n)) for j in range(m)]
    proj = max([abs(sum(float(Q2[j][cc]) * grad[j] for j in range(m))) for cc in range(m - k)] or [0.0])
    scale = max(1.0, max(abs(t) for t in x))
    bad = Cx > 1e-9 * scale or proj > 1e-7 * scale
    return bad, 'native (real Eigen): |constr x| = %.3g, |Z^T A^T (A x - b)| = %.3g for x = %s' % (Cx, proj, x)

if __name__ == '__main__':
    sys.exit(common.main_wrapper('C06', check_c06))
