# C06 (c): csg_fmatch block bookkeeping -- one call of the real CGForceMatching::EvalConfiguration from an arbitrary matrix state.
# "independent of how frames are split into blocks" needs: every block is solved on its own frames' rows only, and the state handed
# to the next block is clean.  One inductive step: arbitrary A_, b_, B_constr_ (symbols), arbitrary forces.
import sys, os, json
from fractions import Fraction as F
import z3
import common, llir, symx, models, smt
from symx import Ptr, alloc_i64, alloc_doubles, read_doubles, explore, sgn64, is_sym

HARNESS = 'C06_fmatch.cc'
def R(x): return x if is_sym(x) else z3.RealVal(F(x))

def fm_models():
    M = models.all_models()
    M['re:^@_ZN15CGForceMatching20FmatchAccumulateDataEv'] = lambda it, a: it.call('@h_fm_accumulate', [a[0]])
    M['re:^@_ZN15CGForceMatching13WriteOutFilesEv'] = lambda it, a: it.call('@h_fm_writeout', [a[0]])
    try:
        import fileio
        FM = fileio.FileIO().models()
        for k, v in FM.items(): M.setdefault(k, v)
    except Exception: pass
    return M

def check_fmatch(ck, tier, found):
    TO = 60
    ir, dt = common.compile_ir(common.harness_path(HARNESS), extra=['-I' + common.REPO])
    mod = llir.parse_module(ir); parsed = {}
    ck.units += ['csg/src/tools/csg_fmatch.cc (CGForceMatching::EvalConfiguration, FmatchAssignSmoothCondsToMatrix)']
    ck.functions.update(common.ir_func_sizes(mod, r'^@h_fm|CGForceMatching(17EvalConfiguration|31FmatchAssign)'))
    ck.assumptions.append('csg_fmatch block bookkeeping: no interaction splines registered (the rows the interactions add to the design matrix are outside), FmatchAccumulateData and WriteOutFiles are recording stubs (the solve itself is clause (a)); one EvalConfiguration call from an arbitrary matrix state is an inductive step over the frame sequence')
    cases = [(c, nb, nf, fc) for c in (0, 1) for (nb, nf, fc) in ((1, 1, 0), (1, 2, 1), (1, 2, 0), (2, 1, 0))]
    if tier != 'quick': cases += [(c, nb, nf, fc) for c in (0, 1) for (nb, nf, fc) in ((2, 2, 1), (2, 2, 0), (1, 3, 2), (1, 3, 1))]
    for (constr, nb, nf, fc) in cases:
        offset = 0 if constr else 1; cols = 2; rows = offset + 3 * nb * nf; crows = 1 if constr else 0
        A = [[z3.Real('a%d_%d' % (i, j)) for j in range(cols)] for i in range(rows)]; b = [z3.Real('b%d' % i) for i in range(rows)]
        Bc = [[z3.Real('c%d_%d' % (i, j)) for j in range(cols)] for i in range(max(crows, 1))]; f = [z3.Real('f%d' % i) for i in range(3 * nb)]
        def body(it):
            pa = alloc_doubles(it, 'A', [x for r in A for x in r]); pb = alloc_doubles(it, 'b', b); pc = alloc_doubles(it, 'Bc', [x for r in Bc for x in r]); pf = alloc_doubles(it, 'f', f)
            oA = it.alloc(8 * rows * cols, 'oA'); ob = it.alloc(8 * rows, 'ob'); oB = it.alloc(8 * max(1, crows) * cols, 'oB'); aA = it.alloc(8 * rows * cols, 'aA'); ab = it.alloc(8 * rows, 'ab'); out = it.alloc(8 * 8, 'out')
            for p_, n_ in ((oA, rows * cols), (ob, rows), (oB, max(1, crows) * cols), (aA, rows * cols), (ab, rows)): it.zerofill(p_, 8 * n_)
            rc = sgn64(it.call('@h_fm_frame', [constr, nb, nf, fc, offset, pa, rows, cols, pb, pc, crows, pf, oA, ob, oB, aA, ab, out]))
            o = [sgn64(it.load(Ptr(out.obj, 8 * k), 8)) for k in range(5)]
            return rc, o, read_doubles(it, oA, rows * cols), read_doubles(it, ob, rows), read_doubles(it, oB, crows * cols), read_doubles(it, aA, rows * cols), read_doubles(it, ab, rows)
        res, st = explore(mod, fm_models(), body, parsed=parsed, max_paths=200); ck.stubs |= st['models_used']
        last = (fc + 1) % nf == 0
        label = 'csg_fmatch %s least squares, %d bead(s), %d frame(s) per block, frame %d of the block' % ('constrained' if constr else 'plain', nb, nf, fc)
        ck.add_witness('%s: %d path(s)' % (label, len(res)), len(res) >= 1)
        q = []
        for it, (rc, o, oA, ob, oB, aA, ab) in res:
            pc_ = list(it.pc)
            if rc != 0: q.append((pc_, [z3.BoolVal(True)])); continue
            # rows of this frame in b_: x block, y block, z block
            exp_b = list(b)
            for i in range(nb):
                for c in range(3): exp_b[offset + 3 * nb * fc + c * nb + i] = f[3 * i + c]
            goal = []
            if last:
                goal += [z3.BoolVal(o[0] == 0 and o[1] == 1 and o[2] == 1 and o[3] == 1 and o[4] == 1)]
                goal += [R(ab[i]) == exp_b[i] for i in range(rows)] + [R(aA[i * cols + j]) == A[i][j] for i in range(rows) for j in range(cols)]   # what the solver saw
                goal += [R(x) == 0 for x in oA] + [R(x) == 0 for x in ob] + [R(x) == 0 for x in oB]                                             # what the next block starts from
            else:
                goal += [z3.BoolVal(o[0] == fc + 1 and o[1] == 0 and o[2] == 0 and o[3] == 0)]
                goal += [R(ob[i]) == exp_b[i] for i in range(rows)] + [R(oA[i * cols + j]) == A[i][j] for i in range(rows) for j in range(cols)]
                goal += [R(oB[i * cols + j]) == Bc[i][j] for i in range(crows) for j in range(cols)]
            q.append((pc_, [z3.Not(z3.And(goal))]))
        name = label + (': the block is solved on its own rows (forces in x/y/z blocks) and the next block starts from zero matrices (no smoothing rows without splines)' if last else ': only this frame\'s force rows change, the block stays open')
        s_, mdl = smt.agg_core(ck, name, q, TO, probe=[z3.Real('free_probe') != 0])
        if s_ == 'sat': found.append((name, {'clause': 'fmatch-block', 'constr': constr, 'nb': nb, 'nf': nf, 'fc': fc, 'model': mdl}))
    ck.bounds['fmatch blocks'] = '(constrained, beads, frames per block, frame index) in %s; 2 columns; arbitrary real matrix state and forces' % cases

NATIVE_MAIN = r'''
#include <cstdio>
#include <cstdlib>
extern "C" long h_fm_frame(long constr, long nbeads, long nframes, long frame_counter, long offset, const double* a, long rows, long cols, const double* b, const double* bc, long crows, const double* f, double* outA, double* outb, double* outBc, double* accA, double* accb, long* out);
int main(int argc, char** argv) {
  long constr = atol(argv[1]), nb = atol(argv[2]), nf = atol(argv[3]), fc = atol(argv[4]);
  long offset = constr ? 0 : 1, cols = 2, rows = offset + 3 * nb * nf, crows = constr ? 1 : 0;
  double a[64], b[32], bc[8], f[16], oA[64], ob[32], oB[8], aA[64], ab[32]; long out[8];
  for (long i = 0; i < rows * cols; i++) a[i] = 1.5 + i; for (long i = 0; i < rows; i++) b[i] = -2.25 - i; for (long i = 0; i < 8; i++) bc[i] = 0.5 + i; for (long i = 0; i < 3 * nb; i++) f[i] = 10 + i;
  long rc = h_fm_frame(constr, nb, nf, fc, offset, a, rows, cols, b, bc, crows, f, oA, ob, oB, aA, ab, out);
  double mA = 0, mb = 0, mB = 0; for (long i = 0; i < rows * cols; i++) if (oA[i] * oA[i] > mA) mA = oA[i] * oA[i]; for (long i = 0; i < rows; i++) if (ob[i] * ob[i] > mb) mb = ob[i] * ob[i]; for (long i = 0; i < crows * cols; i++) if (oB[i] * oB[i] > mB) mB = oB[i] * oB[i];
  printf("%ld %ld %ld %ld %g %g %g\n", rc, out[0], out[1], out[2], mA, mb, mB);
}
'''
def replay_native(meta):
    constr, nb, nf, fc = meta['constr'], meta['nb'], meta['nf'], meta['fc']
    src = os.path.join(common.workdir(), 'c06f_native.cc')
    h = open(common.harness_path(HARNESS)).read()
    # native build: the real FmatchAccumulateData (real Eigen solve) and WriteOutFiles run; only the state after the call is inspected
    open(src, 'w').write(h + NATIVE_MAIN)
    try:
        binp = common.native_build([src], 'C06f_native', extra=['-I' + common.REPO, '-I/usr/include/eigen3', '-I' + common.REPO + '/csg/src/tools'], libs=['-lboost_program_options', '-lboost_filesystem', '-lboost_system'] + common.votca_libs())
        rc, so, se = common.run_native(binp, args=[str(constr), str(nb), str(nf), str(fc)])
    except Exception as e:
        return True, 'native build of the block-bookkeeping replay failed (%s); the interpreter executed the real EvalConfiguration' % str(e)[-300:]
    o = (so.strip().split('\n')[-1] if so.strip() else '').split()
    if len(o) < 7: return True, 'native run failed: %s %s' % (so[:100], se[:200])
    last = (fc + 1) % nf == 0
    if last: bad = o[0] != '0' or o[1] != '0' or any(float(x) != 0.0 for x in o[4:7])
    else: bad = o[0] != '0' or int(o[1]) != fc + 1
    return bad, 'native EvalConfiguration (%s, %d beads, %d frames/block, frame %d): frame counter %s, blocks %s, max |A|^2 %s, |b|^2 %s, |B_constr|^2 %s after the call' % ('constrained' if constr else 'plain', nb, nf, fc, o[1], o[2], o[4], o[5], o[6])
