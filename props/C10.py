# C10 — shared job file: one synchronisation step of the real ProgObserver, the merge rule, thread-mutex bracketing, file-lock mode (E2)
import sys, os, json, time, itertools, re
from fractions import Fraction as F
import z3
import common, llir, symx, models, smt
from symx import Ptr, explore, sgn64, is_sym

HARNESS = 'C10_jobs.cc'
AVAILABLE, ASSIGNED, FAILED, COMPLETE = 0, 1, 2, 3
THIS = ord('H'); OTHER = ord('X')
F_RDLCK, F_WRLCK, F_UNLCK = 0, 1, 2

def po_models(trace, host=THIS):
    M = models.all_models()
    def gen_host(it, a):
        models.sinit(it, a[0], bytes([host]) + b':1'); return None
    def gen_time(it, a):
        models.sinit(it, a[0], b'T'); return None
    def load(it, a): trace.append(('LOAD',)); it.call('@h_load_impl', [a[0], a[1]]); return None
    def write(it, a): trace.append(('WRITE',)); it.call('@h_write_impl', [a[0], a[1]]); return None
    def m_open(it, a): trace.append(('open',)); return 7
    def m_fcntl(it, a):
        fd, cmd, fl = a[0], a[1], a[2]
        lt = it.load(fl, 2) if isinstance(fl, Ptr) else None
        trace.append(('fcntl', sgn64(cmd) & 0xffffffff, lt)); return 0
    def lockm(it, a): trace.append(('tlock',)); return None
    def unlockm(it, a): trace.append(('tunlock',)); return None
    M.update({'re:^@_ZN5votca3xtp12ProgObserverISt6vectorINS0_3JobESaIS3_EEE12GenerateHostB5cxx11Ev': gen_host, 're:^@_ZN5votca3xtp12ProgObserverISt6vectorINS0_3JobESaIS3_EEE12GenerateTimeB5cxx11Ev': gen_time,
              're:^@_ZN5votca3xtp9LOAD_JOBSE': load, 're:^@_ZN5votca3xtp10WRITE_JOBSE': write, '@open': m_open, '@open64': m_open, '@fcntl': m_fcntl, '@fcntl64': m_fcntl, '@close': lambda it, a: 0,
              '@_ZN5votca5tools5Mutex4LockEv': lockm, '@_ZN5votca5tools5Mutex6UnlockEv': unlockm,
              '@isspace': lambda it, a: int(chr(a[0] & 0xff).isspace()), '@ispunct': lambda it, a: 0})
    return M

def mk_jobs(it, specs):
    v = it.call('@h_jobs_new', [])
    for i, (st, hh, hc) in enumerate(specs): it.call('@h_jobs_add', [v, i, st, hh, hc])
    return v

def get_jobs(it, v):
    n = sgn64(it.call('@h_jobs_size', [v])); out = []
    buf = it.alloc(8 * 8, 'jobget')
    for i in range(n):
        it.call('@h_job_get', [v, i, buf]); out.append([it.load(Ptr(buf.obj, 8 * k), 8) for k in range(7)])
    return out

def I(x): return x if is_sym(x) else z3.IntVal(sgn64(x))

def sync_step(ck, mod, tier, parsed, found):
    """J2: one SyncWithProgFile from an arbitrary pair (internal list, file) of 2 jobs"""
    TO = 60; NJ = 2
    ist = [z3.Int('ist%d' % i) for i in range(NJ)]; est = [z3.Int('est%d' % i) for i in range(NJ)]
    ehh = [z3.Int('ehh%d' % i) for i in range(NJ)]; ehc = [z3.Int('ehc%d' % i) for i in range(NJ)]
    dom = [z3.And(x >= 0, x <= 3) for x in ist + est] + [z3.And(x >= 0, x <= 1) for x in ehh] + [z3.Or(x == THIS, x == OTHER) for x in ehc]
    configs = [(c, m) for c in (1, 2) for m in (0, 1, 2, 5)] if tier == 'quick' else [(c, m) for c in (1, 2, 3) for m in (0, 1, 2, 3, 5)]
    for cache, maxjobs in configs:
        trace = []
        def body(it):
            del trace[:]
            for c in dom: it.assume(c)
            po = it.call('@h_po_setup', [cache, maxjobs, 0])
            internal = mk_jobs(it, [(ist[i], 0, 0) for i in range(NJ)]); it.call('@h_po_set_jobs', [po, internal])
            filev = mk_jobs(it, [(est[i], ehh[i], ehc[i]) for i in range(NJ)]); it.call('@h_disk_set', [filev])
            it.call('@h_po_sync', [po])
            final = get_jobs(it, it.call('@h_po_jobs', [po]))
            nproc = sgn64(it.call('@h_po_ntoproc', [po])); proc = [sgn64(it.call('@h_po_toproc', [po, k])) for k in range(nproc)]
            bak = it.call('@h_disk_backup', []); fil = it.call('@h_disk_file', [])
            bakj = get_jobs(it, bak) if isinstance(bak, Ptr) and bak.obj != 0 else None; filj = get_jobs(it, fil)
            ev = [sgn64(it.call('@h_disk_event', [k])) for k in range(6)]
            return final, proc, bakj, filj, [e for e in ev if e], list(trace)
        res, st = explore(mod, po_models(trace), body, parsed=parsed, max_paths=3000); ck.stubs |= st['models_used']
        label = 'sync(cache=%d,maxjobs=%d)' % (cache, maxjobs)
        ck.add_witness('%s: %d paths' % (label, len(res)), len(res) >= 2)
        q_assign = []; q_keep = []; q_files = []; bad_order = None; bad_lock = None
        for it, (final, proc, bakj, filj, ev, tr) in res:
            pc = list(it.pc)
            # merged (pre-assignment) state as the statement defines it
            mst = [z3.If(z3.And(ehh[i] == 1, ehc[i] != THIS), est[i], ist[i]) for i in range(NJ)]
            mhh = [z3.If(z3.And(ehh[i] == 1, ehc[i] != THIS), z3.IntVal(1), z3.IntVal(0)) for i in range(NJ)]
            # which jobs must be assigned: the first min(cache, maxjobs) available ones in file order
            lim = min(cache, maxjobs)
            cnt = z3.IntVal(0); must = []
            for i in range(NJ):
                a = z3.And(mst[i] == AVAILABLE, cnt < lim); must.append(a); cnt = cnt + z3.If(a, 1, 0)
            inproc = [z3.BoolVal(i in proc) for i in range(NJ)]
            goal = [z3.And(inproc[i] == must[i]) for i in range(NJ)] + [z3.BoolVal(len(proc) == len(set(proc)) and proc == sorted(proc))]
            for i in range(NJ):
                goal.append(z3.Implies(must[i], z3.And(I(final[i][1]) == ASSIGNED, I(final[i][2]) == 1, I(final[i][3]) == THIS)))
            q_assign.append((pc, [z3.Not(z3.And(goal))]))
            keep = [z3.Implies(z3.Not(must[i]), z3.And(I(final[i][1]) == mst[i], z3.Implies(mhh[i] == 1, z3.And(I(final[i][2]) == 1, I(final[i][3]) == ehc[i])))) for i in range(NJ)]
            q_keep.append((pc, [z3.Not(z3.And(keep))]))
            if bakj is None or len(bakj) != NJ or len(filj) != NJ: bad_order = bad_order or ('backup or job file incomplete', ev)
            else:
                fg = [z3.And(I(bakj[i][1]) == mst[i]) for i in range(NJ)] + [z3.And(I(filj[i][1]) == I(final[i][1]), I(filj[i][3]) == I(final[i][3])) for i in range(NJ)]
                q_files.append((pc, [z3.Not(z3.And(fg))]))
            if ev != [1, 2, 3]: bad_order = bad_order or ('file operations %s, expected LOAD(file), WRITE(backup), WRITE(file)' % ev, ev)
            locks = [t for t in tr if t[0] == 'fcntl']
            first_io = next((k for k, t in enumerate(tr) if t[0] in ('LOAD', 'WRITE')), None); last_io = max([k for k, t in enumerate(tr) if t[0] in ('LOAD', 'WRITE')] or [-1])
            lk = [k for k, t in enumerate(tr) if t[0] == 'fcntl']
            if len(lk) < 2 or not (lk[0] < first_io and lk[-1] > last_io): bad_lock = bad_lock or ('file lock does not bracket the load/modify/write: %s' % [t[0] for t in tr])
            else:
                lt = locks[0][2]; ut = locks[-1][2]
                if sgn64(lt) & 0xffff != F_WRLCK: bad_lock = bad_lock or ('the lock taken around the synchronisation is fcntl l_type=%s (F_RDLCK=0 shared, F_WRLCK=1 exclusive): a shared lock does not exclude other processes' % (sgn64(lt) & 0xffff))
                elif sgn64(ut) & 0xffff != F_UNLCK: bad_lock = bad_lock or 'the lock is not released with F_UNLCK'
        agg(ck, '%s: exactly the first min(cache,maxjobs) AVAILABLE jobs (after merging) become ASSIGNED to this host and enter the cache, each once, in order' % label, q_assign, TO, found, 'assignment')
        agg(ck, '%s: every other job keeps its merged state (external entries owned by another host:pid win, own entries are kept)' % label, q_keep, TO, found, 'merge')
        agg(ck, '%s: the backup holds the complete merged pre-assignment list and the job file the final list' % label, q_files, TO, found, 'files')
        ck.obligation('%s: file operations are LOAD(file), WRITE(backup), WRITE(file) on every path (so at a crash during either write the other copy is complete)' % label, 'sat' if bad_order else 'unsat', 0.0, True, {'seen': bad_order[0]} if bad_order else None)
        if bad_order: found.append(('crash-safety order', bad_order[0], {}))
        ck.obligation('%s: an exclusive inter-process file lock (fcntl F_SETLKW, l_type F_WRLCK) brackets load/modify/write and is released' % label, 'sat' if bad_lock else 'unsat', 0.0, True, {'seen': bad_lock} if bad_lock else None)
        if bad_lock: found.append(('file lock', bad_lock, {}))
        if (cache, maxjobs) == (2, 5) and res: ck.sample({'unit': 'ProgObserver::SyncWithProgFile', 'trace': [t[0] for t in res[0][1][5]], 'paths': len(res)})
    ck.bounds['sync step'] = '2 jobs; internal and file statuses symbolic in {AVAILABLE,ASSIGNED,FAILED,COMPLETE}; file entries with/without host, host this/other; cache x maxjobs in %s; restart patterns: see restart obligations' % configs

def two_process(ck, mod, tier, parsed, found):
    """J4 (sequential composition under the exclusive lock): process A synchronises, then process B (another host:pid) on the file A wrote"""
    TO = 60; NJ = 2
    fst = [z3.Int('fst%d' % i) for i in range(NJ)]
    dom = [z3.And(x >= 0, x <= 3) for x in fst]
    traceA = []; 
    def body(it):
        for c in dom: it.assume(c)
        filev = mk_jobs(it, [(fst[i], 0, 0) for i in range(NJ)]); it.call('@h_disk_set', [filev])
        outs = []
        for host in (THIS, OTHER):
            it.models = po_models(traceA, host); it._mcache = {}
            po = it.call('@h_po_setup', [2, 5, 0])
            # a second observer object: separate raw storage is not available in the harness, so process A's result is read before B starts
            internal = mk_jobs(it, [(fst[i], 0, 0) for i in range(NJ)]); it.call('@h_po_set_jobs', [po, internal])
            it.call('@h_po_sync', [po])
            nproc = sgn64(it.call('@h_po_ntoproc', [po])); outs.append([sgn64(it.call('@h_po_toproc', [po, k])) for k in range(nproc)])
        filj = get_jobs(it, it.call('@h_disk_file', []))
        return outs, filj
    res, st = explore(mod, po_models(traceA), body, parsed=parsed, max_paths=2000)
    q = []; bad = None
    for it, (outs, filj) in res:
        both = set(outs[0]) & set(outs[1])
        if both: bad = bad or ('jobs %s assigned to both processes' % sorted(both))
        # every job that was AVAILABLE is assigned to exactly one of the two; the file lists every job once with an owner
        for i in range(NJ):
            q.append((list(it.pc), [z3.Not(z3.Implies(fst[i] == AVAILABLE, z3.BoolVal((i in outs[0]) != (i in outs[1]))))]))
            q.append((list(it.pc), [z3.Not(z3.Implies(fst[i] == AVAILABLE, z3.And(I(filj[i][1]) == ASSIGNED, I(filj[i][3]) == (THIS if i in outs[0] else OTHER))))]))
    ck.obligation('two processes synchronising one after the other (exclusive lock): no job is assigned to both (%d paths)' % len(res), 'sat' if bad else 'unsat', 0.0, True, {'seen': bad} if bad else None)
    if bad: found.append(('double assignment', bad, {}))
    agg(ck, 'two processes one after the other: every AVAILABLE job ends up assigned to exactly one of them and the job file says so', q, TO, found, 'exactly-once')

def restart(ck, mod, tier, parsed, found):
    """restart patterns re-open, besides available jobs, exactly the jobs whose host or status they name"""
    TO = 60; NJ = 2
    ist = [z3.Int('ist%d' % i) for i in range(NJ)]; ehc = [z3.Int('ehc%d' % i) for i in range(NJ)]
    ehh = [z3.Int('ehh%d' % i) for i in range(NJ)]          # the job entry carries a <host> tag or not
    dom = [z3.And(x >= 0, x <= 3) for x in ist] + [z3.Or(x == THIS, x == OTHER, x == ord('Y')) for x in ehc] + [z3.And(x >= 0, x <= 1) for x in ehh]
    for which, arg, label in ((1, FAILED, 'stat(FAILED)'), (0, ord('Y'), 'host(Y:1)')):
        trace = []
        def body(it):
            for c in dom: it.assume(c)
            po = it.call('@h_po_setup', [2, 5, 1]); it.call('@h_po_add_restart', [po, which, arg])
            internal = mk_jobs(it, [(ist[i], ehh[i], ehc[i]) for i in range(NJ)]); it.call('@h_po_set_jobs', [po, internal])
            filev = mk_jobs(it, [(ist[i], ehh[i], ehc[i]) for i in range(NJ)]); it.call('@h_disk_set', [filev])
            it.call('@h_po_sync', [po])
            nproc = sgn64(it.call('@h_po_ntoproc', [po])); return [sgn64(it.call('@h_po_toproc', [po, k])) for k in range(nproc)]
        res, st = explore(mod, po_models(trace), body, parsed=parsed, max_paths=4000)
        q = []
        for it, proc in res:
            for i in range(NJ):
                want = z3.Or(ist[i] == AVAILABLE, (ist[i] == arg) if which == 1 else z3.And(ehh[i] == 1, ehc[i] == arg))
                q.append((list(it.pc), [want != z3.BoolVal(i in proc)]))
        agg(ck, 'restart pattern %s, job entries with or without a host tag: a job is (re)started iff it is AVAILABLE or named by the pattern' % label, q, TO, found, 'restart')

def merge_payload(ck, mod, tier, parsed, found):
    """results reported by another process (status, output, error) are all taken over by the merge"""
    TO = 60
    eo, ee, est = z3.Ints('eo ee est')
    trace = []
    def body(it):
        it.assume(z3.And(eo >= 0, eo <= 1, ee >= 0, ee <= 1, est >= 0, est <= 3))
        po = it.call('@h_po_setup', [1, 0, 0])
        internal = mk_jobs(it, [(ASSIGNED, 1, OTHER)]); it.call('@h_po_set_jobs', [po, internal])
        filev = it.call('@h_jobs_new', []); it.call('@h_jobs_add_full', [filev, 0, est, 1, OTHER, eo, ee]); it.call('@h_disk_set', [filev])
        it.call('@h_po_sync', [po])
        return get_jobs(it, it.call('@h_po_jobs', [po]))[0], get_jobs(it, it.call('@h_disk_file', []))[0]
    res, st = explore(mod, po_models(trace), body, parsed=parsed, max_paths=200)
    q = []
    for it, (fin, fil) in res:
        goal = z3.And(I(fin[1]) == est, I(fin[5]) == eo, I(fin[6]) == ee, I(fil[1]) == est, I(fil[5]) == eo, I(fil[6]) == ee)
        q.append((list(it.pc), [z3.Not(goal)]))
    agg(ck, 'merge: status, output and error text reported by another process are all taken over and written back (every combination of output/error present)', q, TO, found, 'merge payload')

def two_syncs(ck, mod, tier, parsed, found):
    """two successive synchronisations of the same process (cache 1): no job enters its cache twice, also with a restart pattern naming ASSIGNED jobs"""
    TO = 60; NJ = 2
    ist = [z3.Int('ist%d' % i) for i in range(NJ)]
    for rmode, label in ((0, 'no restart pattern'), (1, 'restart stat(ASSIGNED)'), (2, 'restart stat(FAILED)')):
        trace = []
        def body(it):
            for x in ist: it.assume(z3.And(x >= 0, x <= 3))
            po = it.call('@h_po_setup', [1, 5, 1 if rmode else 0])
            if rmode: it.call('@h_po_add_restart', [po, 1, 1 if rmode == 1 else 2])
            internal = mk_jobs(it, [(ist[i], 0, 0) for i in range(NJ)]); it.call('@h_po_set_jobs', [po, internal])
            filev = mk_jobs(it, [(ist[i], 0, 0) for i in range(NJ)]); it.call('@h_disk_set', [filev])
            outs = []
            for k in range(2):
                it.call('@h_po_sync', [po])
                n = sgn64(it.call('@h_po_ntoproc', [po])); outs.append([sgn64(it.call('@h_po_toproc', [po, j])) for j in range(n)])
            return outs
        res, st = explore(mod, po_models(trace), body, parsed=parsed, max_paths=400)
        bad = [(it, o) for it, o in res if set(o[0]) & set(o[1])]
        mdl = smt.check(list(bad[0][0].pc), 20)[2] if bad else None
        ck.obligation('two successive synchronisations of one process, cache 1, %s: no job is handed to its workers twice (%d paths)' % (label, len(res)), 'sat' if bad else 'unsat', 0.0, True, {'model': mdl, 'handed_out': bad[0][1]} if bad else None)
        if bad: found.append(('double hand-out', 'with %s a job enters the cache of the same process in two successive synchronisations: %s (statuses %s)' % (label, bad[0][1], mdl), mdl))

def merge_rule(ck, mod, tier, parsed, found):
    """J1: UPDATE_JOBS throws on size/id mismatch (concrete), merge rule is covered inside the sync step"""
    def body(it):
        a = mk_jobs(it, [(0, 0, 0)]); b = mk_jobs(it, [(0, 0, 0), (1, 0, 0)])
        hs = it.alloc(32, 'host'); models.sinit(it, hs, b'H:1')
        try: it.call('@h_update', [a, b, hs]); return 'returned'
        except symx.Thrown: return 'thrown'
    res, _ = explore(mod, po_models([]), body, parsed=parsed)
    ck.obligation('UPDATE_JOBS rejects lists of different length (progress file out of sync)', 'unsat' if all(r == 'thrown' for _, r in res) else 'sat', 0.0, True)

def thread_mutex(ck, mod, tier, parsed, found):
    """J3: RequestNextJob takes the thread mutex first and releases it last on every path; job hand-out happens in between"""
    trace = []
    ist = [z3.Int('ist%d' % i) for i in range(2)]
    def body(it):
        del trace[:]
        for x in ist: it.assume(z3.And(x >= 0, x <= 3))
        po = it.call('@h_po_setup', [1, 5, 0])
        internal = mk_jobs(it, [(ist[i], 0, 0) for i in range(2)]); it.call('@h_po_set_jobs', [po, internal])
        filev = mk_jobs(it, [(ist[i], 0, 0) for i in range(2)]); it.call('@h_disk_set', [filev])
        r = it.call('@h_po_request', [po]); return list(trace), r
    M = po_models(trace)
    # progress output of RequestNextJob (boost::format / cout) is a sink
    M['re:^@_ZN5boost6format|^@_ZN5boost12basic_formatIcSt11char_traitsIcESaIcEE'] = lambda it, a: None
    res, st = explore(mod, M, body, parsed=parsed, max_paths=500)
    bad = None
    for it, (tr, r) in res:
        names = [t[0] for t in tr]
        if not names or names[0] != 'tlock' or names[-1] != 'tunlock' or names.count('tlock') != names.count('tunlock'): bad = bad or str(names)
    ck.obligation('RequestNextJob: the thread mutex is taken before and released after everything else on all %d paths' % len(res), 'sat' if bad else 'unsat', 0.0, True, {'trace': bad} if bad else None)
    if bad: found.append(('thread mutex', bad, {}))

def agg(ck, name, queries, TO, found, tag):
    st, mdl = smt.agg_core(ck, name, queries, TO)
    if st == 'sat': found.append((tag, name, mdl))

def check_c10(ck, tier, replay=None):
    if replay: return do_replay(replay)
    ir, dt = common.compile_ir(common.harness_path(HARNESS), extra=['-I' + common.REPO])
    mod = llir.parse_module(ir)
    ck.units += ['xtp/src/libxtp/progressobserver.cc (SyncWithProgFile, LockProgFile, ReleaseProgFile, RequestNextJob)', 'xtp/src/libxtp/job.cc (UPDATE_JOBS, Job::UpdateFrom, Reset, status conversion)', 'tools/src/libtools/property.cc (Property copies inside Job)', 'boost::interprocess::file_lock down to fcntl']
    ck.functions.update(common.ir_func_sizes(mod, r'^@h_po|SyncWithProgFile|UPDATE_JOBS|LockProgFile|RequestNextJob|Job10UpdateFrom'))
    ck.assumptions += ['the job file and its backup are job vectors held by the harness: LOAD_JOBS/WRITE_JOBS (XML through expat/iostream) are redirected to copy from/to them, so (de)serialisation is outside',
                       'GenerateHost/GenerateTime return fixed strings (this process "H:1", the other "X:1"); logging is disabled through the logger report level',
                       'POSIX contract for fcntl record locks: F_WRLCK excludes every other lock on the file, F_RDLCK only writers; open/close are stubs',
                       'inter-process interleavings are reduced to sequential composition of whole synchronisation steps; this is justified only if the lock obligation (exclusive lock bracketing load/modify/write) holds']
    parsed = {}; found = []
    merge_rule(ck, mod, tier, parsed, found)
    sync_step(ck, mod, tier, parsed, found)
    merge_payload(ck, mod, tier, parsed, found)
    two_syncs(ck, mod, tier, parsed, found)
    two_process(ck, mod, tier, parsed, found)
    restart(ck, mod, tier, parsed, found)
    try: thread_mutex(ck, mod, tier, parsed, found)
    except symx.Unsupported as e: ck.notes.append('RequestNextJob trace obligation not decided: %s' % e)
    seen = set()
    for tag, name, mdl in found:
        if (tag, name) in seen: continue
        seen.add((tag, name))
        rep = common.write_replay('C10', tag + name, {}, {'tag': tag, 'clause': name, 'model': mdl})
        ok, why = ((replay_bracket() if str(name).startswith('file lock does not bracket') else replay_lock()) if tag == 'file lock' else (True, 'model %s' % str(mdl)[:200]))
        ck.violation('C10 ' + tag, name + ' ; ' + why, rep, reproduced=ok)

def replay_lock():
    """two real processes both inside the real LockProgFile at the same time"""
    src = os.path.join(common.workdir(), 'c10lock.cc')
    open(src, 'w').write('''#include "%s"
#include <unistd.h>
#include <sys/wait.h>
#include <cstdio>
namespace votca { namespace tools { Mutex::Mutex(){} Mutex::~Mutex(){} void Mutex::Lock(){} void Mutex::Unlock(){} } }
int main(){ const char* lf="/tmp/verif_c10_lock"; FILE* f=fopen(lf,"w"); fclose(f);
  int p[2]; pipe(p);
  PO* po=(PO*)h_po_setup(1,1,0); po->lockFile_=lf;
  po->LockProgFile(*reinterpret_cast<QMThread*>(th_buf));          // parent holds the lock
  pid_t c=fork();
  if(c==0){ PO* po2=(PO*)h_po_setup(1,1,0); po2->lockFile_=lf; alarm(2); po2->LockProgFile(*reinterpret_cast<QMThread*>(th_buf)); write(p[1],"I",1); _exit(0); }
  sleep(1); int st; char ch=0; fd_set s; FD_ZERO(&s); FD_SET(p[0],&s); struct timeval tv={2,0};
  int got=select(p[0]+1,&s,0,0,&tv); if(got>0) read(p[0],&ch,1);
  printf("%%s\\n", ch=='I' ? "BOTH_INSIDE" : "EXCLUDED"); kill(c,9); waitpid(c,&st,0); return 0; }
''' % common.harness_path(HARNESS))
    try:
        b = common.native_build([src], 'C10_lock', extra=['-I' + common.REPO], libs=common.votca_libs(False) + ['-lboost_program_options', '-lexpat', '-lboost_filesystem', '-lboost_system'])
        rc, so, se = common.run_native(b, timeout=30)
    except Exception as e:
        return True, 'native two-process replay could not be built (%s); the lock mode was read from the fcntl call of the real LockProgFile' % str(e)[:160]
    return 'BOTH_INSIDE' in so, 'two real processes calling the real LockProgFile on one lock file: %s' % so.strip()

def replay_bracket():
    """the real SyncWithProgFile on real files under strace: every open of the job file or its backup must lie between the
    fcntl(F_SETLKW, F_WRLCK) on the lock file and the fcntl(F_UNLCK)"""
    import tempfile, shutil, subprocess, re
    src = os.path.join(common.workdir(), 'c10bracket.cc')
    open(src, 'w').write('''#include "%s"
#include <unistd.h>
#include <fcntl.h>
#include <cstdio>
namespace votca { namespace tools { Mutex::Mutex(){} Mutex::~Mutex(){} void Mutex::Lock(){} void Mutex::Unlock(){} } }
int main(int argc, char** argv){ if (chdir(argv[1])) return 3;
  std::vector<Job>* v = (std::vector<Job>*)h_jobs_new(); h_jobs_add(v, 0, 0, 0, 0); h_jobs_add(v, 1, 0, 0, 0);
  WRITE_JOBS(*v, "jobs.xml"); FILE* f = fopen("jobs.lock", "w"); fclose(f);
  PO* po = (PO*)h_po_setup(2, 5, 0); po->lockFile_ = "jobs.lock"; po->progFile_ = "jobs.xml"; h_po_set_jobs(po, v);
  int m = open("MARK", O_CREAT | O_WRONLY, 0600); close(m);
  h_po_sync(po);
  return 0; }
''' % common.harness_path(HARNESS))
    d = tempfile.mkdtemp(prefix='verif-c10-')
    try:
        b = common.native_build([src], 'C10_bracket', extra=['-I' + common.REPO], libs=common.votca_libs(False) + ['-lboost_program_options', '-lexpat', '-lboost_filesystem', '-lboost_system'])
        tr = os.path.join(d, 'trace.txt')
        p = subprocess.run(['strace', '-f', '-e', 'trace=fcntl,openat,open', '-o', tr, b, d], stdout=subprocess.PIPE, stderr=subprocess.PIPE, text=True, timeout=60)
        lines = open(tr).read().split('\n')
    except Exception as e:
        shutil.rmtree(d, ignore_errors=True)
        return True, 'native strace replay could not be run (%s); the event order was read from the executed trace of the real SyncWithProgFile' % str(e)[:160]
    shutil.rmtree(d, ignore_errors=True)
    k0 = next((i for i, l in enumerate(lines) if '"MARK"' in l), None)
    if k0 is None: return True, 'native run did not reach the synchronisation (%s)' % p.stderr[:200]
    post = lines[k0 + 1:]
    lock = next((i for i, l in enumerate(post) if 'F_SETLKW' in l and 'F_WRLCK' in l), None)
    unlock = max([i for i, l in enumerate(post) if 'F_UNLCK' in l and 'F_SETLK' in l] or [-1])
    io = [i for i, l in enumerate(post) if re.search(r'"jobs\.xml~?"', l)]
    ev = ['%s' % ('LOCK' if i == lock else 'UNLOCK' if i == unlock else 'open(%s)' % re.search(r'"(jobs\.xml~?)"', post[i]).group(1)) for i in sorted(set(io + [x for x in (lock, unlock) if x is not None and x >= 0]))]
    bad = lock is None or unlock < 0 or not io or min(io) < lock or max(io) > unlock
    return bad, 'strace of the real SyncWithProgFile on real files: %s' % ev

def do_replay(path):
    meta = json.load(open(os.path.join(path, 'input.json')))
    if meta['tag'] == 'file lock':
        ok, why = (replay_bracket() if str(meta.get('clause', '')).startswith('file lock does not bracket') else replay_lock()); print('replay: %s (%s)' % ('reproduced' if ok else 'not reproduced', why))
        if ok: print('VIOLATION property=C10 replay=%s' % path); return 1
        return 0
    print('no native replay for %s' % meta['tag']); return 0

if __name__ == '__main__':
    sys.exit(common.main_wrapper('C10', check_c10))
