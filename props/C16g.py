# C16, graph algorithms: structure id, breadth-first distances, components, reduce/expand, single-network detection.
# The vertex LABELS are the symbolic quantity: n distinct solver integers from a stated domain go through the real
# Graph / EdgeContainer / visitors (libstdc++ hash tables and red-black trees executed from IR; bucket index = id mod bucket
# count is case-split by the solver, orderings by branch feasibility).  Every feasible path = one class of labellings with the
# same bucket/ordering behaviour; on each the real result is compared with an oracle computed from the (concrete) shape.
import sys, os, json, time, itertools, multiprocessing
import z3
import common, llir, symx, models
from symx import Ptr, alloc_i64, explore, sgn64, is_sym

HARNESS = 'C16_graph.cc'
SHAPES = {
    'single vertex': (1, []),
    'edge': (2, [(0, 1)]),
    'two isolated vertices': (2, []),
    'chain of 3': (3, [(0, 1), (1, 2)]),
    'triangle': (3, [(0, 1), (1, 2), (2, 0)]),
    'edge + isolated vertex': (3, [(0, 1)]),
    'chain of 4': (4, [(0, 1), (1, 2), (2, 3)]),
    'star (junction with 3 arms)': (4, [(0, 1), (0, 2), (0, 3)]),
    'ring of 4': (4, [(0, 1), (1, 2), (2, 3), (3, 0)]),
    'triangle with a tail': (4, [(0, 1), (1, 2), (2, 0), (2, 3)]),
    'two separate edges': (4, [(0, 1), (2, 3)]),
    'chain of 3 + isolated vertex': (4, [(0, 1), (1, 2)]),
    'chain of 5': (5, [(0, 1), (1, 2), (2, 3), (3, 4)]),
    'junction with arms 1,1,2': (5, [(0, 1), (0, 2), (0, 3), (3, 4)]),
    'ring of 4 with a tail': (5, [(0, 1), (1, 2), (2, 3), (3, 0), (0, 4)]),
    'two junctions (H shape)': (6, [(0, 1), (0, 2), (0, 3), (3, 4), (3, 5)]),
}

def oracle(n, edges):
    adj = {i: set() for i in range(n)}
    for a, b in edges: adj[a].add(b); adj[b].add(a)
    dist = []
    for s in range(n):
        d = [-1] * n; d[s] = 0; q = [s]
        while q:
            u = q.pop(0)
            for w in sorted(adj[u]):
                if d[w] < 0: d[w] = d[u] + 1; q.append(w)
        dist.append(d)
    comp = [-1] * n; nc = 0
    for i in range(n):
        if comp[i] < 0:
            for j in range(n):
                if dist[i][j] >= 0: comp[j] = nc
            nc += 1
    iso = [i for i in range(n) if not adj[i]]
    return {'dist': dist, 'comp': comp, 'ncomp': nc, 'isolated': iso, 'connected': nc == 1}

_MOD = {}
def _module(irpath):
    if irpath not in _MOD: _MOD[irpath] = (llir.parse_module(open(irpath).read()), {})
    return _MOD[irpath]

def _labelling(it, ids):
    s = z3.Solver(); s.add(*it.pc)
    if s.check() != z3.sat: return None
    m = s.model(); return [m.eval(x, model_completion=True).as_long() for x in ids]

def run_task(t):
    """One exploration.  t = dict(ir, shape, op, kinds, order, eorder, domain, fix).  Returns per-path (labelling, result)."""
    mod, parsed = _module(t['ir'])
    n, edges = SHAPES[t['shape']]; m = len(edges)
    e = [x for ab in edges for x in ab]
    dom = t['domain']
    def body(it):
        ids = [z3.Int('v%d' % i) for i in range(n)]
        if n > 1: it.assume(z3.Distinct(*ids))
        for x in ids: it.assume(z3.Or([x == d for d in dom]) if len(dom) <= 12 else z3.And(x >= dom[0], x <= dom[-1]))
        for k, v in t.get('fix', {}).items(): it.assume(ids[int(k)] == v)
        it.track_vars = ids
        pi = alloc_i64(it, 'ids', ids); pk = alloc_i64(it, 'kinds', t['kinds']); pe = alloc_i64(it, 'e', e)
        po = alloc_i64(it, 'order', t['order']); peo = alloc_i64(it, 'eorder', t['eorder'])
        if t['op'] == 'structid':
            out = it.alloc(512, 'out')
            L = it.call('@h_structid', [pi, n, pk, pe, m, po, peo, out, 512])
            r = bytes(it.load(Ptr(out.obj, i), 1) & 0xff for i in range(L)).decode('latin1')
        else:
            tot = n * n + 2 * (3 + n + m) + 2 * n
            out = it.alloc(8 * tot, 'out')
            it.call('@h_all', [pi, n, pk, pe, m, po, peo, t.get('starts', (1 << n) - 1), out])
            r = [sgn64(it.load(Ptr(out.obj, 8 * i), 8)) for i in range(tot)]
            if any(is_sym(x) for x in r): raise symx.Unsupported('symbolic output of a graph operation')
        return ids, r
    t0 = time.time()
    try:
        res, st = explore(mod, models.all_models(), body, parsed=parsed, max_paths=t.get('max_paths', 5000), timeout=t.get('timeout', 1500))
    except symx.Unsupported as ex:
        return {'task': t, 'error': 'Unsupported: %s' % ex, 'paths': []}
    out = []
    for it, (ids, r) in res:
        out.append((_labelling(it, ids), r, len(it.pc)))
    return {'task': t, 'paths': out, 'instructions': st['instructions'], 'time_s': round(time.time() - t0, 2), 'models': sorted(st['models_used']), 'funcs': len(st['funcs_run'])}

def split_all(n, m, r):
    p = 0; o = {}
    o['dist'] = [r[p + s * n: p + (s + 1) * n] for s in range(n)]; p += n * n
    o['parts'], o['vtot'], o['etot'] = r[p:p + 3]; o['comp'] = r[p + 3:p + 3 + n]; o['ecomp'] = r[p + 3 + n:p + 3 + n + m]; p += 3 + n + m
    o['xe'], o['xv'], o['re'] = r[p:p + 3]; o['vcount'] = r[p + 3:p + 3 + n]; o['ecount'] = r[p + 3 + n:p + 3 + n + m]; p += 3 + n + m
    o['single'] = r[p:p + n]; p += n
    o['relabel'] = r[p:p + n]
    return o

def judge_all(n, edges, r):
    """Compare one path's outputs with the oracle; returns the list of clauses that fail."""
    m = len(edges); o = split_all(n, m, r); orc = oracle(n, edges); bad = []
    if o['relabel'] != orc['dist'][n - 1]: bad.append('breadth-first distance labelling of a graph that already carries a labelling (first from vertex 0, then from vertex %d): got %s, expected %s' % (n - 1, o['relabel'], orc['dist'][n - 1]))
    if any(o['dist'][s] != orc['dist'][s] for s in range(n) if o['dist'][s][0] != -9): bad.append('breadth-first distance labelling: every reachable vertex gets its shortest-path hop count (got %s, expected %s)' % (o['dist'], orc['dist']))
    okc = o['parts'] == orc['ncomp'] and o['vtot'] == n and o['etot'] == m and all(c >= 0 for c in o['comp']) and all(c >= 0 for c in o['ecomp'])
    if okc:
        for i in range(n):
            for j in range(n):
                if (o['comp'][i] == o['comp'][j]) != (orc['comp'][i] == orc['comp'][j]): okc = False
        for j, (a, b) in enumerate(edges):
            if o['ecomp'][j] != o['comp'][a]: okc = False
    if not okc: bad.append('decoupleIsolatedSubGraphs yields exactly the connected components, each vertex and edge in exactly one part (parts %d vtot %d etot %d comp %s ecomp %s; expected %d parts, components %s)' % (o['parts'], o['vtot'], o['etot'], o['comp'], o['ecomp'], orc['ncomp'], orc['comp']))
    if not (o['xe'] == m and o['xv'] == n and all(c == 1 for c in o['vcount']) and all(c == 1 for c in o['ecount'])):
        bad.append('reduceGraph + expandGraph returns the original vertex and edge sets (expanded: %d edges %d vertices, vertex multiplicities %s, edge multiplicities %s)' % (o['xe'], o['xv'], o['vcount'], o['ecount']))
    exp_single = 1 if (orc['connected'] and not orc['isolated']) else 0
    if any(x != exp_single for x in o['single'] if x != -9): bad.append('singleNetwork is true exactly for connected graphs without isolated vertices (got %s from the n start vertices, expected %d)' % (o['single'], exp_single))
    return bad

CLAUSES = ['breadth-first distance', 'decoupleIsolatedSubGraphs', 'reduceGraph + expandGraph', 'singleNetwork']

def native_args(op, t, ids):
    n, edges = SHAPES[t['shape']]; m = len(edges)
    a = [op, str(n)] + [str(x) for x in ids] + [str(x) for x in t['kinds']] + [str(m)] + [str(x) for ab in edges for x in ab] + [str(x) for x in t['order']] + [str(x) for x in t['eorder']]
    if op == 'all': a.append(str(t.get('starts', (1 << n) - 1)))
    return a

def domains(tier, n):
    """label domains: quick = the n smallest ids (n+1 for n<=2); thorough adds a spare id, ids that collide in the 13-bucket tables and a far offset"""
    d = [list(range(n + 1 if n <= 2 else n))]
    if tier != 'quick':
        if n == 3: d.append(list(range(n + 1)))
        if n <= 4: d.append([0, 13, 1, 14, 26][:max(n, 2)])
        if n <= 4: d.append([1000003 + 7 * i for i in range(n)])
    return d

QUICK_ALL4 = ('chain of 4', 'star (junction with 3 arms)', 'ring of 4', 'two separate edges')
def plan(tier, irpath):
    tasks = []
    quick = tier == 'quick'
    for name, (n, edges) in SHAPES.items():
        m = len(edges)
        if n == 6 and quick: continue
        ident = list(range(n)); eident = list(range(m))
        for di, dom in enumerate(domains(tier, n)):
            if n >= 5 and di > 0: continue
            fixes = [{}]
            if n == 4: fixes = [{'0': v} for v in dom]
            if n >= 5: fixes = [{'0': v, '1': w} for v in dom for w in dom if v != w]
            kinds_variants = [[65] * n]
            if 2 <= n <= 4 or not quick: kinds_variants.append([65] * (n - 1) + [66])
            if n >= 3 and not quick: kinds_variants.append([66] + [65] * (n - 1))
            # insertion orders: as listed, reversed, and rotated so that the last edge comes first (the hash-table iteration order,
            # hence the order in which start candidates are met, follows the insertion order)
            orders = [(ident, eident)]
            rot = (ident[-1:] + ident[:-1], eident[-1:] + eident[:-1])
            if n == 3 or (n == 4 and not quick) or (n >= 5 and (name == 'chain of 5' or not quick)): orders.append((list(reversed(ident)), list(reversed(eident))))
            if m >= 2 and (n <= 4 or name == 'chain of 5' or not quick): orders.append(rot)
            structid = n <= 4 or name == 'chain of 5' or not quick
            allops = n <= 4 or (n == 5 and (not quick or name == 'ring of 4 with a tail'))
            starts = (1 << n) - 1
            if n >= 5 or (n == 4 and quick): starts = 1          # the relabelling clause covers start n-1
            for fx in fixes:
                if structid:
                    for kv in kinds_variants:
                        for od, eod in orders:
                            if di > 0 and (od != ident or kv != kinds_variants[0]): continue
                            tasks.append({'ir': irpath, 'shape': name, 'op': 'structid', 'kinds': kv, 'order': od, 'eorder': eod, 'domain': dom, 'fix': fx})
                if allops:
                    tasks.append({'ir': irpath, 'shape': name, 'op': 'all', 'kinds': [65] * n, 'order': ident, 'eorder': eident, 'domain': dom, 'fix': fx, 'starts': starts})
    return tasks

def check_graph(ck, tier, found_cb):
    """Adds the graph-algorithm obligations to ck.  found_cb(name, meta) is called per refuted obligation (replay + violation)."""
    ir, dt = common.compile_ir(common.harness_path(HARNESS), extra=['-I' + common.REPO])
    irpath = os.path.join(common.workdir(), 'C16_graph.ll')
    mod = llir.parse_module(ir)
    ck.units += ['tools/src/libtools/%s.cc' % u for u in ('edgecontainer', 'graphnode', 'graph', 'graphvisitor', 'graph_bf_visitor', 'graph_df_visitor', 'graphdistvisitor', 'reducedgraph', 'graphalgorithm')] + ['tools/include/votca/tools/graphalgorithm.h']
    ck.functions.update(common.ir_func_sizes(mod, r'^@h_(structid|all|dist|decouple|reduce_expand|single)|findStructureId|reduceGraph|decoupleIsolated|exploreGraph|singleNetwork|GraphDistVisitor|Graph_BF_Visitor|EdgeContainer[0-9]+(addEdge|getDegree|getVertices)'))
    tasks = plan(tier, irpath)
    tasks.sort(key=lambda t: -(SHAPES[t['shape']][0] * 10 + (5 if t['op'] == 'all' else 0)))
    nw = min(14, os.cpu_count() or 4)
    t0 = time.time()
    with multiprocessing.get_context('fork').Pool(nw) as pool:
        results = pool.map(run_task, tasks, chunksize=1)
    ck.notes.append('graph clauses: %d explorations on %d worker processes, %.0f s wall, %d paths, %d interpreted instructions' % (len(tasks), nw, time.time() - t0, sum(len(r['paths']) for r in results), sum(r.get('instructions', 0) for r in results)))
    for r in results:
        ck.stubs |= set(r.get('models', []))
        if r.get('error'): ck.inconc('graph exploration %s / %s: %s' % (r['task']['shape'], r['task']['op'], r['error']))
    binp = common.native_build([common.harness_path(HARNESS)], 'C16g_native', extra=['-I' + common.REPO], defs=['VERIF_NATIVE'])
    # encoder validation: the first path of every exploration, interpreter output vs native run on the path's labelling
    nval = 0; okv = True; detail = ''
    for r in results:
        if not r['paths']: continue
        ids, out, _ = r['paths'][0]
        if ids is None: continue
        t = r['task']
        rc, so, se = common.run_native(binp, args=native_args('structid' if t['op'] == 'structid' else 'all', t, ids))
        if t['op'] == 'structid': nat = so.strip().split(' ', 1)[1] if ' ' in so.strip() else ''
        else: nat = [int(x) for x in so.split()]
        nval += 1
        if nat != out: okv = False; detail = '%s %s ids %s: interpreter %s native %s' % (t['shape'], t['op'], ids, out, nat); break
    ck.add_validation('graph harness: interpreter vs native run on the first labelling of every exploration', nval, okv, detail)
    # group by (shape, op)
    groups = {}
    for r in results:
        t = r['task']; groups.setdefault((t['shape'], t['op']), []).append(r)
    for (shape, op), rs in groups.items():
        n, edges = SHAPES[shape]; npaths = sum(len(r['paths']) for r in rs)
        ck.add_witness('graph %s / %s: %d labelling classes explored' % (shape, op, npaths), npaths >= 1)
        if op == 'all':
            fails = {c: None for c in CLAUSES}
            for r in rs:
                for ids, out, _ in r['paths']:
                    for b in judge_all(n, edges, out):
                        for c in CLAUSES:
                            if b.startswith(c) or c in b.split(':')[0]:
                                if fails[c] is None: fails[c] = (r['task'], ids, b)
            for c in CLAUSES:
                name = 'graph "%s" (%d vertices, %d edges), every labelling from the domain: %s' % (shape, n, len(edges), {'breadth-first distance': 'breadth-first distance labelling = shortest-path hop count from every start vertex', 'decoupleIsolatedSubGraphs': 'decoupleIsolatedSubGraphs = connected components, each vertex and edge in exactly one part', 'reduceGraph + expandGraph': 'reduceGraph then expandGraph returns the original vertex and edge sets', 'singleNetwork': 'singleNetwork <=> connected and no isolated vertex'}[c])
                f = fails[c]
                ck.obligation(name, 'sat' if f else 'unsat', 0.0, True, {'labelling': f[1], 'what': f[2]} if f else {'labelling_classes': npaths})
                if f: found_cb(name, {'clause': 'graph:' + c, 'shape': shape, 'task': {k: v for k, v in f[0].items() if k != 'ir'}, 'ids': f[1], 'what': f[2]})
        else:
            # label / insertion-order independence per content assignment; distinct contents -> distinct ids
            bykinds = {}
            for r in rs:
                for ids, out, _ in r['paths']: bykinds.setdefault(tuple(r['task']['kinds']), []).append((r['task'], ids, out))
            for kv, lst in bykinds.items():
                vals = {}
                for t, ids, out in lst: vals.setdefault(out, (t, ids))
                name = 'graph "%s", node contents %s: the structure id is the same for every labelling from the domain and every insertion order' % (shape, ''.join(chr(c) for c in kv))
                ok = len(vals) == 1
                det = None
                if not ok:
                    (s1, (t1, i1)), (s2, (t2, i2)) = list(vals.items())[:2]
                    det = {'id_a': s1, 'labelling_a': i1, 'order_a': t1['order'], 'id_b': s2, 'labelling_b': i2, 'order_b': t2['order']}
                ck.obligation(name, 'unsat' if ok else 'sat', 0.0, True, det or {'labelling_classes': len(lst), 'structure_id': list(vals)[0]})
                if not ok: found_cb(name, {'clause': 'graph:structid', 'shape': shape, 'kinds': list(kv), 'a': {'task': {k: v for k, v in t1.items() if k != 'ir'}, 'ids': i1, 'id': s1}, 'b': {'task': {k: v for k, v in t2.items() if k != 'ir'}, 'ids': i2, 'id': s2}})
            ks = list(bykinds)
            for i in range(len(ks)):
                for j in range(i + 1, len(ks)):
                    if sorted(ks[i]) == sorted(ks[j]): continue
                    si = {o for _, _, o in bykinds[ks[i]]}; sj = {o for _, _, o in bykinds[ks[j]]}
                    name = 'graph "%s": node contents %s and %s (different multisets) never get the same structure id' % (shape, ''.join(map(chr, ks[i])), ''.join(map(chr, ks[j])))
                    ck.obligation(name, 'unsat' if not (si & sj) else 'sat', 0.0, True, None)
                    if si & sj:
                        ta, ia, _ = bykinds[ks[i]][0]; tb, ib, _ = bykinds[ks[j]][0]
                        found_cb(name, {'clause': 'graph:structid-distinct', 'shape': shape, 'a': {'task': {k: v for k, v in ta.items() if k != 'ir'}, 'ids': ia}, 'b': {'task': {k: v for k, v in tb.items() if k != 'ir'}, 'ids': ib}})
    doms = {n: domains(tier, n) for n in sorted({SHAPES[t['shape']][0] for t in tasks})}
    ck.bounds['graphs'] = 'shapes: %s; vertex labels: n distinct integers from the domains %s (per vertex count); node contents: one-letter names, all equal or one vertex different; insertion orders: as listed and reversed (n<=4)' % (', '.join(sorted({t['shape'] for t in tasks})), doms)
    ck.assumptions += ['graph clauses: the symbolic quantity is the vertex labelling; graph shape, node contents and insertion order are enumerated from the stated lists; masses (double contents, printed through a stringstream) are not used',
                       'std::unordered_map / std::set / std::deque are the libstdc++ implementations executed from IR; only _Hash_bytes, _Prime_rehash_policy::_M_need_rehash, _Rb_tree_* and list hooks are models (listed under stubs)']
    return binp

def replay_graph(meta, binp=None):
    """Re-run the failing labelling(s) natively and re-judge."""
    binp = binp or common.native_build([common.harness_path(HARNESS)], 'C16g_native', extra=['-I' + common.REPO], defs=['VERIF_NATIVE'])
    c = meta['clause']
    if c in ('graph:structid', 'graph:structid-distinct'):
        outs = []
        for side in ('a', 'b'):
            t = meta[side]['task']; rc, so, se = common.run_native(binp, args=native_args('structid', t, meta[side]['ids'])); outs.append(so.strip())
        bad = (outs[0] != outs[1]) if c == 'graph:structid' else (outs[0] == outs[1])
        return bad, 'native findStructureId: labelling %s (order %s) -> %r ; labelling %s (order %s) -> %r' % (meta['a']['ids'], meta['a']['task']['order'], outs[0], meta['b']['ids'], meta['b']['task']['order'], outs[1])
    t = meta['task']; n, edges = SHAPES[t['shape']]
    rc, so, se = common.run_native(binp, args=native_args('all', t, meta['ids']))
    try: out = [int(x) for x in so.split()]
    except ValueError: return True, 'native run failed: ' + so[:200]
    bad = [b for b in judge_all(n, edges, out) if c.split(':', 1)[1] in b]
    return bool(bad), 'native run, shape %s labelling %s: %s' % (t['shape'], meta['ids'], bad[0] if bad else 'clause holds')
