# C06 (b): csg_imc_solve -- CG_IMC_solve::Run over the file model; Eigen::SelfAdjointEigenSolver by contract.
import sys, os, json
from fractions import Fraction as F
import z3
import common, llir, symx, models, smt, fileio
from symx import Ptr, alloc_i64, alloc_doubles, read_doubles, explore, sgn64, is_sym
import C06
from C06 import R, simp, is_zero, frame, transpose, mat_mul, sym_mul, rd_matrix, new_matrix, new_vector, ContractMismatch

FIO = fileio.FileIO()

class EigContract:
    """SelfAdjointEigenSolver(M): eigenvalues lambda_i and orthonormal eigenvectors V (columns) with M V = V diag(lambda).
    The harness builds A = P diag(s) W^T from listed rational frames P, W and arbitrary singular values s_i >= 0, so W is an
    eigenvector frame of A^T A; the stub checks that W diagonalises the matrix the code actually passed."""
    def __init__(s, W): s.W = W; s.events = []
    def models(s):
        def ctor(it, a):
            this = a[0]; M = rd_matrix(it, a[1]); n = len(M)
            if n != len(s.W) or any(len(r) != n for r in M): raise ContractMismatch('eigen-decomposition of a %dx%d matrix where A^T A is %dx%d' % (n, len(M[0]) if M else 0, len(s.W), len(s.W)))
            D = sym_mul(sym_mul(transpose(s.W), M), s.W)
            for i in range(n):
                for j in range(n):
                    if i != j and not is_zero(D[i][j]): raise ContractMismatch('the matrix given to SelfAdjointEigenSolver is not A^T A')
            it.zerofill(this, 80)
            new_matrix(it, this, s.W, 'eigenvectors'); new_vector(it, Ptr(this.obj, this.off + 24), [D[i][i] for i in range(n)], 'eigenvalues')
            s.events.append(('eig', n)); return None
        def dtor(it, a): return None
        P = 'N5Eigen22SelfAdjointEigenSolverINS_6MatrixIdLin1ELin1ELi0ELin1ELin1EEEE'
        return {'re:^@_Z' + P + 'C[12]IS2_EERKNS_9EigenBaseIT_EEi': ctor, 're:^@_Z' + P + 'D[12]Ev': dtor}

def members(r): return list(range(r[0], r[1] + 1)) if len(r) == 2 else list(r[2])
NAMES = ['A-A', 'B-B', 'A-B']
def imc_case(ck, mod, parsed, n, ranges, variant, TO, found, rank_def=False):
    hand = any(len(r) == 3 for r in ranges)
    Pm = frame(n, variant + 1); W = frame(n, variant)
    s_ = [z3.Real('s%d' % i) for i in range(n)]
    if rank_def: s_[n - 1] = F(0)
    A = sym_mul(sym_mul(Pm, [[(s_[i] if i == j else F(0)) for j in range(n)] for i in range(n)]), transpose(W))
    bx = [z3.Real('bx%d' % i) for i in range(n)]; by = [z3.Real('by%d' % i) for i in range(n)]; reg = z3.Real('reg')
    ec = EigContract(W); mism = []; CAP = 2 * n + 1; nr = len(ranges)
    def body(it):
        FIO.reset()
        for v in s_:
            if is_sym(v): it.assume(v >= 0)
        it.assume(reg >= F(1, 10**9))
        pa = alloc_doubles(it, 'A', [A[i][j] for i in range(n) for j in range(n)]); px = alloc_doubles(it, 'bx', bx); py = alloc_doubles(it, 'by', by)
        if hand:
            FIO.fs['i.idx'] = [list(('%s %s' % (NAMES[k], r[1])).encode()) for k, r in enumerate(ranges)]; rb = symx.NULL; re_ = symx.NULL
        else: rb = alloc_i64(it, 'rb', [r[0] for r in ranges]); re_ = alloc_i64(it, 're', [r[1] for r in ranges])
        ox = it.alloc(8 * nr * CAP, 'ox'); oy = it.alloc(8 * nr * CAP, 'oy'); of = it.alloc(nr * CAP, 'of'); cnt = it.alloc(8 * nr, 'cnt'); it.zerofill(cnt, 8 * nr)
        try: rc = sgn64(it.call('@h_imc_solve', [pa, n, n, px, py, reg, nr, rb, re_, ox, oy, of, cnt, CAP]))
        except ContractMismatch as e: mism.append(str(e)); return None
        if rc != 0: return rc, [], [], [], []
        c = [sgn64(it.load(Ptr(cnt.obj, 8 * r), 8)) for r in range(nr)]
        X = [[it.load(Ptr(ox.obj, 8 * (r * CAP + j)), 8, llir.FloatTy(64)) for j in range(min(c[r], CAP))] for r in range(nr)]
        Y = [[it.load(Ptr(oy.obj, 8 * (r * CAP + j)), 8, llir.FloatTy(64)) for j in range(min(c[r], CAP))] for r in range(nr)]
        Fl = [[it.load(Ptr(of.obj, r * CAP + j), 1) for j in range(min(c[r], CAP))] for r in range(nr)]
        return rc, c, X, Y, Fl
    M = FIO.models(); M.update(ec.models())
    M['re:^@_ZNK5boost15program_options22abstract_variables_mapixE'] = lambda it, a: it.call('@h_vm_lookup', [a[1]])
    res, st = explore(mod, M, body, parsed=parsed, max_paths=300); ck.stubs |= st['models_used']
    label = 'csg_imc_solve, A %dx%d = P diag(s) W^T (frames %d%s), index ranges %s' % (n, n, variant, ', one singular value 0' if rank_def else '', ranges)
    ck.add_witness('%s: %d path(s), eigen solver reached' % (label, len(res)), len(res) >= 1 and (mism or ec.events))
    meta = {'clause': 'imc', 'n': n, 'ranges': ranges, 'variant': variant, 'rank_def': rank_def}
    if mism:
        ck.obligation(label + ': the eigen-decomposition is taken of A^T A', 'sat', 0, True, {'contract': mism[0]})
        found.append((label + ': ' + mism[0], meta)); return
    # oracle: x with (A^T A + reg I) x = -A^T b ; stated through the defining equation on the values read back from the tables
    q_eq = []; q_split = []
    covered = sorted(set(i for r_ in ranges for i in members(r_)))
    for it, r in res:
        pc = list(it.pc); rc, c, X, Y, Fl = r
        if rc != 0: q_split.append((pc, [z3.BoolVal(True)])); continue
        goal = []; xs = {}
        for k, r_ in enumerate(ranges):
            mem = members(r_)
            if c[k] != len(mem): goal = None; break
            for j in range(c[k]):
                goal.append(R(X[k][j]) == bx[mem[j] - 1])
                goal.append(z3.BoolVal(Fl[k][j] == ord('i')) if not is_sym(Fl[k][j]) else Fl[k][j] == ord('i'))
                xs.setdefault(mem[j] - 1, []).append(R(Y[k][j]))
        if goal is None: q_split.append((pc, [z3.BoolVal(True)])); continue
        for i, l in xs.items():
            for y in l[1:]: goal.append(y == l[0])
        q_split.append((pc, [z3.Not(z3.And(goal))]))
        if covered == list(range(1, n + 1)):
            x = [xs[i][0] for i in range(n)]
            ATA = sym_mul(transpose(A), A); ATb = [z3.Sum([R(A[i][j]) * by[i] for i in range(n)]) for j in range(n)]
            eqs = [z3.Sum([R(ATA[j][l]) * x[l] for l in range(n)]) + reg * x[j] + ATb[j] for j in range(n)]
            q_eq.append((pc, [z3.Or([e != 0 for e in eqs])]))
    s1, m1 = smt.agg_core(ck, label + ': each table has exactly the rows of its range, the grid values of the input table, flag i, and one value per unknown', q_split, TO, probe=[z3.Real('free_probe') != bx[0]])
    if s1 == 'sat': found.append((label + ': tables do not follow the index ranges', dict(meta, model=m1)))
    if q_eq:
        s2, m2 = smt.agg_core(ck, label + ': the written values solve (A^T A + r I) x = -A^T b for every r >= 1e-9 and all s >= 0', q_eq, TO, purify_all=True, probe=[z3.Real('free_probe') != 0])
        if s2 == 'sat': found.append((label + ': written solution does not satisfy the regularised normal equations', dict(meta, model=m2)))

def check_imc(ck, tier, mod, parsed, found):
    TO = 90
    ck.assumptions += ['Eigen::SelfAdjointEigenSolver (third party) by contract: eigenvalues/orthonormal eigenvectors of the matrix it was given (checked against the matrix the code passes); forming A^T A, adding the regularisation, the (pseudo-)inverse, the sign, the product with A^T b and the splitting into tables are the real code',
                       'group matrices are A = P diag(s) W^T with arbitrary singular values s_i >= 0 and P, W from a list of rational orthogonal frames (non-symmetric A); regularisation r >= 1e-9 (below 1e-12 the program switches to a pseudo-inverse and says so)',
                       'input files are produced by the library writers and the output tables are read by Table::Load inside the harness (the text channel is the C08 file model)']
    validate_imc(ck, mod, parsed)
    cases = [(2, [(1, 1), (2, 2)], 0, False), (3, [(1, 2), (3, 3)], 0, False), (2, [(1, 2)], 1, True), (3, [('text', '1, 3', [1, 3]), ('text', '2:3', [2, 3])], 0, False)]
    if tier != 'quick': cases += [(3, [('text', '3:-1:1', [3, 2, 1])], 1, False), (3, [('text', '1,2:3', [1, 2, 3]), ('text', '2', [2])], 2, False), (3, [(1, 1), (2, 2), (3, 3)], 1, False), (3, [(1, 3)], 2, True), (4, [(1, 2), (3, 4)], 0, False), (3, [(2, 3), (1, 2)], 0, False)]
    for (n, ranges, v, rd) in cases: imc_case(ck, mod, parsed, n, ranges, v, TO, found, rd)
    ck.bounds['imc_solve'] = '(size, index ranges, frame variant, rank-deficient) in %s' % cases

NATIVE_MAIN = r'''
#include <cstdio>
#include <cstdlib>
#include <unistd.h>
#include <string>
extern "C" long h_imc_solve(const double* a, long rows, long cols, const double* bx, const double* by, double reg, long nr, const long* rb, const long* re, double* ox, double* oy, char* of, long* cnt, long cap);
int main(int argc, char** argv) {
  char tmpl[] = "/tmp/verif-c06-XXXXXX"; if (!mkdtemp(tmpl) || chdir(tmpl)) return 3;
  long n = atol(argv[1]), nr = atol(argv[2]); int p = 3; double reg = atof(argv[p++]);
  double a[64], bx[8], by[8], ox[64], oy[64]; char of[64]; long rb[4] = {0, 0, 0, 0}, re[4] = {0, 0, 0, 0}, cnt[4] = {0, 0, 0, 0};
  for (long i = 0; i < n * n; i++) a[i] = atof(argv[p++]);
  for (long i = 0; i < n; i++) bx[i] = atof(argv[p++]);
  for (long i = 0; i < n; i++) by[i] = atof(argv[p++]);
  bool hand = false;
  if (p < argc && std::string(argv[p]) == "text") { hand = true; p++; FILE* f = fopen("i.idx", "w"); for (long r = 0; r < nr; r++) fprintf(f, "%s\n", argv[p++]); fclose(f); }
  else for (long r = 0; r < nr; r++) { rb[r] = atol(argv[p++]); re[r] = atol(argv[p++]); }
  long rc = h_imc_solve(a, n, n, bx, by, reg, nr, hand ? nullptr : rb, hand ? nullptr : re, ox, oy, of, cnt, n + 1);
  printf("%ld", rc);
  for (long r = 0; r < nr && rc == 0; r++) { printf(" | %ld :", cnt[r]); for (long j = 0; j < cnt[r] && j < n + 1; j++) printf(" %.17g %.17g %c", ox[r * (n + 1) + j], oy[r * (n + 1) + j], of[r * (n + 1) + j]); }
  printf("\n");
  std::string cmd = std::string("rm -rf ") + tmpl; if (system(cmd.c_str())) {}
  return 0;
}
'''
def instance(meta):
    n = meta['n']; v = meta.get('variant', 0)
    Pm = frame(n, v + 1); W = frame(n, v)
    s_ = [F(i + 2) for i in range(n)]
    if meta.get('rank_def'): s_[n - 1] = F(0)
    A = mat_mul(mat_mul(Pm, [[(s_[i] if i == j else F(0)) for j in range(n)] for i in range(n)]), transpose(W))
    bx = [F(i + 1, 2) for i in range(n)]; by = [F(3 * i * i - 4 * i + 2) for i in range(n)]; reg = F(1, 2)
    return s_, A, bx, by, reg

def native_tables(n, ranges, A, bx, by, reg):
    drv = os.path.join(common.workdir(), 'c06i_driver.cc'); open(drv, 'w').write(NATIVE_MAIN)
    binp = common.native_build([common.harness_path(C06.HARNESS), drv], 'C06i_native', extra=['-I' + common.REPO, '-I/usr/include/eigen3'], defs=['VERIF_NATIVE'], libs=['-lboost_program_options'] + common.votca_libs())
    args = [str(n), str(len(ranges)), repr(float(reg))] + [repr(float(x)) for r in A for x in r] + [repr(float(x)) for x in bx] + [repr(float(x)) for x in by] + ((['text'] + ['%s %s' % (NAMES[k], r[1]) for k, r in enumerate(ranges)]) if any(len(r) == 3 for r in ranges) else [str(t) for r in ranges for t in r])
    rc, so, se = common.run_native(binp, args=args); line = so.strip().split('\n')[-1] if so.strip() else ''
    parts = line.split('|')
    if not parts or parts[0].strip() != '0': return None, 'native run returned %r %s' % (line[:100], se[:200])
    tabs = []
    for k in range(len(ranges)):
        head, _, body = parts[k + 1].partition(':'); t = body.split()
        tabs.append((int(head), [(float(t[3 * j]), float(t[3 * j + 1]), t[3 * j + 2]) for j in range(len(t) // 3)]))
    return tabs, ''

def validate_imc(ck, mod, parsed):
    """encoder + contract validation: a concrete instance through the interpreter (eigen contract, file model) against the native
    build running the real Eigen solver and real files"""
    meta = {'n': 3, 'ranges': [(1, 2), (3, 3)], 'variant': 0}; n = 3; ranges = meta['ranges']; nr = 2; CAP = 4
    s_, A, bx, by, reg = instance(meta); ec = EigContract(frame(n, 0))
    def body(it):
        FIO.reset()
        pa = alloc_doubles(it, 'A', [x for r in A for x in r]); px = alloc_doubles(it, 'bx', bx); py = alloc_doubles(it, 'by', by)
        rb = alloc_i64(it, 'rb', [r[0] for r in ranges]); re_ = alloc_i64(it, 're', [r[1] for r in ranges])
        ox = it.alloc(8 * nr * CAP, 'ox'); oy = it.alloc(8 * nr * CAP, 'oy'); of = it.alloc(nr * CAP, 'of'); cnt = it.alloc(8 * nr, 'cnt'); it.zerofill(cnt, 8 * nr)
        rc = sgn64(it.call('@h_imc_solve', [pa, n, n, px, py, reg, nr, rb, re_, ox, oy, of, cnt, CAP]))
        c = [sgn64(it.load(Ptr(cnt.obj, 8 * r), 8)) for r in range(nr)]
        return rc, [(c[r], [(it.load(Ptr(ox.obj, 8 * (r * CAP + j)), 8, llir.FloatTy(64)), it.load(Ptr(oy.obj, 8 * (r * CAP + j)), 8, llir.FloatTy(64)), chr(it.load(Ptr(of.obj, r * CAP + j), 1) & 0xff)) for j in range(min(c[r], CAP))]) for r in range(nr)]
    M = FIO.models(); M.update(ec.models())
    M['re:^@_ZNK5boost15program_options22abstract_variables_mapixE'] = lambda it, a: it.call('@h_vm_lookup', [a[1]])
    res, st = explore(mod, M, body, parsed=parsed, max_paths=50)
    it, (rc, tabs) = res[0]
    nat, why = native_tables(n, ranges, A, bx, by, reg)
    def num(v):
        v = simp(R(v)); return float(F(v.numerator_as_long(), v.denominator_as_long()))
    ok = rc == 0 and nat is not None and len(nat) == len(tabs)
    if ok:
        for (c1, r1), (c2, r2) in zip(tabs, nat):
            ok = ok and c1 == c2 and all(abs(num(a[0]) - b[0]) < 1e-9 and abs(num(a[1]) - b[1]) < 1e-6 * max(1, abs(b[1])) and a[2] == b[2] for a, b in zip(r1, r2))
    ck.add_validation('csg_imc_solve 3x3, two ranges: interpreter with the eigen contract and the file model vs native run (real Eigen, real files)', 1, ok, 'symbolic %s native %s %s' % (str(tabs)[:300], str(nat)[:300], why))

def replay_native(meta):
    n = meta['n']; ranges = [tuple(r) for r in meta['ranges']]
    s_, A, bx, by, reg = instance(meta)
    tabs, why = native_tables(n, ranges, A, bx, by, reg)
    if tabs is None: return True, why
    # exact solution by rational Gaussian elimination
    ATA = mat_mul(transpose(A), A); Mx = [[ATA[i][j] + (reg if i == j else 0) for j in range(n)] for i in range(n)]
    rhs = [-sum(A[i][j] * by[i] for i in range(n)) for j in range(n)]
    for c in range(n):
        piv = next(r for r in range(c, n) if Mx[r][c] != 0); Mx[c], Mx[piv] = Mx[piv], Mx[c]; rhs[c], rhs[piv] = rhs[piv], rhs[c]
        for r in range(n):
            if r != c:
                f = Mx[r][c] / Mx[c][c]; Mx[r] = [a - f * b for a, b in zip(Mx[r], Mx[c])]; rhs[r] -= f * rhs[c]
    xe = [float(rhs[i] / Mx[i][i]) for i in range(n)]
    bad = []
    for k, r_ in enumerate(ranges):
        cnt, rows = tabs[k]; mem = members(r_)
        if cnt != len(mem) or len(rows) < len(mem): bad.append('table %d has %d rows, its range denotes %s' % (k, cnt, mem)); continue
        for j in range(len(mem)):
            x, y, fl = rows[j]; t = mem[j] - 1
            if abs(x - float(bx[t])) > 1e-9 or abs(y - xe[t]) > 1e-6 * max(1, abs(xe[t])) or fl != 'i':
                bad.append('table %d row %d: (%g, %g, %s), expected (%g, %g, i)' % (k, j, x, y, fl, float(bx[t]), xe[t]))
    return bool(bad), 'native csg_imc_solve code on A = P diag(%s) W^T, r = 0.5: %s' % ([str(x) for x in s_], '; '.join(bad[:3]) or 'agrees with the exact solution %s' % xe)
