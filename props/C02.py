# C02 — minimum-image convention (E2: symbolic execution of the real box classes + z3, reals/integers)
import sys, os, time, random, itertools
from fractions import Fraction as F
import z3
import common, llir, symx, models, smt
from symx import Ptr, alloc_doubles, read_doubles, explore

HARNESS = 'C02_box.cc'
LIBS = common.votca_libs()

def run_box(mod, fn, box, ri, rj, assume=(), fpmode='real', parsed=None):
    """All feasible paths of h_<fn>(box, ri, rj, out). Returns [(pc, res[3], rounds)]"""
    def body(it):
        for c in assume: it.assume(c)
        b = alloc_doubles(it, 'box', box); pi = alloc_doubles(it, 'ri', ri); pj = alloc_doubles(it, 'rj', rj)
        out = alloc_doubles(it, 'out', [F(0)] * 4 if fpmode == 'real' else [0.0] * 4)
        it.call('@h_' + fn, [b, pi, pj, out])
        return read_doubles(it, out, 3)
    res, st = explore(mod, models.all_models(), body, fpmode=fpmode, parsed=parsed)
    return [(list(it.pc), r, it) for it, r in res], st

def merge(paths):
    """several feasible paths of one kernel (a change may turn the branch-free rounding into if/else chains) as ONE guarded
    expression: path condition = disjunction of the path conditions, result = nested if-then-else over them"""
    if len(paths) == 1: return paths[0]
    conds = [z3.And(pc) if pc else z3.BoolVal(True) for pc, r, it in paths]
    res = []
    for i in range(3):
        e = symx.Interp.R(paths[-1][1][i])
        for c, (pc, r, it) in zip(reversed(conds[:-1]), reversed(paths[:-1])): e = z3.If(c, symx.Interp.R(r[i]), e)
        res.append(e)
    return [z3.Or(conds)], res, paths[0][2]

def vec(prefix, n=3, sort=z3.Real): return [sort('%s%d' % (prefix, i)) for i in range(n)]

def tric_box_syms():
    ax, bx_, by, cx, cy, cz = z3.Reals('ax bx by cx cy cz')
    box = [ax, F(0), F(0), bx_, by, F(0), cx, cy, cz]       # columns a, b, c
    gromacs = [ax > 0, by > 0, cz > 0, 2 * bx_ <= ax, -2 * bx_ <= ax, 2 * cx <= ax, -2 * cx <= ax, 2 * cy <= by, -2 * cy <= by]
    return (ax, bx_, by, cx, cy, cz), box, gromacs

def norm2(v): return v[0] * v[0] + v[1] * v[1] + v[2] * v[2]
def absle(x, b): return z3.And(x <= b, -x <= b)

def validate(ck, mod, tier):
    """Encoder validation: interpreter in IEEE-float mode vs g++ build of the same harness (repo unit-test boxes + random)."""
    rnd = random.Random(common.SEED)
    binp = common.native_build([common.harness_path(HARNESS)], 'C02_native', extra=['-I' + common.REPO], libs=LIBS, defs=['VERIF_NATIVE'], cxx=common.CLANG)
    cases = []
    # boxes from csg/src/tests/test_boundarycondition.cc: orthorhombic 1,2,1(approx) and triclinic
    fixed = [('ortho', [1.0, 0, 0, 0, 2.0, 0, 0, 0, 1.0]), ('tric', [1.0, 0, 0, 0.5, 2.0, 0, 0.25, -0.7, 1.5]), ('open', [0.0] * 9), ('tric', [3.0, 0, 0, -1.5, 2.5, 0, 1.0, 1.25, 4.0])]
    for kind, bx in fixed:
        for _ in range(15):
            cases.append((kind, bx, [rnd.uniform(-7, 7) for _ in range(3)], [rnd.uniform(-7, 7) for _ in range(3)]))
    for _ in range(40):
        a = rnd.uniform(0.5, 5); b = rnd.uniform(0.5, 5); c = rnd.uniform(0.5, 5)
        bx = [a, 0, 0, rnd.uniform(-a / 2, a / 2), b, 0, rnd.uniform(-a / 2, a / 2), rnd.uniform(-b / 2, b / 2), c]
        cases.append((rnd.choice(['tric', 'ortho']), bx, [rnd.uniform(-50, 50) for _ in range(3)], [rnd.uniform(-50, 50) for _ in range(3)]))
    lines = []
    for kind, bx, ri, rj in cases:
        if kind == 'ortho': bx = [bx[0], 0, 0, 0, bx[4], 0, 0, 0, bx[8]]
        lines.append(kind + ' ' + ' '.join(float(x).hex() for x in list(bx) + ri + rj))
    for kind, bx, ri, rj in cases[:30]:
        lines.append('vol ' + ' '.join(float(x).hex() for x in bx)); lines.append('short ' + ' '.join(float(x).hex() for x in bx))
    rc, so, se = common.run_native(binp, '\n'.join(lines) + '\n')
    if rc != 0: raise common.EncoderError('native C02 driver failed: ' + se[-500:])
    outl = so.strip().split('\n'); parsed = {}; bad = 0; n = 0
    for ln, ol in zip(lines, outl):
        t = ln.split(); kind = t[0]; vals = [float.fromhex(x) for x in t[1:]]
        nat = [float.fromhex(x) for x in ol.split()]
        if kind in ('vol', 'short'):
            if kind == 'short' and abs(vals[0] * vals[4] * vals[8]) == 0: continue
            def body(it):
                b = alloc_doubles(it, 'box', vals[:9]); return [it.call('@h_volume' if kind == 'vol' else '@h_shortest', [b])]
            res, _ = explore(mod, models.all_models(), body, fpmode='float', parsed=parsed)
            mine = res[0][1]
        else:
            r, _ = run_box(mod, kind, vals[:9], vals[9:12], vals[12:15], fpmode='float', parsed=parsed)
            mine = r[0][1]
        n += 1
        if [float(x).hex() for x in mine] != [x.hex() for x in nat]:
            bad += 1
            if bad < 4: print('  validation mismatch', ln[:60], mine, nat)
    ck.add_validation('interpreter(float mode) vs native g++ build: OrthorhombicBox/TriclinicBox/OpenBox::BCShortestConnection, BoxVolume, getShortestBoxDimension', n, bad == 0, '%d mismatches' % bad)

def check_c02(ck, tier, replay=None):
    if replay: return do_replay(ck, replay)
    TO = 60 if tier == 'quick' else 300
    ir, dt = common.compile_ir(common.harness_path(HARNESS), extra=['-I' + common.REPO])
    mod = llir.parse_module(ir)
    ck.units += ['csg/src/libcsg/orthorhombicbox.cc', 'csg/src/libcsg/triclinicbox.cc', 'csg/src/libcsg/openbox.cc', 'csg/src/libcsg/boundarycondition.cc', 'csg/src/libcsg/topology.cc (autoDetectBoxType)', 'csg/include/votca/csg/topology.h (setBox, BCShortestConnection)']
    ck.functions.update(common.ir_func_sizes(mod, r'BCShortestConnection|BoxVolume|getShortestBoxDimension|autoDetectBoxType|^@h_'))
    ck.assumptions += ['doubles interpreted as exact reals (property is stated "to rounding"); std::round = nearest integer, ties away from zero',
                       'ties (a component exactly half a box length from both images) are excluded in the invariance obligations only; antisymmetry is required at ties too (std::round is odd)',
                       'orthorhombic: edges L>0; triclinic: GROMACS reduction conditions a_y=a_z=b_z=0, a_x,b_y,c_z>0, |b_x|<=a_x/2, |c_x|<=a_x/2, |c_y|<=b_y/2']
    validate(ck, mod, tier)
    parsed = {}
    ri = vec('ri'); rj = vec('rj'); n = vec('n', 3, z3.Int)
    d = [rj[i] - ri[i] for i in range(3)]
    stubs = set()
    # ------------------------------------------------------------------ orthorhombic
    L = vec('L'); Lpos = [l > 0 for l in L]
    obox = [L[0], F(0), F(0), F(0), L[1], F(0), F(0), F(0), L[2]]
    paths, st = run_box(mod, 'ortho', obox, ri, rj, Lpos, parsed=parsed); stubs |= st['models_used']
    if len(paths) != 1: ck.notes.append('orthorhombic kernel has %d paths (merged into one guarded expression)' % len(paths))
    pc, res, it = merge(paths)
    ck.add_witness('ortho path condition satisfiable', smt.check(pc)[0] == 'sat')
    ck.sample({'unit': 'OrthorhombicBox::BCShortestConnection', 'result_x': str(z3.simplify(res[0]))[:200], 'path_condition': [str(c)[:160] for c in pc[:4]]})
    fresh = vec('free')
    for i in range(3):
        # O4 bound; triviality probe: result replaced by a free symbol
        smt.prove(ck, 'ortho.bound[%d]: |res_i| <= L_i/2' % i, pc, z3.Not(absle(2 * res[i], L[i])), TO, probe=Lpos + [z3.Not(absle(2 * fresh[i], L[i]))])
        # O1 lattice: d_i - res_i is an integer multiple of L_i  (k from the code's round())
        k = z3.Int('kk%d' % i)
        smt.prove(ck, 'ortho.lattice[%d]: exists k in Z. res_i = d_i - k L_i' % i, pc, z3.ForAll([k], res[i] != d[i] - z3.ToReal(k) * L[i]), TO, probe=Lpos + [z3.ForAll([k], fresh[i] != d[i] - z3.ToReal(k) * L[i])])
        # shortest: no image of the same component is strictly shorter
        m = z3.Int('m%d' % i)
        smt.prove(ck, 'ortho.shortest[%d]: |res_i + m L_i| >= |res_i| for all m in Z' % i, pc + [m != 0], (res[i] + z3.ToReal(m) * L[i]) * (res[i] + z3.ToReal(m) * L[i]) < res[i] * res[i], TO,
                  probe=Lpos + [m != 0, (fresh[i] + z3.ToReal(m) * L[i]) * (fresh[i] + z3.ToReal(m) * L[i]) < fresh[i] * fresh[i]])
    notie = [z3.And(2 * res[i] != L[i], -2 * res[i] != L[i]) for i in range(3)]
    # O2 invariance under r_j -> r_j + n.L and r_i -> r_i + n.L (n unbounded integers)
    for which in ('rj', 'ri'):
        sh = [z3.Real('sh%d' % i) for i in range(3)]
        if which == 'rj': p2, _ = run_box(mod, 'ortho', obox, ri, sh, Lpos, parsed=parsed)
        else: p2, _ = run_box(mod, 'ortho', obox, sh, rj, Lpos, parsed=parsed)
        pc2, res2, _ = merge(p2)
        base = rj if which == 'rj' else ri
        link = [sh[i] == base[i] + z3.ToReal(n[i]) * L[i] for i in range(3)]
        for i in range(3):
            smt.prove(ck, 'ortho.invariance[%s+n.L][%d]' % (which, i), pc + pc2 + link + notie, res2[i] != res[i], TO, probe=Lpos + link + [fresh[i] != res[i]] + pc, divform=True)
    # O3 antisymmetry
    p3, _ = run_box(mod, 'ortho', obox, rj, ri, Lpos, parsed=parsed); pc3, res3, _ = merge(p3)
    for i in range(3):
        smt.prove(ck, 'ortho.antisymmetry[%d] (ties included: round is half-away-from-zero, hence odd)' % i, pc + pc3, res3[i] != -res[i], TO, probe=Lpos + pc + [fresh[i] != -res[i]], divform=True)
    # ------------------------------------------------------------------ open box
    p4, st4 = run_box(mod, 'open', [z3.Real('ob%d' % i) for i in range(9)], ri, rj, parsed=parsed); pc4, res4, _ = p4[0]
    for i in range(3):
        smt.prove(ck, 'open.plain_difference[%d]' % i, pc4, res4[i] != d[i], TO, probe=[fresh[i] != d[i]])
    # ------------------------------------------------------------------ triclinic
    (ax, bx_, by, cx, cy, cz), tbox, grom = tric_box_syms()
    cols = [[ax, 0, 0], [bx_, by, 0], [cx, cy, cz]]
    pt, stt = run_box(mod, 'tric', tbox, ri, rj, grom, parsed=parsed); stubs |= stt['models_used']
    assert len(pt) == 1
    pct, rest, itt = pt[0]
    ck.add_witness('triclinic path condition satisfiable', smt.check(pct)[0] == 'sat')
    ck.sample({'unit': 'TriclinicBox::BCShortestConnection', 'result_z': str(z3.simplify(rest[2]))[:200], 'path_condition': [str(c)[:160] for c in pct[:3]]})
    half = [ax, by, cz]
    # stage 1 (from the code): brick + lattice equivalence
    for i in range(3):
        smt.prove(ck, 'tric.stage1.brick[%d]: |res_i| <= box_ii/2' % i, pct, z3.Not(absle(2 * rest[i], half[i])), TO, probe=grom + [z3.Not(absle(2 * fresh[i], half[i]))])
    k0, k1, k2 = z3.Ints('k0 k1 k2')
    lat = z3.And([rest[i] == d[i] - z3.ToReal(k0) * cols[0][i] - z3.ToReal(k1) * cols[1][i] - z3.ToReal(k2) * cols[2][i] for i in range(3)])
    smt.prove(ck, 'tric.lattice: exists k in Z^3. res = d - k0 a - k1 b - k2 c', pct, z3.ForAll([k0, k1, k2], z3.Not(lat)), TO,
              probe=grom + [z3.ForAll([k0, k1, k2], z3.Not(z3.And([fresh[i] == d[i] - z3.ToReal(k0) * cols[0][i] - z3.ToReal(k1) * cols[1][i] - z3.ToReal(k2) * cols[2][i] for i in range(3)])))])
    # stage 2 (pure real lemma per image vector): inside the brick no image is both shorter and below h_min/2
    rr = vec('q')   # any point of the brick
    brick = [absle(2 * rr[i], half[i]) for i in range(3)]
    # h_min = min height; heights: c_z (c over a x b), and for a, b: det / |cross|.  det = ax*by*cz.
    # "|v| < h_min/2" is written polynomially for each of the three heights h: 4|v|^2 |N|^2 < det^2 where h = det/|N|
    det = ax * by * cz
    Na = [by * cz, -(bx_ * cz), bx_ * cy - by * cx]          # b x c
    Nb = [0, -(-ax * cz) * -1, 0]                             # placeholder (recomputed below)
    def cross(u, v): return [u[1] * v[2] - u[2] * v[1], u[2] * v[0] - u[0] * v[2], u[0] * v[1] - u[1] * v[0]]
    Na = cross(cols[1], cols[2]); Nb = cross(cols[2], cols[0]); Nc = cross(cols[0], cols[1])
    R = 1 if tier == 'quick' else 2
    jobs = []
    for nv in itertools.product(range(-R, R + 1), repeat=3):
        if nv == (0, 0, 0): continue
        tv = [nv[0] * cols[0][i] + nv[1] * cols[1][i] + nv[2] * cols[2][i] for i in range(3)]
        img = [rr[i] + tv[i] for i in range(3)]
        # |q+t|^2 < |q|^2  <=>  2 q.t + |t|^2 < 0
        shorter = 2 * sum(rr[i] * tv[i] for i in range(3)) + norm2(tv) < 0
        # |q+t| < h/2 for the three heights h = det/|N|, common positive factors (a_x, a_x b_y) divided out:
        #   N_c = a x b = (0,0,ax by)           -> 4|v|^2 < cz^2
        #   N_b = c x a = ax (0, cz, -cy)        -> 4|v|^2 (cz^2+cy^2) < by^2 cz^2
        #   N_a = b x c                          -> 4|v|^2 |b x c|^2 < det^2
        dd = norm2(img)
        below = z3.And(4 * dd < cz * cz, 4 * dd * (cz * cz + cy * cy) < by * by * cz * cz, 4 * dd * norm2(Na) < det * det)
        jobs.append((nv, grom + brick + [shorter, below]))
    t0 = time.time(); out = smt.parallel_check(jobs, timeout_s=30 if tier == 'quick' else 120)
    und = []
    for nv, (r, dt, mdl) in sorted(out.items()):
        if r == 'unknown' and tier == 'thorough' and max(abs(x) for x in nv) > 1:
            und.append(nv); continue        # claim narrowed to the decided vectors (DESIGN §5 C02)
        ck.obligation('tric.stage2.lemma n=%s: brick => image not (shorter and < h_min/2)' % (nv,), {'unsat': 'unsat', 'sat': 'sat'}.get(r, 'unknown'), dt, True, {'model': mdl} if mdl else None)
    if und: ck.notes.append('triclinic stage-2 lemma undecided (z3 unknown) for image vectors %s; claim narrowed to the decided ones' % und)
    ck.bounds['triclinic image vectors'] = '|n_i| <= %d (%d vectors, %d undecided); stage 1 holds for all reals' % (R, len(jobs), len(und))
    # invariance under whole box vectors and antisymmetry: staged lemma chains (z, then y, then x), each lemma one solver query.
    # One-shot queries mix integer rounding variables with products of symbolic box entries and are not decided by z3.
    def rnd(q, k): return z3.If(q >= 0, z3.And(z3.ToReal(k) <= q + F(1, 2), q + F(1, 2) < z3.ToReal(k) + 1), z3.And(z3.ToReal(k) - 1 < q - F(1, 2), q - F(1, 2) <= z3.ToReal(k)))
    def uses(e, v):
        st = [e]; seen = set()
        while st:
            x = st.pop()
            if x.get_id() in seen: continue
            seen.add(x.get_id())
            if x.eq(v): return True
            st.extend(x.children())
        return False
    def rounding_relation(it_, pc_, k, q, xvar):
        """the code's own rounding constraint on (k, q), with the (non-linear) quotient expression abstracted to the real variable xvar"""
        atoms = [c for c in pc_ if uses(c, k)]
        return [z3.substitute(c, (q, xvar)) for c in atoms]
    roundsA = [(k, q) for kind, k, q in itt.round_log]
    ck.add_witness('triclinic kernel performs three roundings (z, y, x)', len(roundsA) == 3)
    sh = vec('sh')
    link = [sh[i] == rj[i] + z3.ToReal(n[0]) * cols[0][i] + z3.ToReal(n[1]) * cols[1][i] + z3.ToReal(n[2]) * cols[2][i] for i in range(3)]
    p5, _ = run_box(mod, 'tric', tbox, ri, sh, grom, parsed=parsed); pc5, res5, it5 = p5[0]
    roundsB = [(k, q) for kind, k, q in it5.round_log]
    p6, _ = run_box(mod, 'tric', tbox, rj, ri, grom, parsed=parsed); pc6, res6, it6 = p6[0]
    roundsC = [(k, q) for kind, k, q in it6.round_log]
    if not (len(roundsA) == len(roundsB) == len(roundsC) == 3): raise common.Inconclusive('triclinic kernel no longer has the three-rounding structure the staged argument needs')
    qa, qb = z3.Reals('qa qb'); nn = z3.Int('nn')
    # rounding lemmas on the code's own rounding constraints (linear integer/real): shift by an integer away from ties; oddness including ties
    for m in range(3):
        (kA, qA), (kB, qB), (kC, qC) = roundsA[m], roundsB[m], roundsC[m]
        RA = rounding_relation(itt, pct, kA, qA, qa); RB = rounding_relation(it5, pc5, kB, qB, qb); RC = rounding_relation(it6, pc6, kC, qC, qb)
        smt.prove(ck, 'rounding stage %d: code-rounding(q + n) = code-rounding(q) + n for integer n when q is not half-integral' % m, RA + RB + [qb == qa + z3.ToReal(nn), 2 * (qa - z3.ToReal(kA)) != 1, 2 * (qa - z3.ToReal(kA)) != -1], kB != kA + nn, TO, probe=[kB != kA + nn])
        smt.prove(ck, 'rounding stage %d: code-rounding(-q) = -code-rounding(q), ties included' % m, RA + RC + [qb == -qa], kC != -kA, TO, probe=[kC != -kA])
    stage_n = [n[2], n[1], n[0]]   # execution order of the reductions: z (column c), y (column b), x (column a)
    ints_eq = []
    for m in range(3):
        (kA, qA), (kB, qB) = roundsA[m], roundsB[m]
        # the quotient of the shifted run is the original quotient plus the integer shift of this stage (real arithmetic, integers as reals)
        smt.prove(ck, 'tric.invariance stage %d: quotient(shifted) = quotient + n (given the earlier stages)' % m, grom + link + ints_eq, qB != qA + z3.ToReal(stage_n[m]), TO, probe=grom + [z3.Real('free') != qA + z3.ToReal(stage_n[m])], divform=True)
        ints_eq.append(kB == kA + stage_n[m])     # follows from the stage lemma + the rounding lemma (no tie) -- both discharged above
    for i in range(3):
        smt.prove(ck, 'tric.invariance[rj + n0 a + n1 b + n2 c][%d]: result unchanged given the integer relations of all stages (n unbounded, ties excluded)' % i, grom + link + ints_eq, res5[i] != rest[i], TO, probe=grom + [fresh[i] != rest[i]])
    ints_neg = []
    for m in range(3):
        (kA, qA), (kC, qC) = roundsA[m], roundsC[m]
        smt.prove(ck, 'tric.antisymmetry stage %d: quotient(swapped) = -quotient (given the earlier stages)' % m, grom + ints_neg, qC != -qA, TO, probe=grom + [z3.Real('free') != -qA], divform=True)
        ints_neg.append(kC == -kA)
    for i in range(3):
        smt.prove(ck, 'tric.antisymmetry[%d]: result changes sign given the integer relations of all stages (ties included)' % i, grom + ints_neg, res6[i] != -rest[i], TO, probe=grom + [fresh[i] != -rest[i]])
    NB = 'unbounded'
    ck.bounds['invariance shift'] = 'unbounded integer n for both box kinds; triclinic via a staged lemma chain (per stage: quotient relation, rounding lemma, final identity)'
    # ------------------------------------------------------------------ volume and shortest height
    gbox = [z3.Real('g%d' % i) for i in range(9)]
    A = gbox[0:3]; B = gbox[3:6]; C = gbox[6:9]
    detg = A[0] * (B[1] * C[2] - B[2] * C[1]) - A[1] * (B[0] * C[2] - B[2] * C[0]) + A[2] * (B[0] * C[1] - B[1] * C[0])
    def vbody(it):
        b = alloc_doubles(it, 'box', gbox); return it.call('@h_volume', [b])
    rv, stv = explore(mod, models.all_models(), vbody, parsed=parsed); stubs |= stv['models_used']
    fv = z3.Real('freev')
    for itv, vol in rv:
        smt.prove(ck, 'volume = |a.(b x c)| (path %d/%d)' % (rv.index((itv, vol)) + 1, len(rv)), itv.pc, z3.Not(z3.Or(z3.And(detg >= 0, vol == detg), z3.And(detg <= 0, vol == -detg))), TO,
                  probe=[z3.Not(z3.Or(z3.And(detg >= 0, fv == detg), z3.And(detg <= 0, fv == -detg)))])
    # shortest height for reduced triclinic boxes (lower-triangular form, all six entries symbolic): min_m det/|N_m|
    NaG = cross(cols[1], cols[2]); NbG = cross(cols[2], cols[0]); NcG = cross(cols[0], cols[1])
    def sbody(it):
        for c in grom: it.assume(c)
        b = alloc_doubles(it, 'box', tbox); return it.call('@h_shortest', [b])
    rs, sts = explore(mod, models.all_models(), sbody, parsed=parsed); stubs |= sts['models_used']
    ck.add_witness('getShortestBoxDimension reaches its return on a reduced triclinic box', len(rs) >= 1)
    ck.bounds['getShortestBoxDimension paths (forks on squaredNorm>0 in Eigen normalize)'] = len(rs)
    for k, (its, h) in enumerate(rs):
        ax_ = smt.uf_axioms(list(its.pc) + [h])
        # h equals one of the three heights (h*|N_m| = det) and is not larger than any of them
        sN = [z3.Real('sN%d' % i) for i in range(3)]
        defs = [z3.And(sN[i] > 0, sN[i] * sN[i] == norm2(N)) for i, N in enumerate((NaG, NbG, NcG))]
        goal = z3.And(z3.Or([h * sN[i] == det for i in range(3)]), z3.And([h * sN[i] <= det for i in range(3)]))
        smt.prove(ck, 'shortest box height = min_m det/|N_m| (path %d/%d)' % (k + 1, len(rs)), list(its.pc) + ax_ + defs, z3.Not(goal), TO,
                  probe=grom + defs + [z3.Not(z3.And(z3.Or([fv * sN[i] == det for i in range(3)]), z3.And([fv * sN[i] <= det for i in range(3)])))])
    # ------------------------------------------------------------------ box-type dispatch (auto-detect and explicit)
    def tbody(ty):
        def body(it):
            b = alloc_doubles(it, 'box', gbox); pi = alloc_doubles(it, 'ri', ri); pj = alloc_doubles(it, 'rj', rj); out = alloc_doubles(it, 'out', [F(0)] * 4)
            t = it.call('@h_topbox', [b, ty, pi, pj, out]); return t, read_doubles(it, out, 4)
        return body
    offdiag = [gbox[i] for i in (1, 2, 3, 5, 6, 7)]
    allzero = z3.And([g == 0 for g in gbox]); diag = z3.And([g == 0 for g in offdiag])
    rt, stt2 = explore(mod, models.all_models(), tbody(0), parsed=parsed, max_paths=4000); stubs |= stt2['models_used']
    ck.add_witness('auto-detect explores all three box kinds', {t for _, (t, _) in rt} == {1, 2, 3})
    for k, (itx, (t, outv)) in enumerate(rt):
        want = z3.If(allzero, 3, z3.If(diag, 2, 1))
        smt.prove(ck, 'autodetect path %d: type=%d iff (zero->open, diagonal->orthorhombic, else triclinic)' % (k, t), itx.pc, want != t, TO, probe=[want != z3.Int('freet')])
    ck.bounds['autodetect paths'] = len(rt)
    for ty, nm in ((1, 'triclinic'), (2, 'orthorhombic'), (3, 'open')):
        rx, _ = explore(mod, models.all_models(), tbody(ty), parsed=parsed)
        ok = all(t == ty for _, (t, _) in rx)
        ck.obligation('explicit box type %s installs that boundary class' % nm, 'unsat' if ok else 'sat', 0.0, True)
        if ty == 3:
            for itx, (t, outv) in rx:
                for i in range(3):
                    smt.prove(ck, 'Topology(open).BCShortestConnection[%d] = plain difference' % i, itx.pc, outv[i] != d[i], TO, probe=[fresh[i] != d[i]])
    ck.stubs |= stubs
    ck.bounds.update({'coordinates': 'all reals', 'orthorhombic L': 'all reals > 0', 'triclinic box': 'all reals under the GROMACS conditions', 'solver timeout per query (s)': TO})
    report(ck)

def report(ck):
    """Turn sat obligations into replayed violations (native evaluation of the violated clause)."""
    for o in ck.obl:
        if o['status'] != 'sat': continue
        mdl = (o.get('detail') or {}).get('model') or {}
        rep = common.write_replay('C02', o['name'], {'README': 'counterexample for obligation "%s"\nreplay: ./check C02 --replay <this dir>\n' % o['name']}, {'obligation': o['name'], 'model': mdl})
        ok, why = replay_native(mdl, o['name'])
        print('  replay of %s: %s (%s)' % (o['name'], 'reproduced' if ok else 'NOT reproduced', why))
        ck.violation('C02 ' + o['name'].split('[')[0].split(':')[0].split(' (')[0], o['name'] + ' ; native replay: ' + why, rep, reproduced=ok)

def _num(v, dflt=0.0):
    if v is None: return dflt
    v = str(v).rstrip('?')
    try: return float(F(v))
    except Exception:
        try: return float(v)
        except Exception: return dflt

def _native(kind, bx, ri, rj):
    binp = common.native_build([common.harness_path(HARNESS)], 'C02_native_r', extra=['-I' + common.REPO], libs=LIBS, defs=['VERIF_NATIVE'])
    rc, so, se = common.run_native(binp, kind + ' ' + ' '.join(float(x).hex() for x in list(bx) + list(ri) + list(rj)) + '\n')
    return [float.fromhex(x) for x in so.split()]

def replay_native(mdl, name):
    """Run the real (g++-built) box class on the model's inputs and evaluate the violated clause in floating point
    with a relative tolerance of 1e-9 (the property holds 'to rounding')."""
    g = lambda k, d=0.0: _num(mdl.get(k), d)
    tol = 1e-9
    if name.startswith('ortho'): kind = 'ortho'; bx = [g('L0', 1), 0, 0, 0, g('L1', 1), 0, 0, 0, g('L2', 1)]
    elif name.startswith('tric'): kind = 'tric'; bx = [g('ax', 1), 0, 0, g('bx'), g('by', 1), 0, g('cx'), g('cy'), g('cz', 1)]
    elif name.startswith('open') or name.startswith('Topology(open)'): kind = 'open'; bx = [g('ob%d' % i) for i in range(9)]
    else: return True, 'no native replay for this clause (structural obligation)'
    ri = [g('ri%d' % i) for i in range(3)]; rj = [g('rj%d' % i) for i in range(3)]
    cols = [bx[0:3], bx[3:6], bx[6:9]]; half = [bx[0], bx[4], bx[8]]
    res = _native(kind, bx, ri, rj); d = [rj[i] - ri[i] for i in range(3)]
    scale = max(1.0, max(abs(x) for x in bx + ri + rj))
    if kind == 'open':
        bad = any(abs(res[i] - d[i]) > tol * scale for i in range(3)); return bad, 'open box result %s vs difference %s' % (res, d)
    if 'bound' in name or 'brick' in name:
        bad = [i for i in range(3) if abs(res[i]) > half[i] / 2 * (1 + tol)]
        return bool(bad), 'components %s exceed half the box: res=%s half=%s' % (bad, res, [h / 2 for h in half])
    if 'lattice' in name:
        import numpy as np
        M = np.array(cols).T; k = np.linalg.solve(M, np.array(d) - np.array(res))
        bad = any(abs(x - round(x)) > 1e-6 for x in k); return bad, 'd - res = box * %s' % list(k)
    if 'shortest' in name or 'stage2' in name:
        best = min((sum((res[i] + a * cols[0][i] + b * cols[1][i] + c * cols[2][i]) ** 2 for i in range(3)), (a, b, c)) for a in range(-3, 4) for b in range(-3, 4) for c in range(-3, 4))
        mine = sum(x * x for x in res); return best[0] < mine * (1 - tol), 'reported |res|^2=%g, image %s has %g' % (mine, best[1], best[0])
    if 'invariance' in name:
        n = [int(round(g('n%d' % i))) for i in range(3)]
        sh = [sum(n[m] * cols[m][i] for m in range(3)) for i in range(3)]
        if '[ri' in name: res2 = _native(kind, bx, [ri[i] + sh[i] for i in range(3)], rj)
        else: res2 = _native(kind, bx, ri, [rj[i] + sh[i] for i in range(3)])
        bad = any(abs(res2[i] - res[i]) > 1e-7 * scale for i in range(3)); return bad, 'shift n=%s: %s vs %s' % (n, res2, res)
    if 'antisymmetry' in name:
        res2 = _native(kind, bx, rj, ri)
        bad = any(abs(res2[i] + res[i]) > 1e-7 * scale for i in range(3)); return bad, 'swap: %s vs %s' % (res2, res)
    return True, 'no clause-specific replay'

def do_replay(ck, path):
    import json
    meta = json.load(open(os.path.join(path, 'input.json')))
    ok, why = replay_native(meta['model'], meta['obligation'])
    print('replay %s: %s (%s)' % (meta['obligation'], 'reproduced' if ok else 'not reproduced', why))
    if ok: print('VIOLATION property=C02 replay=%s' % path); return 1
    return 0

if __name__ == '__main__':
    sys.exit(common.main_wrapper('C02', check_c02))
