# C03 — neighbour search: cell index always inside the grid (E1, bit-precise) and stencil completeness (E2)
import sys, os, json, time, itertools, random
from fractions import Fraction as F
from concurrent.futures import ThreadPoolExecutor
import z3
import common, llir, symx, models, smt, ir2c, cbmc_run
from symx import Ptr, SymPtr, alloc_doubles, read_doubles, explore, sgn64

HARNESS = 'C03_nb.cc'

def nb_models():
    M = models.all_models(); M['re:^@_ZN5votca3csg6NBListC[12]Ev'] = lambda it, a: None
    return M

def e1_index(ck, mod, tier, wd, found):
    b = common.native_build([common.harness_path(HARNESS)], 'C03_layout', extra=['-I' + common.REPO], defs=['VERIF_LAYOUT'], libs=common.votca_libs())
    rc, so, se = common.run_native(b); open(os.path.join(wd, 'layout03.h'), 'w').write(so)
    t = ir2c.Translator(mod); c = t.translate(['@h_cellindex'])
    gen = os.path.join(wd, 'gen_c03.c'); open(gen, 'w').write(ir2c.PRELUDE + c)
    ck.extra['e1_generated_c_lines'] = len(c.split('\n')); ck.extra['e1_externals_left_nondeterministic'] = sorted(t.externs)
    NM = 4 if tier == 'quick' else 6
    h = common.harness_path('C03_cbmc.c'); TO = 400 if tier == 'quick' else 3000
    jobs = {'witness': ['NMAX=%d' % NM, 'WITNESS'], 'index': ['NMAX=%d' % NM], 'index-defined': ['NMAX=%d' % NM, 'FPTOSI_DEFINED']}
    with ThreadPoolExecutor(3) as ex:
        futs = {k: ex.submit(cbmc_run.run, [gen, h], 5, d, [wd], TO) for k, d in jobs.items()}
        res = {k: f.result() for k, f in futs.items()}
    ck.add_witness('getCell CBMC harness reaches its end', any(p['desc'].startswith('WITNESS') and p['status'] == 'FAILURE' for p in res['witness']['props']))
    r = res['index-defined']; ck.states += r.get('sat_vars', 0); ck.transitions += r.get('sat_clauses', 0)
    bad = cbmc_run.failed(r)
    if r['verdict'] in ('timeout', 'error'): ck.obligation('NBListGrid::getCell: index inside the grid (bit-precise)', 'unknown', r['time_s'], True, {'cbmc': r['verdict'], 'tail': r['raw_tail'][-300:]})
    else:
        ck.obligation('NBListGrid::getCell: for every finite position (negative, huge, on cell faces), any finite scaled normals and 1..%d cells per direction the cell index is inside the grid; all %d CBMC properties hold' % (NM, len(r['props'])), 'sat' if bad else 'unsat', r['time_s'], True, {'failed': [p['desc'] for p in bad][:4], 'trace': next(iter(r['trace'].values()), {})} if bad else None)
        if bad: found.append(('getCell index', 'NBListGrid::getCell returns a cell outside the grid: %s' % {k: v for k, v in next(iter(r['trace'].values()), {}).items() if k in ('Na', 'Nb', 'Nc', 'idx') or k.startswith('r[')}, {}))
    if cbmc_run.ubclass_failed(res['index']): ck.ub_class('NBListGrid::getCell converts floor(r.n) to Index without a range check: for |r.n| >= 2^63 the conversion is undefined behaviour (the index is wrapped afterwards, no out-of-range cell follows when the conversion saturates)')
    ck.sample({'engine': 'E1', 'cbmc_cmd': r['cmd'][:300]})
    ck.bounds['E1 getCell'] = 'cells per direction 1..%d, all finite doubles for position and normals; functional clause where |floor(r.n)| < 2^62' % NM

def e2_stencil(ck, mod, tier, parsed, found):
    """for concrete boxes/cutoffs: two points whose minimum-image vector has all three plane-normal projections below the cutoff lie in the same or in neighbouring cells"""
    TO = 60
    cases = [('orthorhombic 3x3x3 cells', [F(3), 0, 0, 0, F(3), 0, 0, 0, F(3)], F(1), 'ortho'), ('orthorhombic 2x1x4 cells', [F(2), 0, 0, 0, F(1), 0, 0, 0, F(4)], F(1), 'ortho'),
             ('orthorhombic 1x1x1 cell', [F(3, 2), 0, 0, 0, F(3, 2), 0, 0, 0, F(3, 2)], F(1), 'ortho'), ('triclinic 3x3x2 cells (a=(6,0,0), b=(0,8,0), c=(0,3,4): rational normals)', [F(6), 0, 0, 0, F(8), 0, 0, F(3), F(4)], F(2), 'tric')]
    if tier == 'quick': cases = cases[:2] + cases[3:]
    import C02
    ir2, _ = common.compile_ir(common.harness_path('C02_box.cc'), extra=['-I' + common.REPO]); mod02 = llir.parse_module(ir2); p02 = {}
    for label, box, rc, kind in cases:
        u = [z3.Real('u%d' % i) for i in range(3)]; v = [z3.Real('v%d' % i) for i in range(3)]
        info = {}
        def body(it):
            it.sym_ptr_any = True
            pb = alloc_doubles(it, 'box', [F(x) for x in box]); g = it.call('@h_grid_new', [pb, rc])
            dims = it.alloc(8 * 5, 'dims'); it.call('@h_dims', [g, dims]); d = [sgn64(it.load(Ptr(dims.obj, 8 * i), 8)) for i in range(5)]
            ncell = d[3]; nb = {}
            buf = it.alloc(8 * 64, 'nb')
            for c in range(ncell):
                n = sgn64(it.call('@h_neigh', [g, c, buf, 64])); nb[c] = [sgn64(it.load(Ptr(buf.obj, 8 * k), 8)) for k in range(n)]
            info['dims'] = d; info['nb'] = nb
            pu = alloc_doubles(it, 'u', u); pv = alloc_doubles(it, 'v', v)
            cu = it.call('@h_cell', [g, pu]); cv = it.call('@h_cell', [g, pv]); c0 = it.call('@h_cell0', [g])
            def lin(p):
                if isinstance(p, SymPtr): return p.idx + (p.off - c0.off) // d[4] if p.stride == d[4] else None
                return z3.IntVal((p.off - c0.off) // d[4])
            return lin(cu), lin(cv)
        res, st = explore(mod, nb_models(), body, parsed=parsed, max_paths=200); ck.stubs |= st['models_used']
        d = info['dims']; nb = info['nb']; ncell = d[3]
        dup = [c for c in nb if len(nb[c]) != len(set(nb[c])) or c in nb[c]]
        ck.obligation('%s: no cell lists itself or the same neighbour twice (%d cells, stencil sizes %s)' % (label, ncell, sorted({len(x) for x in nb.values()})), 'sat' if dup else 'unsat', 0.0, True, {'cells': dup[:5]} if dup else None)
        if dup: found.append(('stencil duplicates', '%s: cells %s list themselves or a neighbour twice (double delivery)' % (label, dup[:5]), {}))
        sym = all((a in nb[b]) for a in nb for b in nb[a])
        ck.obligation('%s: the neighbour relation is symmetric' % label, 'unsat' if sym else 'sat', 0.0, True)
        # minimum-image vector from the real box routine, projections on the unit plane normals (concrete box -> rational up to the normal length)
        pc2, r, _ = C02.run_box(mod02, kind, [F(x) for x in box], u, v, parsed=p02)[0][0]
        cols = [box[0:3], box[3:6], box[6:9]]
        cr = lambda a, b: [a[1] * b[2] - a[2] * b[1], a[2] * b[0] - a[0] * b[2], a[0] * b[1] - a[1] * b[0]]
        Ns = [cr(cols[1], cols[2]), cr(cols[2], cols[0]), cr(cols[0], cols[1])]
        near = []
        for N in Ns:
            n2 = sum(x * x for x in N); proj = sum(r[k] * N[k] for k in range(3))
            nz = [k for k in range(3) if N[k] != 0]
            if len(nz) == 1:                                   # axis-aligned normal: |r_k| < rc, linear
                near.append(z3.And(r[nz[0]] < rc, -r[nz[0]] < rc))
            else:
                near.append(proj * proj < rc * rc * n2)          # |r.N|/|N| < rc
        W = 4 * max(abs(F(x)) for x in box)
        window = [z3.And(x >= -W, x <= W) for x in u + v]
        ck.bounds['E2 stencil positions'] = 'both points anywhere within +-4 longest box vector components of the origin (unbounded positions leave z3 without a verdict); cell-index range for arbitrary positions is the E1 obligation'
        for it, (cu, cv) in res:
            if cu is None or cv is None: ck.inconc('%s: cell pointer with unexpected stride' % label); continue
            table = z3.Or([z3.And(cu == a, cv == b) for a in nb for b in nb[a]] or [z3.BoolVal(False)])
            s_, mdl = smt.prove(ck, '%s: points whose minimum-image vector projects below the cutoff on all three plane normals are in the same or in neighbouring cells' % label, list(it.pc) + pc2 + near + window + [cu >= 0, cu < ncell, cv >= 0, cv < ncell], [cu != cv, z3.Not(table)], TO, probe=[z3.Int('fa') != z3.Int('fb')])
            if s_ == 'sat': found.append(('stencil completeness', '%s: two points within the cutoff lie in cells that are not neighbours: %s' % (label, {k: mdl[k] for k in mdl if k[0] in 'uv'}), mdl))
        ck.bounds.setdefault('E2 stencil boxes', []).append('%s, cutoff %s -> %dx%dx%d cells' % (label, rc, d[0], d[1], d[2]))

def e2_exclusions(ck, mod, tier, parsed, found):
    """ExcludeList then IsExcluded for every ordered pair: excluded iff distinct beads of the same molecule; symmetric; independent of insertion order"""
    from symx import alloc_i64
    n = 3; TO = 60
    ids = [z3.Int('id%d' % i) for i in range(n)]; mols = [z3.Int('mol%d' % i) for i in range(n)]
    orders = list(itertools.permutations(range(n))) if tier == 'thorough' else [(0, 1, 2), (2, 0, 1), (1, 2, 0)]
    tot = 0; q = []
    for order in orders:
        def body(it):
            it.assume(z3.Distinct(*ids))
            pi = alloc_i64(it, 'ids', ids); pm = alloc_i64(it, 'mols', mols); po = alloc_i64(it, 'ord', list(order)); out = it.alloc(8 * n * n, 'out')
            it.call('@h_excl', [n, pi, pm, po, out]); return [sgn64(it.load(Ptr(out.obj, 8 * k), 8)) for k in range(n * n)]
        res, st = explore(mod, nb_models(), body, parsed=parsed, max_paths=5000); ck.stubs |= st['models_used']; tot += len(res)
        for it, o in res:
            goal = [z3.BoolVal(bool(o[n * i + j])) == z3.And(mols[i] == mols[j], z3.BoolVal(i != j)) for i in range(n) for j in range(n)]
            q.append((list(it.pc), [z3.Not(z3.And(goal))]))
    out = smt.parallel_check([(i, a + g) for i, (a, g) in enumerate(q)], timeout_s=TO)
    bad = [i for i in out if out[i][0] != 'unsat']
    st_ = 'unsat' if not bad else ('sat' if any(out[i][0] == 'sat' for i in bad) else 'unknown')
    ck.add_witness('exclusion lookup: %d paths over id orderings and molecule assignments' % tot, tot >= 6)
    ck.obligation('ExclusionList: after excluding a list of 3 beads, IsExcluded(x,y) holds exactly for distinct beads of the same molecule, in both argument orders, for every id ordering and %d insertion orders (%d path queries)' % (len(orders), len(q)), st_, sum(v[1] for v in out.values()), True, {'model': out[bad[0]][2]} if bad else None)
    if st_ == 'sat': found.append(('exclusion lookup', 'IsExcluded is not symmetric / not exactly the intramolecular pairs: %s' % out[[i for i in bad if out[i][0] == 'sat'][0]][2], out[bad[0]][2]))

def check_c03(ck, tier, replay=None):
    if replay: print('re-run ./check C03'); return 0
    wd = common.workdir()
    ir, dt = common.compile_ir(common.harness_path(HARNESS), extra=['-I' + common.REPO])
    mod = llir.parse_module(ir)
    ck.units += ['csg/src/libcsg/nblistgrid.cc (InitializeGrid, getCell)', 'tools/include/votca/tools/NDimVector.h (index arithmetic)', 'csg box routines through the C02 harness for the minimum-image vector']
    ck.functions.update(common.ir_func_sizes(mod, r'^@h_|NBListGrid'))
    ck.assumptions += ['E1: allocation failure out of scope; grid object = arbitrary state with finite scaled normals and a storage block of exactly Na*Nb*Nc cells', 'E2: exact reals; concrete boxes and cutoffs (listed); the premise "distance below cutoff" is weakened to "all three plane-normal projections of the minimum-image vector below the cutoff", which every pair within the cutoff satisfies',
                       'pair/triple enumeration over whole configurations (PairList, BeadList, match callbacks) is outside this check; the exclusion lookup is covered for one excluded list of three beads']
    found = []
    e1_index(ck, mod, tier, wd, found)
    e2_stencil(ck, mod, tier, {}, found)
    e2_exclusions(ck, mod, tier, {}, found)
    import C03p
    pfound = []
    C03p.check_pairs(ck, tier, pfound)
    for tag, what, meta in pfound:
        rep = common.write_replay('C03', tag + what, {}, meta)
        ok, why = C03p.replay_native(meta)
        ck.violation('C03 ' + tag + ' ' + meta['task'].get('label', '')[:60], what + ' ; ' + why, rep, reproduced=ok)
    for tag, what, mdl in found:
        rep = common.write_replay('C03', tag + what, {}, {'tag': tag, 'what': what, 'model': mdl})
        ck.violation('C03 ' + tag, what, rep, reproduced=True)

if __name__ == '__main__':
    sys.exit(common.main_wrapper('C03', check_c03, level='model_checking'))
