# C08, trajectory frames: .gro and LAMMPS dump writer -> reader over the file-system model (see C08.py for the text channel)
import sys, os, json
from fractions import Fraction as F
import z3
import common, llir, symx, models, smt, fileio
from symx import Ptr, alloc_i64, alloc_doubles, read_doubles, explore, sgn64, is_sym

HARNESS = 'C08_traj.cc'
FIO = fileio.FileIO()
def R(x): return x if is_sym(x) else z3.RealVal(F(x))
FMT = {0: '.gro (GROWriter -> GROReader)', 1: 'LAMMPS dump (LAMMPSDumpWriter -> LAMMPSDumpReader)'}

def run(mod, parsed, fmt, n, flags, nframes, nread, boxkind, step=5, flags2=None, full=()):
    flags2 = flags if flags2 is None else flags2
    pos = [z3.Real('p%d' % i) for i in range(3 * n)]; vel = [z3.Real('v%d' % i) for i in range(3 * n)]; frc = [z3.Real('f%d' % i) for i in range(3 * n)]
    L = [z3.Real('L%d' % i) for i in range(9)]
    box = [L[0], 0, 0, 0, L[4], 0, 0, 0, L[8]] if boxkind == 'orthorhombic' else [L[0], L[1], L[2], 0, L[4], L[5], 0, 0, L[8]]
    def body(it):
        FIO.reset(); FIO.fullwidth = set(full)
        for i in (0, 4, 8): it.assume(L[i] > 0)
        if boxkind != 'orthorhombic': it.assume(z3.Or(L[1] != 0, L[2] != 0, L[5] != 0))
        pp = alloc_doubles(it, 'pos', pos); pv = alloc_doubles(it, 'vel', vel); pf = alloc_doubles(it, 'frc', frc); pb = alloc_doubles(it, 'box', box)
        op = it.alloc(8 * 48, 'op'); ov = it.alloc(8 * 48, 'ov'); of = it.alloc(8 * 48, 'of'); ob = it.alloc(72, 'ob'); om = it.alloc(8 * 20, 'om')
        for o, sz in ((op, 384), (ov, 384), (of, 384), (ob, 72), (om, 160)): it.zerofill(o, sz)
        k = sgn64(it.call('@h_traj_rt', [fmt, n, pp, pv, pf, pb, flags, step, nframes, nread, flags2, op, ov, of, ob, om]))
        return k, read_doubles(it, ob, 9), read_doubles(it, op, 3 * nread), read_doubles(it, ov, 3 * nread), read_doubles(it, of, 3 * nread), [sgn64(it.load(Ptr(om.obj, 8 * i), 8)) for i in range(2 + nread)], FIO.text('t.gro' if fmt == 0 else 't.dump')
    res, st = explore(mod, FIO.models(), body, parsed=parsed, max_paths=400)
    return res, st, (pos, vel, frc, box)

def check_traj(ck, tier, found):
    TO = 60
    ir, dt = common.compile_ir(common.harness_path(HARNESS), extra=['-I' + common.REPO])
    mod = llir.parse_module(ir); parsed = {}
    ck.units += ['csg/src/libcsg/modules/io/%s.cc' % u for u in ('growriter', 'groreader', 'lammpsdumpwriter', 'lammpsdumpreader')] + ['csg/src/libcsg/topology.cc']
    ck.functions.update(common.ir_func_sizes(mod, r'^@h_traj|GROWriter|GROReader|LAMMPSDumpWriter|LAMMPSDumpReader'))
    cases = []
    for fmt in (0, 1):
        flagsets = (0, 2) if fmt == 0 else (0, 2, 6)
        for n in (1, 2):
            for flags in flagsets:
                for boxkind in ('orthorhombic', 'triclinic') if fmt == 0 else ('orthorhombic',):
                    for nframes in (1, 2):
                        if tier == 'quick' and (n, nframes) == (2, 2) and flags != flagsets[-1]: continue
                        cases.append((fmt, n, flags, nframes, boxkind))
    cases = [c + (None, ()) for c in cases]
    # values that fill their whole fixed-width column (.gro bead lines, %8.3f / %8.4f): no blank separates neighbouring fields
    cases += [(0, 1, 2, 1, 'orthorhombic', None, (8,)), (0, 2, 2, 2, 'orthorhombic', None, (8,)), (0, 1, 0, 1, 'orthorhombic', None, (8,))]
    # a trajectory whose column layout changes from frame to frame (LAMMPS: the ITEM: ATOMS header is per frame)
    cases += [(1, 1, 2, 2, 'orthorhombic', 6, ()), (1, 1, 6, 2, 'orthorhombic', 2, ()), (1, 2, 0, 2, 'orthorhombic', 6, ())]
    for fmt, n, flags, nframes, boxkind, fl2, full in cases:
        res, st, (pos, vel, frc, box) = run(mod, parsed, fmt, n, flags, nframes, n, boxkind, flags2=fl2, full=full); ck.stubs |= st['models_used']
        last = flags if (fl2 is None or nframes == 1) else fl2
        desc = '%s, %d bead(s), %s%s, %s box, %d frame(s)%s%s' % (FMT[fmt], n, 'positions', {0: '', 2: ' + velocities', 6: ' + velocities + forces'}[flags], boxkind, nframes, '' if fl2 is None else ', later frames with%s' % {0: ' positions only', 2: ' velocities', 6: ' velocities + forces'}[fl2], ', every value filling its whole column' if full else '')
        flags_w = flags; flags = last
        ck.add_witness(desc + ': %d path(s)' % len(res), len(res) >= 1)
        q = []
        for it, (k, ob, op, ov, of, om, txt) in res:
            pc = list(it.pc)
            if k != nframes or om[1] != n: q.append((pc, [z3.BoolVal(True)])); continue
            goal = [R(ob[i]) == R(box[i]) for i in range(9)] + [R(op[i]) == pos[i] for i in range(3 * n)]
            if flags & 2: goal += [R(ov[i]) == vel[i] for i in range(3 * n)]
            if flags & 4:
                # forces cross two rounded unit constants (kJ<->kcal): equal to relative 1e-6
                for i in range(3 * n): goal.append(z3.And(R(of[i]) - frc[i] <= z3.If(frc[i] >= 0, frc[i], -frc[i]) / 1000000, frc[i] - R(of[i]) <= z3.If(frc[i] >= 0, frc[i], -frc[i]) / 1000000))
            if fmt == 1: goal.append(z3.BoolVal(om[0] == 5 + nframes - 1))
            q.append((pc, [z3.Not(z3.And(goal))]))
        name = 'trajectory %s: the reader returns the same number of frames and, for the last frame, the box matrix%s, positions%s in the original units' % (desc, ', step' if fmt == 1 else '', {0: '', 2: ', velocities', 6: ', velocities and forces'}[flags])
        s_, mdl = smt.agg_core(ck, name, q, TO)
        if s_ == 'sat':
            found.append((name, {'clause': 'traj:roundtrip %s %s%s%s' % (('gro', 'lammps')[fmt], boxkind, ' layout-change' if fl2 is not None else '', ' full-width' if full else ''), 'fmt': fmt, 'n': n, 'flags': flags_w, 'flags2': fl2, 'full': bool(full), 'nframes': nframes, 'nread': n, 'boxkind': boxkind, 'model': mdl, 'expect': 'roundtrip'}))
    # a frame whose atom count disagrees with the topology is reported as an error
    for fmt in (0, 1):
        for n, nread in ((2, 1), (1, 2)):
            try:
                res, st, _ = run(mod, parsed, fmt, n, 0, 1, nread, 'orthorhombic')
                bad = [it for it, r in res if r[0] != -1]
            except symx.Unsupported as ex:
                # the reader did not stop at the count check and went on to use the frame (e.g. a bead that does not exist)
                res = []; bad = ['reader continued: %s' % ex]
            name = 'trajectory %s: a frame with %d atom(s) read into a topology with %d bead(s) is rejected with an error' % (FMT[fmt], n, nread)
            ck.obligation(name, 'sat' if bad else 'unsat', 0.0, True, {'paths': len(res)})
            if bad: found.append((name, {'clause': 'traj:atom-count %s' % ('gro', 'lammps')[fmt], 'fmt': fmt, 'n': n, 'flags': 0, 'nframes': 1, 'nread': nread, 'boxkind': 'orthorhombic', 'model': {}, 'expect': 'error'}))
    ck.bounds['trajectories'] = '.gro and LAMMPS dump; 1..2 beads of one type in one residue; positions / + velocities / (LAMMPS) + forces; orthorhombic boxes with symbolic edges, (.gro) triclinic boxes with symbolic off-diagonal elements; 1..2 frames; all coordinates arbitrary reals'

_BIN = {}
def replay_native(meta):
    if 'b' not in _BIN: _BIN['b'] = common.native_build([common.harness_path(HARNESS)], 'C08t_native', extra=['-I' + common.REPO], defs=['VERIF_NATIVE'], libs=['-lexpat'])
    binp = _BIN['b']
    if False: common.native_build([common.harness_path(HARNESS)], 'C08t_native', extra=['-I' + common.REPO], defs=['VERIF_NATIVE'], libs=['-lexpat'])
    n, nread, fmt, flags = meta['n'], meta['nread'], meta['fmt'], meta['flags']
    box = [3.0, 0, 0, 0, 4.0, 0, 0, 0, 5.0] if meta['boxkind'] == 'orthorhombic' else [3.0, 0.5, 0.25, 0, 4.0, 0.75, 0, 0, 5.0]
    mdl = meta.get('model') or {}
    if meta['boxkind'] != 'orthorhombic' and any(('L%d' % i) in mdl for i in (1, 2, 5)):
        # the solver's own box: the signs and zero pattern of the off-diagonal elements are what a writer's "is it triclinic" test
        # depends on; magnitudes are brought into the printable range of the format
        def num(k, d):
            try:
                from fractions import Fraction as _F
                v = float(_F(str(mdl.get(k)))) if mdl.get(k) is not None else d
            except Exception: v = d
            return v
        def clamp(v, lo, hi): return 0.0 if v == 0 else (1 if v > 0 else -1) * min(max(abs(v), lo), hi)
        box = [clamp(num('L0', 3.0), 1.0, 9.0), clamp(num('L1', 0.0), 0.125, 1.0), clamp(num('L2', 0.0), 0.125, 1.0), 0, clamp(num('L4', 4.0), 1.0, 9.0), clamp(num('L5', 0.0), 0.125, 1.0), 0, 0, clamp(num('L8', 5.0), 1.0, 9.0)]
        box = [round(8 * v) / 8.0 for v in box]
    pos = [0.125 * (i + 1) for i in range(3 * n)]; vel = [0.25 * (i + 1) for i in range(3 * n)]; frc = [0.5 * (i + 1) for i in range(3 * n)]
    if meta.get('full'):       # values that fill the 8-character columns: -100.125 (%8.3f), 100.0625 / -10.0625 (%8.4f)
        pos = [-100.125 - i for i in range(3 * n)]; vel = [100.0625 + i if i % 2 == 0 else -10.0625 - i for i in range(3 * n)]
    fl2 = meta.get('flags2'); fl2 = flags if fl2 is None else fl2
    args = [str(x) for x in (fmt, n, flags, 5, meta['nframes'], nread, fl2)] + [repr(x) for x in box + pos + vel + frc]
    rc, so, se = common.run_native(binp, args=args)
    line = [l for l in so.split('\n') if l.startswith('RESULT')]
    if not line: return True, 'native run gave no result: %s %s' % (so[-200:], se[-200:])
    v = line[0].split()[1:]; k = int(v[0]); nb = int(v[2]); ob = [float(x) for x in v[3:12]]; op = [float(x) for x in v[12:12 + 3 * nread]]; ovel = [float(x) for x in v[12 + 3 * nread:12 + 6 * nread]]; ofr = [float(x) for x in v[12 + 6 * nread:12 + 9 * nread]]
    if meta['expect'] == 'error':
        return k != -1, 'native: frame with %d atoms read into a topology with %d beads: reader %s' % (n, nread, 'threw' if k == -1 else 'returned normally (%d frame(s))' % k)
    lastfl = fl2 if meta['nframes'] > 1 else flags
    bad = k != meta['nframes'] or any(abs(a - b) > 1e-3 for a, b in zip(ob, box)) or any(abs(a - b) > 1e-3 for a, b in zip(op, pos))
    if lastfl & 2: bad = bad or any(abs(a - b) > 1e-3 for a, b in zip(ovel, vel))
    if lastfl & 4: bad = bad or any(abs(a - b) > 1e-3 * max(1, abs(b)) for a, b in zip(ofr, frc))
    return bad, 'native: wrote box %s, read back %s; positions %s -> %s; velocities %s -> %s; forces -> %s; frames %d' % (box, ob, pos, op, vel, ovel, ofr, k)
