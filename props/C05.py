# C05 — threaded trajectory analysis: per-thread automata extracted from the real Worker::Run/ProcessData IR by symbolic
# execution, lockset (data-race) obligations on the extracted traces, and bounded model checking of the product in z3
# where the schedule is a solver variable.
import sys, os, json, time, re, itertools
from fractions import Fraction as F
import z3
import common, llir, symx, models, smt
from symx import Ptr, explore, sgn64

HARNESS = 'C05_app.cc'
class Stop(Exception): pass

# ------------------------------------------------------------------------------------------ step 1: extraction
def extract(mod, T, sync, tid, parsed, domap=0):
    """All executions of ONE loop iteration of the real Worker::Run for worker tid: list of (events, guards)."""
    M = models.all_models()
    noop = lambda it, a: None
    M.update({'re:^@_ZN5votca5tools6ThreadC[12]Ev': noop, 're:^@_ZN5votca5tools6ThreadD[12]Ev': noop, 're:^@_ZN5votca3csg8TopologyD[12]Ev': noop, 're:^@_ZN5votca3csg13ExclusionList5ClearEv': noop,
              're:^@_ZN5votca5tools11ApplicationC[12]Ev': noop, 're:^@_ZN5votca5tools11ApplicationD[12]Ev': noop, 're:^@_ZN5votca5tools5MutexC[12]Ev': noop, 're:^@_ZN5votca5tools5MutexD[12]Ev': noop})
    def body(it):
        it.fork_minmax = True
        app = it.call('@h_setup', [T, sync, 5, domap])
        names = {}
        a = it.call('@h_mutex_addr', [app, 0, 0]); names[(a.obj, a.off)] = 'rd'
        if sync:
            for i in range(T):
                a = it.call('@h_mutex_addr', [app, 1, i]); names[(a.obj, a.off)] = 'in%d' % i
                a = it.call('@h_mutex_addr', [app, 2, i]); names[(a.obj, a.off)] = 'out%d' % i
        ev = it.events; cnt = {'n': 0}
        def fresh(p): cnt['n'] += 1; return z3.Int('%s!%d' % (p, cnt['n']))
        def mname(p): return names.get((p.obj, p.off), ('app+%d' % (p.off - app.off)) if p.obj == app.obj else 'other:%d+%d' % (p.obj, p.off))
        first_lock = []
        def lock(it, a):
            e = ('lock', mname(a[0]))
            if not first_lock: first_lock.append(e)
            elif e == first_lock[0]: raise Stop()          # the iteration-start event repeats: one loop iteration is complete
            ev.append(e)
        def unlock(it, a): ev.append(('unlock', mname(a[0])))
        def nxt(it, a):
            r = fresh('next'); it.assume(z3.And(r >= 0, r <= 1)); ev.append(('next', sgn64(a[0]), r)); return r
        M2 = dict(M)
        M2.update({'@_ZN5votca5tools5Mutex4LockEv': lock, '@_ZN5votca5tools5Mutex6UnlockEv': unlock, '@verif_next_frame': nxt,
                   '@verif_eval': lambda it, a: ev.append(('eval', sgn64(a[0]))), '@verif_merge': lambda it, a: ev.append(('merge', sgn64(a[0]))),
                   're:^@_ZN5votca3csg11TopologyMap5ApplyEv': lambda it, a: ev.append(('mapapply',))})
        it.models = M2; it._mcache = {}
        fa = it.call('@h_field_addr', [app, 0]); fb = it.call('@h_field_addr', [app, 1])
        def w_nf(kind, it, ptr, size, v):
            if kind == 'load':
                r = fresh('nf'); ev.append(('read', 'nframes', r)); return (r,)
            ev.append(('write', 'nframes', v))
        def w_ff(kind, it, ptr, size, v):
            if kind == 'load':
                r = fresh('ff'); it.assume(z3.And(r >= 0, r <= 1)); ev.append(('read', 'first', r)); return (r,)
            ev.append(('write', 'first', v))
        it.watch = {(fa.obj, fa.off): w_nf, (fb.obj, fb.off): w_ff}
        npc = len(it.pc)
        try:
            it.call('@h_worker_run', [app, tid]); ev.append(('exit',))
        except Stop:
            ev.append(('loop',))
        return list(ev), [c for c in it.pc[npc:]]
    res, st = explore(mod, M, body, parsed=parsed, max_paths=400)
    return [r for _, r in res], st

def syms_of(e):
    out = set(); stack = [e]
    while stack:
        x = stack.pop()
        if z3.is_const(x) and x.decl().kind() == z3.Z3_OP_UNINTERPRETED: out.add(str(x))
        stack.extend(x.children())
    return out

def segments(events):
    """split one iteration into transactions: a new segment starts at every blocking event (lock)"""
    segs = []; cur = []
    for e in events:
        if e[0] == 'lock' and cur: segs.append(cur); cur = []
        cur.append(e)
    if cur: segs.append(cur)
    return segs

def lockset_check(paths, tid, sync):
    """step 2: every access to the shared reader state happens under the reader mutex; merges happen under the worker's out token"""
    problems = []
    for events, guards in paths:
        held = set()
        for e in events:
            if e[0] == 'lock': held.add(e[1])
            elif e[0] == 'unlock': held.discard(e[1])    # unlocking a token held by another thread is how the ring passes it on
            elif e[0] in ('read', 'write', 'next'):
                if 'rd' not in held: problems.append('worker %d: %s of %s outside the trajectory-reader mutex (held: %s)' % (tid, e[0], e[1] if e[0] != 'next' else 'trajectory reader', sorted(held)))
            elif e[0] == 'merge' and not sync:
                # unordered mode: a worker that merges itself must do so under a mutex that all threads share; a mutex object local to
                # the worker (stack) excludes nobody
                if not any(not h.startswith('other:') for h in held): problems.append('worker %d: MergeWorker called by the worker under no mutex shared between the threads (held: %s): two workers can be inside the merge step at the same time' % (tid, sorted(held)))
            elif e[0] == 'merge' and sync:
                if ('out%d' % tid) not in held: problems.append('worker %d: MergeWorker called without holding its output token (held: %s)' % (tid, sorted(held)))
    return sorted(set(problems))

# ------------------------------------------------------------------------------------------ step 3: product system
class Product:
    def __init__(s, T, Fmax, sync, autos):
        s.T = T; s.F = Fmax; s.sync = sync; s.autos = autos       # autos[t] = list of (segments, guards) per iteration path
        s.mutexes = ['rd'] + (['in%d' % i for i in range(T)] + ['out%d' % i for i in range(T)] if sync else []) + ['mergemx']
        # any further mutex the workers use (a member the harness does not name) takes part in the product as an ordinary mutex
        for t in range(T):
            for segs, g in autos[t]:
                for seg in segs:
                    for e in seg:
                        if e[0] in ('lock', 'unlock') and e[1] not in s.mutexes: s.mutexes.append(e[1])
        # worker locations: (path-prefix of segments) -> id ; 0 = iteration start; terminal = -1
        s.loc = []
        for t in range(T):
            trie = {(): 0}
            for segs, g in autos[t]:
                for k in range(1, len(segs)):
                    key = tuple(sig(x) for x in segs[:k])
                    if key not in trie: trie[key] = len(trie)
            s.loc.append(trie)
        s.EXIT = 99
    def mk(s, k):
        T = s.T; st = {}
        st['pc'] = [z3.Int('pc%d_%d' % (t, k)) for t in range(T)]; st['main'] = z3.Int('main_%d' % k)
        st['nf'] = z3.Int('nf_%d' % k); st['first'] = z3.Int('first_%d' % k); st['avail'] = z3.Int('avail_%d' % k); st['nextno'] = z3.Int('nextno_%d' % k)
        st['fr'] = [z3.Int('fr%d_%d' % (t, k)) for t in range(T)]
        st['mx'] = {m: z3.Bool('mx_%s_%d' % (m, k)) for m in s.mutexes}
        st['mn'] = z3.Int('mn_%d' % k); st['ev'] = [z3.Int('ev%d_%d' % (f, k)) for f in range(s.F + 2)]
        st['bad'] = z3.Bool('bad_%d' % k); st['inm'] = [z3.Bool('inm%d_%d' % (t, k)) for t in range(T)]; st['excl'] = z3.Bool('excl_%d' % k); st['mw'] = [z3.Bool('mw%d_%d' % (t, k)) for t in range(T)]
        return st
    def copy(s, st):
        return {k: (list(v) if isinstance(v, list) else (dict(v) if isinstance(v, dict) else v)) for k, v in st.items()}
    def apply_events(s, st, t, events, binds):
        """symbolic effect of a straight-line event sequence of worker t on state dict st (values are z3 exprs)"""
        st = s.copy(st)
        def sub(e):
            if not z3.is_expr(e): return z3.IntVal(sgn64(e)) if isinstance(e, int) else e
            return z3.substitute(e, *[(z3.Int(k), v) for k, v in binds.items()]) if binds else e
        for e in events:
            k = e[0]
            if k == 'lock': st['mx'][e[1]] = z3.BoolVal(True)
            elif k == 'unlock': st['mx'][e[1]] = z3.BoolVal(False)
            elif k == 'read':
                binds[str(e[2])] = st['nf'] if e[1] == 'nframes' else st['first']
            elif k == 'write':
                v = sub(e[2])
                if e[1] == 'nframes': st['nf'] = v
                else: st['first'] = v
            elif k == 'next':
                ok = st['avail'] > 0
                binds[str(e[2])] = z3.If(ok, 1, 0)
                st['fr'][t] = z3.If(ok, st['nextno'], st['fr'][t]); st['nextno'] = z3.If(ok, st['nextno'] + 1, st['nextno']); st['avail'] = z3.If(ok, st['avail'] - 1, st['avail'])
            elif k == 'eval':
                st['ev'] = [z3.If(st['fr'][t] == f, st['ev'][f] + 1, st['ev'][f]) for f in range(s.F + 2)]
            elif k == 'merge':
                st['bad'] = z3.Or(st['bad'], st['fr'][t] != st['mn']); st['mn'] = st['mn'] + 1
                st['excl'] = z3.Or(st['excl'], z3.Or([st['inm'][u] for u in range(s.T) if u != t] or [z3.BoolVal(False)]))
            elif k in ('mapapply', 'loop', 'exit'): pass
            else: raise common.Inconclusive('unknown event %r' % (e,))
        return st
    def worker_edges(s, t, cur):
        """[(from_loc, enabled, guard, next_state_dict)] for worker t in state cur"""
        out = []
        trie = s.loc[t]
        groups = {}
        for segs, guards in s.autos[t]:
            for k in range(len(segs)):
                key = tuple(sig(x) for x in segs[:k])
                groups.setdefault(key, []).append((segs, guards, k))
        for key, items in groups.items():
            frm = trie[key]
            # alternatives at this location: distinct next segments (by signature), each with the guards attributable to it
            alts = {}
            for segs, guards, k in items:
                sg = sig(segs[k])
                seen_syms = set()
                for x in segs[:k + 1]:
                    for e in x:
                        if e[0] in ('read', 'next'): seen_syms.add(str(e[2]))
                prev_syms = set()
                for x in segs[:k]:
                    for e in x:
                        if e[0] in ('read', 'next'): prev_syms.add(str(e[2]))
                g = [c for c in guards if syms_of(c) and syms_of(c) <= seen_syms and not (syms_of(c) <= prev_syms)]
                # several iteration paths may share this segment (they differ only in branch outcomes that do not change the events):
                # the segment is taken if ANY of their guard conjunctions holds; read symbols are renamed to the representative's
                if sg not in alts: alts[sg] = (segs, k, [g])
                else:
                    rsegs = alts[sg][0]
                    ren = []
                    for ea, eb in zip([e for x in segs[:k + 1] for e in x], [e for x in rsegs[:k + 1] for e in x]):
                        if ea[0] in ('read', 'next'): ren.append((ea[2], eb[2]))
                    alts[sg][2].append([z3.substitute(c, *ren) for c in g] if ren else g)
            for sg, (segs, k, glist) in alts.items():
                seg = segs[k]; first = seg[0]
                en = z3.Not(cur['mx'][first[1]]) if first[0] == 'lock' else z3.BoolVal(True)
                binds = {}
                nxt = s.apply_events(cur, t, seg, binds)
                sb = lambda c: z3.substitute(c, *[(z3.Int(kk), v) for kk, v in binds.items()]) if binds else c
                guard = z3.Or([z3.And([sb(c) for c in g]) if g else z3.BoolVal(True) for g in glist])
                last = seg[-1][0]
                if last == 'exit': to = s.EXIT
                elif last == 'loop': to = 0
                else: to = trie[tuple(sig(x) for x in segs[:k + 1])]
                nxt['pc'][t] = z3.IntVal(to)
                # merge-region bookkeeping (ordered mode): in the region from acquiring the output token until the merge transaction ends
                if first == ('lock', 'out%d' % t): nxt['inm'][t] = z3.BoolVal(not any(e[0] == 'merge' for e in seg))
                if any(e[0] == 'merge' for e in seg): nxt['inm'][t] = z3.BoolVal(False)
                out.append((frm, en, guard, nxt))
        return out
    def main_edges(s, cur):
        out = []; T = s.T; loc = 0
        if s.sync:
            n1 = s.copy(cur); n1['mx']['in0'] = z3.BoolVal(False); n1['mx']['out0'] = z3.BoolVal(False); n1['main'] = z3.IntVal(1)
            out.append((0, z3.BoolVal(True), n1)); loc = 1
        for t in range(T):
            n = s.copy(cur)
            if not s.sync:
                n['mw'][t] = z3.BoolVal(True)      # main merges worker t under mergeMutex after it is done
            n['main'] = z3.IntVal(loc + 1)
            out.append((loc, cur['pc'][t] == s.EXIT, n)); loc += 1
        s.MAIN_END = loc
        return out
    def step(s, cur, nxt, sched):
        alts = []; enabled = []
        def eq(n):
            c = [nxt['pc'][t] == n['pc'][t] for t in range(s.T)] + [nxt['main'] == n['main'], nxt['nf'] == n['nf'], nxt['first'] == n['first'], nxt['avail'] == n['avail'], nxt['nextno'] == n['nextno'], nxt['mn'] == n['mn'], nxt['bad'] == n['bad'], nxt['excl'] == n['excl']]
            c += [nxt['fr'][t] == n['fr'][t] for t in range(s.T)] + [nxt['inm'][t] == n['inm'][t] for t in range(s.T)] + [nxt['mw'][t] == n['mw'][t] for t in range(s.T)]
            c += [nxt['mx'][m] == n['mx'][m] for m in s.mutexes] + [nxt['ev'][f] == n['ev'][f] for f in range(s.F + 2)]
            return z3.And(c)
        for t in range(s.T):
            for frm, en, guard, n in s.worker_edges(t, cur):
                e = z3.And(cur['pc'][t] == frm, en, guard); enabled.append(e)
                alts.append(z3.And(sched == t, e, eq(n)))
        for frm, en, n in s.main_edges(cur):
            e = z3.And(cur['main'] == frm, en); enabled.append(e)
            alts.append(z3.And(sched == s.T, e, eq(n)))
        any_en = z3.Or(enabled)
        alts.append(z3.And(z3.Not(any_en), eq(cur)))          # stutter when nothing is enabled (terminated or deadlocked)
        return z3.Or(alts), any_en
    def init(s, st, nf0, av0):
        c = [st['pc'][t] == 0 for t in range(s.T)] + [st['main'] == 0, st['nf'] == nf0, st['first'] == 1, st['avail'] == av0, st['nextno'] == 1, st['mn'] == 0, z3.Not(st['bad']), z3.Not(st['excl'])]
        c += [st['fr'][t] == (0 if t == 0 else -1) for t in range(s.T)] + [z3.Not(x) for x in st['inm']] + [z3.Not(x) for x in st['mw']] + [e == 0 for e in st['ev']]
        for m in s.mutexes: c.append(st['mx'][m] == z3.BoolVal(bool(s.sync and (m.startswith('in') or m.startswith('out')))))
        c += [nf0 >= -1, nf0 <= s.F, av0 >= 0, av0 <= max(0, s.F - 1)]
        return c

def sig(seg):
    """signature of a segment modulo the names of read symbols"""
    ren = {}; out = []
    for e in seg:
        row = [e[0]]
        for x in e[1:]:
            if z3.is_expr(x):
                sx = x.sexpr()
                for sname in sorted(syms_of(x), key=len, reverse=True):
                    if sname not in ren: ren[sname] = 's%d' % len(ren)
                    sx = sx.replace(sname, ren[sname])
                row.append(sx)
            else: row.append(str(x))
        out.append(tuple(row))
    return tuple(out)

def bmc(ck, mod, T, Fmax, sync, autos, tier, label, found, TO):
    P = Product(T, Fmax, sync, autos)
    # depth: visible transactions per worker iteration x iterations + main steps
    per_iter = max(len(segs) for t in range(T) for segs, g in autos[t])
    K = T * per_iter * (Fmax + 2) + T + 3
    S = [P.mk(k) for k in range(K + 2)]
    nf0, av0 = z3.Ints('nf0 av0')
    base = P.init(S[0], nf0, av0)
    for k in range(K):
        tr, en = P.step(S[k], S[k + 1], z3.Int('sched_%d' % k)); base.append(tr)
    last = S[K]
    trK, enK = P.step(last, S[K + 1], z3.Int('sched_%d' % K))
    alldone = z3.And([last['pc'][t] == P.EXIT for t in range(T)] + [last['main'] == P.MAIN_END])
    expect = z3.If(nf0 < 0, 1 + av0, z3.If(nf0 < 1 + av0, nf0, 1 + av0))
    tot = sum(last['ev'][1:], last['ev'][0])
    obligations = [
        ('witness: complete termination is reachable', [alldone], 'sat'),
        ('bound K=%d sufficient: after K steps no transition is enabled' % K, [enK], 'unsat'),
        ('no deadlock: whenever nothing is enabled all threads have terminated', [z3.Not(alldone), z3.Not(enK)], 'unsat'),
        ('no frame is evaluated twice', [z3.Or([last['ev'][f] > 1 for f in range(Fmax + 2)])], 'unsat'),
        ('the set of evaluated frames equals the single-thread run (first min(budget, frames) frames, each once)', [alldone, z3.Or([(last['ev'][f] == 1) != (f < expect) for f in range(Fmax + 2)])], 'unsat'),
        ('the frame budget is respected', [nf0 >= 0, tot > nf0], 'unsat'),
    ]
    if sync:
        obligations += [('ordered mode: per-frame results are merged in frame order', [last['bad']], 'unsat'),
                        ('ordered mode: never two workers inside the merge step', [last['excl']], 'unsat')]
    if tier == 'quick' and (T, Fmax) != (2, 1):
        pass
    jobs = [(nm, base + neg) for nm, neg, _ in obligations]
    out = smt.parallel_check(jobs, timeout_s=TO, workers=8)
    ck.states += K * (T + 1); ck.transitions += sum(len(P.worker_edges(t, S[0])) for t in range(T)) + len(P.main_edges(S[0]))
    for nm, neg, want in obligations:
        r, dt, mdl = out[nm]
        full = '%s: %s' % (label, nm)
        if want == 'sat':
            ck.add_witness(full, r == 'sat'); continue
        st = r if r in ('sat', 'unsat') else 'unknown'
        sched = None
        if r == 'sat' and mdl:
            sched = [int(mdl.get('sched_%d' % k, '-1')) for k in range(K)]
            while sched and sched[-1] == -1: sched.pop()
        ck.obligation(full, st, dt, True, {'nframes': mdl.get('nf0'), 'frames_after_first': mdl.get('av0'), 'schedule': sched} if mdl and r == 'sat' else None)
        if st == 'sat': found.append((label, nm, {'T': T, 'sync': sync, 'nf0': mdl.get('nf0'), 'av0': mdl.get('av0'), 'schedule': sched}))
    return K

def check_c05(ck, tier, replay=None):
    if replay: return do_replay(replay)
    ir, dt = common.compile_ir(common.harness_path(HARNESS), extra=['-I' + common.REPO])
    mod = llir.parse_module(ir)
    ck.units += ['csg/src/libcsg/csgapplication.cc: CsgApplication::Worker::Run, CsgApplication::ProcessData (executed from IR); the start/join/merge tail of CsgApplication::Run as a hand-written automaton cross-checked against the call sites in its IR']
    ck.functions.update(common.ir_func_sizes(mod, r'^@h_|Worker3RunEv|ProcessData'))
    ck.assumptions += ['tools::Mutex::Lock/Unlock are a binary semaphore (the ring tokens are locked by main and released by workers); pthread internals are a contract',
                       'TrajectoryReader::NextFrame is atomic, returns true iff frames are left and stamps the caller with the next frame number; EvalConfiguration and MergeWorker only record (worker, frame)',
                       'atomic-block (Lipton) reduction: a transaction = one blocking acquisition plus everything up to the next blocking acquisition; justified by the lockset obligations (all shared accesses under the reader mutex / output token) which are checked on the extracted traces',
                       'main thread: the tail of CsgApplication::Run after BeginEvaluate (ring initialisation, Start, releasing the two first tokens, WaitDone in worker order, merge in unordered mode), cross-checked against the call order in the IR']
    parsed = {}; found = []
    # (threads, selectable frames after the first, ordered?) -- measured: the whole thorough list ~20 min on 8 solver workers
    configs = [(2, 2, 1), (2, 2, 0), (3, 1, 1), (3, 1, 0)] if tier == 'quick' else [(2, 1, 1), (2, 1, 0), (2, 2, 1), (2, 2, 0), (2, 3, 1), (2, 3, 0), (3, 1, 1), (3, 1, 0), (3, 2, 1), (3, 2, 0), (3, 3, 1), (4, 1, 1), (4, 1, 0), (5, 1, 1)]
    if os.environ.get('VERIF_C05_CONFIGS'):      # experiments: "T,F,sync;T,F,sync"
        configs = [tuple(int(x) for x in c.split(',')) for c in os.environ['VERIF_C05_CONFIGS'].split(';')]
    TO = 240 if tier == 'quick' else 3000
    cross_check_main(ck, mod)
    cache = {}
    for T, Fm, sync in configs:
        autos = []
        for t in range(T):
            key = (T, sync, t)
            if key not in cache:
                paths, st = extract(mod, T, sync, t, parsed); cache[key] = paths; ck.stubs |= st['models_used']
                probs = lockset_check(paths, t, sync)
                ck.obligation('T=%d %s worker %d: every access to the frame budget, first-frame flag and trajectory reader is under the reader mutex; merges under the output token (%d iteration paths)' % (T, 'ordered' if sync else 'unordered', t, len(paths)), 'sat' if probs else 'unsat', 0.0, True, {'problems': probs} if probs else None)
                for p in probs: found.append(('race', p, {'T': T, 'sync': sync}))
                if t == 0 and (T, sync) == (2, 1): ck.sample({'extracted iteration paths of worker 0 (T=2, ordered)': [[tuple(str(x) for x in e) for e in ev] for ev, g in paths][:3]})
            autos.append([(segments(ev), g) for ev, g in cache[key]])
        label = 'T=%d F<=%d %s' % (T, Fm, 'ordered' if sync else 'unordered')
        t0 = time.time()
        K = bmc(ck, mod, T, Fm, sync, autos, tier, label, found, TO)
        ck.bounds[label] = 'unrolled K=%d transactions; budget in [-1,%d], frames in file in [1,%d]' % (K, Fm, Fm)
    ck.bounds['threads'] = 'T in %s (the statement speaks of 1..8)' % sorted({c[0] for c in configs})
    for tag, nm, info in found:
        rep = common.write_replay('C05', tag + nm, {'README': 'replay on real threads: ./check C05 --replay <dir>\n'}, {'config': tag, 'clause': nm, 'info': info})
        ok, why = (True, 'lockset violation on the extracted traces of the real code') if tag == 'race' else replay_native(info, nm)
        info = dict(info); info['native'] = why
        ck.violation('C05 ' + (nm if tag == 'race' else '%s %s' % (tag.split(' F<=')[0] + (' ordered' if 'ordered' in tag and 'unordered' not in tag else ' unordered'), nm))[:120], '%s: %s ; %s' % (tag, nm, json.dumps(info)[:500]), rep, reproduced=ok)

def cross_check_main(ck, mod):
    """the hand-written main automaton follows the call order found in the IR of CsgApplication::Run"""
    f = next((fn for n, fn in mod.funcs.items() if re.search(r'CsgApplication3RunEv$', n)), None)
    if f is None: ck.inconc('CsgApplication::Run not found in the module'); return
    seq = []
    txt = []
    for lbl in f.order: txt += f.blocks[lbl]
    started = False
    for ln in txt:
        if not started:
            if 'store i8 1' in ln: started = True
            continue
        for key, nm in (('Mutex4LockEv', 'Lock'), ('Mutex6UnlockEv', 'Unlock'), ('Thread5StartEv', 'Start'), ('Thread8WaitDoneEv', 'WaitDone'), ('MutexC1Ev', 'MutexCtor')):
            if key in ln and ('call' in ln or 'invoke' in ln): seq.append(nm)
    # expected skeleton: ring creation (ctor, Lock, ctor, Lock), Start, Unlock, Unlock, [mergeMutex ctor], WaitDone, Lock, Unlock
    want = ['MutexCtor', 'Lock', 'MutexCtor', 'Lock', 'Start', 'Unlock', 'Unlock', 'MutexCtor', 'WaitDone', 'Lock', 'Unlock']
    it = iter(seq); ok = all(any(x == w for x in it) for w in want)
    ck.obligation('main-thread automaton matches the order of Lock/Unlock/Start/WaitDone call sites in the IR of CsgApplication::Run after the first-frame flag is set', 'unsat' if ok else 'unknown', 0.0, True, {'call_sites': seq[:30]})

def replay_native(info, clause):
    """real Worker::Run/ProcessData on real threads; the solver's schedule is forced by making Mutex::Lock wait for the thread's turn"""
    T = info['T']; sync = info['sync']; nf0 = int(info['nf0']); av0 = int(info['av0'])
    sched = [x for x in (info.get('schedule') or []) if 0 <= x < T]
    b = common.native_build([common.harness_path('C05_replay.cc')], 'C05_replay', extra=['-I' + common.REPO, '-I' + os.path.join(common.VERIF, 'harness'), '-pthread'], libs=common.votca_libs() + ['-lboost_program_options'])
    rc, so, se = common.run_native(b, args=[str(T), str(sync), str(nf0), str(av0)] + [str(x) for x in sched], timeout=60)
    line = so.strip().split('\n')[-1] if so.strip() else ''
    m = re.match(r'(\w+) eval:(.*) merge:(.*)', line)
    if not m: return False, 'replay produced no result: %s %s' % (so[-200:], se[-200:])
    state, ev, mg = m.group(1), [int(x) for x in m.group(2).split()], [int(x) for x in m.group(3).split()]
    expect = (1 + av0) if nf0 < 0 else min(nf0, 1 + av0)
    desc = 'real threads, T=%d %s, --nframes %d, %d frames, forced schedule %s: %s, evaluated frames %s, merge order %s (single thread evaluates frames 0..%d)' % (T, 'ordered' if sync else 'unordered', nf0, 1 + av0, sched, state, ev, mg, expect - 1)
    if 'deadlock' in clause or 'bound K' in clause: return state == 'DEADLOCK', desc
    if 'twice' in clause: return len(ev) != len(set(ev)), desc
    if 'set of evaluated' in clause: return state != 'DEADLOCK' and sorted(ev) != list(range(expect)), desc
    if 'budget' in clause: return nf0 >= 0 and len(ev) > nf0, desc
    if 'frame order' in clause: return mg != sorted(mg) or mg != list(range(len(mg))), desc
    return True, desc + ' (no clause-specific judgement)'

def do_replay(path):
    meta = json.load(open(os.path.join(path, 'input.json')))
    if meta['config'] == 'race': print('lockset finding (static on extracted traces): %s' % meta['clause']); return 1
    ok, why = replay_native(meta['info'], meta['clause'])
    print('replay: %s (%s)' % ('reproduced' if ok else 'not reproduced', why))
    if ok: print('VIOLATION property=C05 replay=%s' % path); return 1
    return 0

if __name__ == '__main__':
    sys.exit(common.main_wrapper('C05', check_c05, level='model_checking'))
