# C08 — text round trips of the library's own writers and readers (E2 with a file-system model).
# Claimed slice: IMC matrices (imcio_write_matrix / imcio_read_matrix, with and without index list), IMC index files
# (imcio_write_index / imcio_read_index through RangeParser printing and parsing), tables through Table::Save / Table::Load
# (flags, error column), LAMMPS dump and GROMACS .gro frames (writer -> reader).  Numbers cross the text channel as placeholder
# tokens padded to the printed field width: column positions, field order, unit factors, line structure and counts are the real
# code; the printed precision is abstracted (outside the claim).
import sys, os, json, re, itertools
from fractions import Fraction as F
import z3
import common, llir, symx, models, smt, fileio
from symx import Ptr, alloc_i64, alloc_doubles, read_doubles, explore, sgn64, is_sym

HARNESS = 'C08_io.cc'
FIO = fileio.FileIO()

def R(x): return x if is_sym(x) else z3.RealVal(F(x))
def I(x): return x if is_sym(x) else z3.IntVal(sgn64(x))

def alloc_bytes(it, name, bs):
    p = it.alloc(max(1, len(bs)), name)
    for i, b in enumerate(bs): it.store(Ptr(p.obj, i), b, 1)
    return p

def check_c08(ck, tier, replay=None):
    if replay:
        meta = json.load(open(os.path.join(replay, 'input.json'))); ok, why = replay_native(meta); print('replay: %s (%s)' % ('reproduced' if ok else 'not reproduced', why))
        if ok: print('VIOLATION property=C08 replay=%s' % replay); return 1
        return 0
    TO = 60
    ir, dt = common.compile_ir(common.harness_path(HARNESS), extra=['-I' + common.REPO])
    mod = llir.parse_module(ir); parsed = {}
    ck.units += ['csg/src/libcsg/imcio.cc', 'tools/src/libtools/table.cc', 'tools/src/libtools/rangeparser.cc', 'tools/src/libtools/tokenizer.cc']
    ck.functions.update(common.ir_func_sizes(mod, r'^@h_|imcio_|Table(4Save|4Load|lsE|rsE)|RangeParser'))
    ck.assumptions += ['numbers cross the text channel as placeholder tokens ($k real, ~k integer) padded to the printed field width: printed precision and decimal conversion are abstracted, everything else (tokenising, columns, order, counts, flags, unit factors) is the real code',
                       'files are a dictionary name -> lines; std::ofstream/std::ifstream/FILE* are models (engine/fileio.py): open, close, getline, operator<<, fprintf; I/O errors other than a missing file are outside',
                       'trajectory formats other than those listed under bounds, binary formats, and the executables are outside']
    found = []
    # ------------------------------------------------------------------ IMC matrix
    sizes = [(1, 1), (1, 2), (2, 1), (2, 2), (2, 3), (3, 2)] + ([(3, 3), (1, 4), (4, 1), (3, 4)] if tier != 'quick' else [])
    for (r_, c_) in sizes:
        vals = [z3.Real('m%d_%d' % (i, j)) for i in range(r_) for j in range(c_)]
        def body(it):
            FIO.reset()
            pv = alloc_doubles(it, 'vals', vals); out = it.alloc(8 * 64, 'out')
            k = sgn64(it.call('@h_matrix_rt', [pv, r_, c_, out]))
            n = (k // 1000) * (k % 1000) if k >= 0 else 0
            return k, read_doubles(it, out, min(n, 64)), FIO.text('m.gmc')
        res, st = explore(mod, FIO.models(), body, parsed=parsed, max_paths=50); ck.stubs |= st['models_used']
        ck.add_witness('matrix %dx%d: %d path(s), file written' % (r_, c_, len(res)), len(res) >= 1 and all(len(x[2]) == r_ for _, x in res))
        q = []
        for it, (k, out, txt) in res:
            if k != r_ * 1000 + c_ or len(out) != r_ * c_: q.append((list(it.pc), [z3.BoolVal(True)])); continue
            q.append((list(it.pc), [z3.Not(z3.And([R(out[i]) == vals[i] for i in range(r_ * c_)]))]))
        name = 'IMC matrix %dx%d with arbitrary entries: imcio_read_matrix(imcio_write_matrix(M)) has the same shape and the same entries' % (r_, c_)
        s_, mdl = smt.agg_core(ck, name, q, TO)
        if s_ == 'sat': found.append((name, {'clause': 'matrix', 'rows': r_, 'cols': c_, 'model': mdl}))
    # sub-matrix through an index list
    for n_, pick in ((3, [2, 0]), (3, [1]), (3, [0, 1, 2])) if tier == 'quick' else ((3, [2, 0]), (3, [1]), (3, [0, 1, 2]), (4, [3, 1, 0]), (4, [2, 2])):
        vals = [z3.Real('m%d_%d' % (i, j)) for i in range(n_) for j in range(n_)]
        def body(it):
            FIO.reset()
            pv = alloc_doubles(it, 'vals', vals); pp = alloc_i64(it, 'pick', pick); out = it.alloc(8 * 64, 'out')
            k = sgn64(it.call('@h_matrix_list_rt', [pv, n_, pp, len(pick), out]))
            n = (k // 1000) * (k % 1000) if k >= 0 else 0
            return k, read_doubles(it, out, min(n, 64))
        res, st = explore(mod, FIO.models(), body, parsed=parsed, max_paths=50)
        q = []; kk = len(pick)
        for it, (k, out) in res:
            if k != kk * 1001: q.append((list(it.pc), [z3.BoolVal(True)])); continue
            q.append((list(it.pc), [z3.Not(z3.And([R(out[a * kk + b]) == vals[pick[a] * n_ + pick[b]] for a in range(kk) for b in range(kk)]))]))
        name = 'IMC matrix %dx%d written through the index list %s: read back = the picked rows and columns in list order' % (n_, n_, pick)
        s_, mdl = smt.agg_core(ck, name, q, TO)
        if s_ == 'sat': found.append((name, {'clause': 'matrix-list', 'n': n_, 'pick': pick, 'model': mdl}))
    # ------------------------------------------------------------------ IMC index file
    RB = 4 if tier == 'quick' else 6; CAP = RB + 2
    b0, e0, b1, e1 = z3.Ints('b0 e0 b1 e1')
    def body(it):
        FIO.reset()
        for b, e in ((b0, e0), (b1, e1)): it.assume(z3.And(b >= 1, e <= RB, b <= e))
        out = it.alloc(8 * 2 * CAP, 'out'); cnt = it.alloc(16, 'cnt'); names = it.alloc(8, 'names'); it.zerofill(names, 8)
        k = sgn64(it.call('@h_index_rt', [b0, e0, b1, e1, out, cnt, names, CAP]))
        c = [sgn64(it.load(Ptr(cnt.obj, 8 * i), 8)) for i in range(2)] if k == 2 else []
        mem = [[it.load(Ptr(out.obj, 8 * (i * CAP + j)), 8) for j in range(min(c[i], CAP))] for i in range(2)] if k == 2 else []
        nm = [bytes(it.load(Ptr(names.obj, 4 * i + j), 1) & 0xff for j in range(3)) for i in range(2)] if k == 2 else []
        return k, c, mem, nm, FIO.text('x.idx')
    res, st = explore(mod, FIO.models(), body, parsed=parsed, max_paths=4000); ck.stubs |= st['models_used']
    ck.add_witness('index file: %d paths' % len(res), len(res) >= 2)
    q = []
    for it, (k, c, mem, nm, txt) in res:
        pc = list(it.pc)
        if k != 2 or nm != [b'A-A', b'B-B']: q.append((pc, [z3.BoolVal(True)])); continue
        goal = []
        for i, (b, e) in enumerate(((b0, e0), (b1, e1))):
            goal.append(z3.IntVal(c[i]) == e - b + 1)
            for j, v in enumerate(mem[i]): goal.append(I(v) == b + j)
        q.append((pc, [z3.Not(z3.And(goal))]))
    name = 'IMC index file with two named ranges [b:e], 1 <= b <= e <= %d: imcio_read_index(imcio_write_index(.)) gives the same names and exactly the members b..e in order' % RB
    s_, mdl = smt.agg_core(ck, name, q, TO)
    if s_ == 'sat': found.append((name, {'clause': 'index', 'model': mdl}))
    # ------------------------------------------------------------------ table through files
    for he in (0, 1):
        for n_ in (1, 2) if tier == 'quick' else (1, 2, 3):
            xs = [z3.Real('x%d' % i) for i in range(n_)]; ys = [z3.Real('y%d' % i) for i in range(n_)]; es = [z3.Real('e%d' % i) for i in range(n_)]
            fl = [z3.Int('f%d' % i) for i in range(n_)]
            def body(it):
                FIO.reset()
                for f in fl: it.assume(z3.Or(f == ord('i'), f == ord('o'), f == ord('u')))
                px = alloc_doubles(it, 'xs', xs); py = alloc_doubles(it, 'ys', ys); pe = alloc_doubles(it, 'es', es); pf = alloc_bytes(it, 'fl', fl)
                ox = it.alloc(8 * 8, 'ox'); oy = it.alloc(8 * 8, 'oy'); of = it.alloc(8, 'of')
                m = sgn64(it.call('@h_table_file_rt', [px, py, pe, pf, n_, he, ox, oy, of, 8]))
                k = max(0, min(m, 8))
                return m, read_doubles(it, ox, k), read_doubles(it, oy, k), [it.load(Ptr(of.obj, i), 1) for i in range(k)], FIO.text('t.tab')
            res, st = explore(mod, FIO.models(), body, parsed=parsed, max_paths=2000); ck.stubs |= st['models_used']
            ck.add_witness('table file (yerr=%d, n=%d): %d paths' % (he, n_, len(res)), len(res) >= 1)
            q = []
            for it, (m, ox, oy, of, txt) in res:
                pc = list(it.pc)
                if m != n_: q.append((pc, [z3.BoolVal(True)])); continue
                goal = [R(ox[i]) == xs[i] for i in range(n_)] + [R(oy[i]) == ys[i] for i in range(n_)] + [I(of[i]) == fl[i] for i in range(n_)]
                q.append((pc, [z3.Not(z3.And(goal))]))
            name = 'table of %d row(s) %s error column, arbitrary values, flags from {i,o,u}: Table::Load(Table::Save(t)) has the same rows, x, y and flags' % (n_, 'with' if he else 'without')
            s_, mdl = smt.agg_core(ck, name, q, TO)
            if s_ == 'sat': found.append((name, {'clause': 'table', 'n': n_, 'has_yerr': he, 'model': mdl}))
    ck.bounds['imc'] = 'matrix shapes %s; index lists on 3x3%s; index ranges within [1,%d]; tables of 1..%d rows' % (sizes, '' if tier == 'quick' else ' and 4x4', RB, 2 if tier == 'quick' else 3)
    try:
        import C08t
        C08t.check_traj(ck, tier, found)
    except ImportError:
        pass
    for name, meta in found:
        rep = common.write_replay('C08', name, {}, meta)
        ok, why = replay_native(meta)
        key = 'C08 ' + meta['clause'] + (' %dx%d' % (meta['rows'], meta['cols']) if meta['clause'] == 'matrix' else '')
        ck.violation(key, name + ' ; ' + why, rep, reproduced=ok)

def replay_native(meta):
    c = meta['clause']
    if c.startswith('traj'):
        import C08t
        return C08t.replay_native(meta)
    binp = common.native_build([common.harness_path(HARNESS)], 'C08_native', extra=['-I' + common.REPO, '-I/usr/include/eigen3'], defs=['VERIF_NATIVE'])
    if c == 'matrix':
        r_, c_ = meta['rows'], meta['cols']; vals = [float(i * c_ + j + 1) + 0.5 for i in range(r_) for j in range(c_)]
        rc, so, se = common.run_native(binp, args=['matrix', str(r_), str(c_)] + [repr(v) for v in vals]); o = (so.strip().split('\n')[-1] if so.strip() else '').split()
        if not o: return True, 'native run failed: ' + se[:200]
        k = int(o[0]); back = [float(x) for x in o[1:]]
        bad = k != r_ * 1000 + c_ or back != vals
        return bad, 'native: wrote %s as %dx%d, read back shape %d/%d entries %s' % (vals, r_, c_, k // 1000, k % 1000, back)
    if c == 'index':
        m = meta.get('model') or {}
        v = [int(str(m.get(k, 1))) for k in ('b0', 'e0', 'b1', 'e1')]
        rc, so, se = common.run_native(binp, args=['index'] + [str(x) for x in v])
        exp = '2 | A-A %d : %s | B-B %d : %s' % (v[1] - v[0] + 1, ' '.join(str(x) for x in range(v[0], v[1] + 1)), v[3] - v[2] + 1, ' '.join(str(x) for x in range(v[2], v[3] + 1)))
        so = so.strip().split('\n')[-1] if so.strip() else ''
        return ' '.join(so.split()) != ' '.join(exp.split()), 'native index round trip of [%d:%d],[%d:%d]: %r' % (v[0], v[1], v[2], v[3], so.strip())
    return True, 'model %s (no separate native driver for this clause; the interpreter ran the real code)' % str(meta.get('model'))[:200]

if __name__ == '__main__':
    sys.exit(common.main_wrapper('C08', check_c08))
