# C07 — analytic derivatives equal the derivative of the value function (E2 + algebra + AD)
import sys, os, time, random, math, json
from fractions import Fraction as F
import z3
import common, llir, symx, models, smt
from symx import Ptr, alloc_doubles, read_doubles, explore, is_sym
from algz import Algebra, TermCap

HARNESS = 'C07_grad.cc'
NB = {'bond': 2, 'angle': 3, 'dih': 4}

def getdist_model(V):
    def m(it, a):
        out, _top, b1, b2 = a
        k = (symx.sgn64(b1), symx.sgn64(b2))
        if k not in V: V[k] = [z3.Real('v%d%d_%d' % (k[0], k[1], j)) for j in range(3)]
        for i in range(3): it.store(Ptr(out.obj, out.off + 8 * i), V[k][i], 8)
    return m

def run_inter(mod, which, bead, V, parsed):
    mdl = models.all_models(); mdl['re:Topology7getDistEll'] = getdist_model(V)
    def body(it):
        it.fork_fselect = True
        out = it.alloc(32, 'out'); top = it.alloc(8, 'faketop')
        it.call('@h_' + which, [out, top, bead])
        return read_doubles(it, out, 4)
    return explore(mod, mdl, body, parsed=parsed)

def nonneg_checker(pc):
    def f(e):
        r, dt, _ = smt.check(list(pc) + [e < 0], 10)
        return r == 'unsat'
    return f

def interactions(ck, mod, tier, parsed):
    TO = 60 if tier == 'quick' else 600
    found = {}
    for which in ('bond', 'angle', 'dih'):
        nb = NB[which]
        gsum = {}     # (path key) -> list of grads per bead, for the zero-sum obligation
        for bead in range(nb):
            V = {}
            res, st = run_inter(mod, which, bead, V, parsed)
            ck.stubs |= st['models_used']
            ck.add_witness('%s bead %d: %d feasible path(s)' % (which, bead, len(res)), len(res) >= 1)
            for pi, (it, vals) in enumerate(res):
                pc = list(it.pc)
                A = Algebra(nonneg_check=nonneg_checker(pc))
                try:
                    val = A.rf(vals[0]); grads = [A.rf(v) for v in vals[1:]]
                except TermCap as e:
                    ck.inconc('%s bead %d: %s' % (which, bead, e)); continue
                # domain: away from the singular set: all radicals > 0 (in definitions), path condition
                domain = pc
                if smt.check(smt.purify(A.definitions() + pc), 20)[0] == 'unsat':
                    ck.notes.append('%s bead %d path %d lies entirely in the excluded singular set (e.g. zero-length vector branch of normalize()); skipped' % (which, bead, pi)); continue
                for k in range(3):
                    tot = None
                    for (b1, b2), syms in V.items():
                        sgn = (1 if b2 == bead else 0) - (1 if b1 == bead else 0)
                        if sgn == 0: continue
                        d = A.total_deriv(val, str(syms[k]))
                        d = d if sgn > 0 else -d
                        tot = d if tot is None else tot + d
                    if tot is None: tot = A.rf(z3.RealVal(0))
                    name = '%s.G1 bead %d comp %d path %d: Grad == d(EvaluateVar)/dp' % (which, bead, k, pi)
                    st_, mdl_ = A.prove_equal(ck, name, grads[k], tot, domain, TO)
                    if st_ == 'sat': found[name] = (which, bead, k, mdl_, V)
                gsum.setdefault(pi, {})[bead] = (A, grads, pc)
            if bead == 0: ck.sample({'unit': 'I%s::Grad bead 0' % which, 'paths': len(res), 'value_expr': str(res[0][1][0])[:160]})
        # G2: gradients of one interaction sum to zero -- assembled in one algebra context per path
        V = {}
        allres = [run_inter(mod, which, b, V, parsed)[0] for b in range(nb)]
        npaths = min(len(r) for r in allres)
        for pi in range(npaths):
            pc = list(allres[0][pi][0].pc)
            A = Algebra(nonneg_check=nonneg_checker(pc))
            for k in range(3):
                tot = None
                for b in range(nb):
                    g = A.rf(allres[b][pi][1][1 + k]); tot = g if tot is None else tot + g
                A.prove_equal(ck, '%s.G2 comp %d path %d: sum over beads of Grad == 0' % (which, k, pi), tot, A.rf(z3.RealVal(0)), pc, TO)
    return found

# ---------------------------------------------------------------------------------------------
def rigid_motion(ck, mod, tier, parsed):
    """R1: value and gradient under rigid motion.  Translations and periodic-image shifts cannot change anything because
    the interactions read positions only through Topology::getDist (the fake Topology object is 8 inaccessible bytes; any
    direct read would abort the run) whose lattice invariance is C02.  Rotations: for the three coordinate-axis rotations
    with symbolic (c, s), c^2 + s^2 = 1 -- which generate SO(3) -- EvaluateVar(R v) == EvaluateVar(v) and Grad(R v) == R Grad(v)."""
    TO = 60 if tier == 'quick' else 300
    c, s = z3.Reals('rc rs')
    def rot(axis, v):
        x, y, z = v
        if axis == 2: return [c * x - s * y, s * x + c * y, z]
        if axis == 0: return [x, c * y - s * z, s * y + c * z]
        return [c * x + s * z, y, -s * x + c * z]
    def run(which, bead, V, axis):
        base = getdist_model(V)
        def gd(it, a):
            base(it, a)
            if axis is not None:
                out = a[0]; k = (symx.sgn64(a[2]), symx.sgn64(a[3])); w = rot(axis, V[k])
                for i in range(3): it.store(Ptr(out.obj, out.off + 8 * i), w[i], 8)
        mdl = models.all_models(); mdl['re:Topology7getDistEll'] = gd
        def body(it):
            it.fork_fselect = True
            if axis is not None: it.assume(c * c + s * s == 1)
            out = it.alloc(32, 'out'); top = it.alloc(8, 'faketop')
            it.call('@h_' + which, [out, top, bead]); return read_doubles(it, out, 4)
        return explore(mod, mdl, body, parsed=parsed)[0]
    def Z(x): return x if z3.is_expr(x) else z3.RealVal(x)
    for which in ('bond', 'angle', 'dih'):
        beads = range(NB[which]) if tier != 'quick' else (0, NB[which] - 1)
        for axis in range(3):
            qv = []; qg = []; npair = 0
            for bead in beads:
                V = {}
                r0 = run(which, bead, V, None); r1 = run(which, bead, V, axis)
                for p0, v0 in r0:
                    for p1, v1 in r1:
                        pc = list(p0.pc) + list(p1.pc)
                        A = Algebra(nonneg_check=nonneg_checker(pc)); A.relation('rc', A.rf(1 - s * s))
                        try:
                            a0 = A.rf(Z(v0[0])); a1 = A.rf(Z(v1[0]))
                            g1 = [A.rf(Z(v1[1 + k])) for k in range(3)]; rg0 = [A.rf(z3.simplify(e)) for e in rot(axis, [Z(v0[1 + k]) for k in range(3)])]
                        except TermCap as e:
                            ck.inconc('%s rotation: %s' % (which, e)); continue
                        defs = A.definitions() + list(A.side)
                        if smt.check(smt.purify(defs + pc), 20)[0] == 'unsat': continue      # the rotated run cannot take a different branch / singular set
                        npair += 1
                        if bead == beads[0]: qv.append((defs + pc, [A.poly_z3(A.residual(a0, a1)) != 0]))
                        for k in range(3): qg.append((defs + pc, [A.poly_z3(A.residual(g1[k], rg0[k])) != 0]))
            ax = 'xyz'[axis]
            fr = z3.Real('freeR')
            ck.add_witness('%s under rotation about %s: %d compatible path pairs' % (which, ax, npair), npair >= 1)
            st_, mdl = smt.agg_core(ck, '%s.R1 EvaluateVar is invariant under every rotation about the %s axis' % (which, ax), qv, TO, purify_all=True, probe=[fr != z3.Real('v01_0')])
            if st_ == 'sat': rot_violation(ck, which, ax, 'value', mdl)
            st_, mdl = smt.agg_core(ck, '%s.R1 Grad(R v) == R Grad(v) for every rotation about the %s axis (beads %s)' % (which, ax, list(beads)), qg, TO, purify_all=True, probe=[fr != z3.Real('v01_0')])
            if st_ == 'sat': rot_violation(ck, which, ax, 'gradient', mdl)
    ck.assumptions.append('rigid motion: rotations about the three coordinate axes with symbolic angle (they generate SO(3)); translations and periodic-image shifts act only through Topology::getDist, the environment boundary of this check (lattice invariance of getDist is decided under C02)')

def image_shifts(ck, tier):
    """invariance of value and gradient under periodic-image shifts: the interactions see the beads only through
    Topology::getDist = BCShortestConnection, so the clause is exactly the lattice invariance / antisymmetry of the real box
    routines.  Those obligations (C02) are re-established here on the current tree and their violations reported under C07."""
    import C02
    sub = common.Check('C02', tier)
    try: C02.check_c02(sub, tier)
    except Exception as e:
        ck.inconc('image-shift invariance (box-routine obligations) could not be established: %s' % str(e)[:200]); return
    for o in sub.obl:
        o2 = dict(o); o2['name'] = 'image shifts (getDist = BCShortestConnection): ' + o['name']
        ck.obl.append(o2)
    ck.solver_time += sub.solver_time
    for w in sub.witness: ck.witness.append(('box routines: ' + w[0], w[1]))
    for v in sub.viol:
        ck.violation('C07 image shifts ' + v['key'][4:], 'value/gradient are not invariant under periodic-image shifts: the box routine behind Topology::getDist violates ' + v['what'][:300], v['replay'], reproduced=v['reproduced'])
    for i in sub.inconclusive: ck.inconc('image shifts: ' + i)
    ck.assumptions.append('image-shift clause by composition: IBond/IAngle/IDihedral read positions only through Topology::getDist (checked: getDist is the only external the kernels call), whose lattice invariance is decided on the real box classes (the C02 obligations, re-run inside this check)')

def positions_from_model(which, mdl):
    def num(key):
        v = (mdl or {}).get(key)
        if v is None: return 0.0
        v = str(v).rstrip('?')
        try: return float(F(v))
        except Exception:
            try: return float(v)
            except Exception: return 0.0
    pos = [[0.0, 0.0, 0.0] for _ in range(4)]
    if which == 'bond': pos[1] = [num('v01_%d' % i) for i in range(3)]
    elif which == 'angle':
        pos[0] = [num('v10_%d' % i) for i in range(3)]; pos[2] = [num('v12_%d' % i) for i in range(3)]
    else:
        pos[1] = [num('v01_%d' % i) for i in range(3)]; pos[2] = [pos[1][i] + num('v12_%d' % i) for i in range(3)]; pos[3] = [pos[2][i] + num('v23_%d' % i) for i in range(3)]
    return pos, num('rc'), num('rs')

def rot_eval(meta):
    """native: value and gradient at the model geometry and at the rotated geometry"""
    which, ax, pos, c, s = meta['which'], meta['axis'], meta['positions'], meta['c'], meta['s']
    n = math.hypot(c, s) or 1.0; c, s = c / n, s / n
    def rot(v):
        x, y, z = v
        if ax == 'z': return [c * x - s * y, s * x + c * y, z]
        if ax == 'x': return [x, c * y - s * z, s * y + c * z]
        return [c * x + s * z, y, -s * x + c * z]
    binp = common.native_build([common.harness_path(HARNESS)], 'C07_native_r', extra=['-I' + common.REPO], defs=['VERIF_NATIVE'], libs=common.votca_libs())
    bad = False; notes = []
    for bead in range(NB[which]):
        def ev(p):
            rc, so, se = common.run_native(binp, '%s %d ' % (which, bead) + ' '.join(float(x).hex() for q in p for x in q) + '\n'); return [float.fromhex(x) for x in so.split()]
        a = ev(pos); b = ev([rot(q) for q in pos]); ra = rot(a[1:4])
        if abs(a[0] - b[0]) > 1e-9 * max(1.0, abs(a[0])): bad = True; notes.append('value %.9g -> %.9g' % (a[0], b[0]))
        if any(abs(ra[k] - b[1 + k]) > 1e-9 * max(1.0, abs(ra[k])) for k in range(3)): bad = True; notes.append('bead %d: R Grad = %s, Grad at rotated geometry = %s' % (bead, [round(x, 9) for x in ra], [round(x, 9) for x in b[1:4]]))
    return bad, '; '.join(notes[:3]) + ' at positions %s, rotation about %s by (cos, sin) = (%.6g, %.6g)' % (pos, ax, c, s)

def rot_violation(ck, which, ax, what, mdl):
    pos, c, s = positions_from_model(which, mdl)
    meta = {'kind': 'rotation', 'which': which, 'axis': ax, 'what': what, 'positions': pos, 'c': c, 's': s}
    rep = common.write_replay('C07', 'rotation %s %s %s' % (which, ax, what), {}, meta)
    ok, why = rot_eval(meta)
    ck.violation('C07 I%s rotation %s' % ({'bond': 'Bond', 'angle': 'Angle', 'dih': 'Dihedral'}[which], what), '%s: %s is not invariant under a rotation about %s; %s' % (which, what, ax, why), rep, reproduced=ok)

# ---------------------------------------------------------------------------------------------
def validate(ck, mod):
    rnd = random.Random(common.SEED)
    binp = common.native_build([common.harness_path(HARNESS)], 'C07_native', extra=['-I' + common.REPO], defs=['VERIF_NATIVE'], libs=common.votca_libs(), cxx=common.CLANG)
    lines = []
    for which in ('bond', 'angle', 'dih'):
        # geometry of csg/src/tests/test_interaction.cc (unit bond lengths, right angles) + random ones
        fixed = [[0, 0, 0], [1, 0, 0], [1, 1, 0], [1, 1, 1]]
        for bead in range(NB[which]):
            lines.append('%s %d ' % (which, bead) + ' '.join(float(x).hex() for p in fixed for x in p))
            for _ in range(6):
                pos = [[rnd.uniform(-2, 2) for _ in range(3)] for _ in range(4)]
                lines.append('%s %d ' % (which, bead) + ' '.join(float(x).hex() for p in pos for x in p))
    for _ in range(10):
        lam = [rnd.uniform(0.1, 2) for _ in range(5)]; r = rnd.uniform(0.3, 1.2)
        lines.append('lj126 2 %s %s %s %s %s %d %d' % (lam[0].hex(), lam[1].hex(), r.hex(), (0.2).hex(), (1.0).hex(), rnd.randrange(2), rnd.randrange(2)))
        lines.append('ljg 5 %s %s %s %s %d %d' % (' '.join(x.hex() for x in lam), r.hex(), (0.2).hex(), (1.0).hex(), rnd.randrange(5), rnd.randrange(5)))
        lam9 = [rnd.uniform(-1, 1) for _ in range(10)]
        lines.append('cbspl 10 %s %s %s %s %d %d' % (' '.join(x.hex() for x in lam9), rnd.uniform(0.0, 1.1).hex(), (0.25).hex(), (1.0).hex(), rnd.randrange(3), 0))
    rc, so, se = common.run_native(binp, '\n'.join(lines) + '\n')
    if rc != 0: raise common.EncoderError('native C07 driver failed: ' + se[-400:])
    outl = so.strip().split('\n'); parsed = {}; bad = 0; n = 0
    for ln, ol in zip(lines, outl):
        t = ln.split(); cmd = t[0]
        nat = ol.split()
        if cmd in NB:
            bead = int(t[1]); pos = [float.fromhex(x) for x in t[2:]]
            def gd(it, a):
                out, _t, b1, b2 = a; b1 = symx.sgn64(b1); b2 = symx.sgn64(b2)
                for i in range(3): it.store(Ptr(out.obj, out.off + 8 * i), pos[3 * b2 + i] - pos[3 * b1 + i], 8)
            mdl = models.all_models(); mdl['re:Topology7getDistEll'] = gd
            def body(it):
                out = it.alloc(32, 'out'); top = it.alloc(8, 'faketop'); it.call('@h_' + cmd, [out, top, bead]); return read_doubles(it, out, 4)
            res, _ = explore(mod, mdl, body, fpmode='float', parsed=parsed)
            mine = res[0][1]; natv = [float.fromhex(x) for x in nat]
            ok = all((a == b) or (math.isnan(a) and math.isnan(b)) or abs(a - b) <= 4e-16 * max(1.0, abs(b)) for a, b in zip(mine, natv))   # acos/sqrt: 2 ulp allowed
        else:
            nl = int(t[1]); lam = [float.fromhex(x) for x in t[2:2 + nl]]; r, rmin, rcut = [float.fromhex(x) for x in t[2 + nl:5 + nl]]; i, j = int(t[5 + nl]), int(t[6 + nl])
            def body(it):
                out = alloc_doubles(it, 'out', [0.0] * 8); pl = alloc_doubles(it, 'lam', lam)
                if cmd == 'cbspl': rcx = it.call('@h_cbspl', [out, pl, nl, r, rmin, rcut, i, j])
                else: it.call('@h_' + cmd, [out, pl, r, rmin, rcut, i, j]); rcx = 0
                return [symx.sgn64(rcx)] + read_doubles(it, out, 3)
            res, _ = explore(mod, models.all_models(), body, fpmode='float', parsed=parsed)
            mine = res[0][1]; natv = [int(nat[0])] + [float.fromhex(x) for x in nat[1:]]
            ok = mine[0] == natv[0] and (natv[0] != 0 or all(abs(a - b) <= 4e-16 * max(1.0, abs(b)) for a, b in zip(mine[1:], natv[1:])))
        n += 1
        if not ok:
            bad += 1
            if bad < 4: print('  validation mismatch:', ln[:50], mine, natv)
    ck.add_validation('interpreter(float mode) vs native g++: IBond/IAngle/IDihedral EvaluateVar+Grad, LJ126/LJG/CBSPL F/DF/D2F (2 ulp tolerance for libm sqrt/acos/exp/pow)', n, bad == 0, '%d mismatches' % bad)

# ---------------------------------------------------------------------------------------------
def potentials(ck, mod, tier, parsed):
    TO = 60 if tier == 'quick' else 300
    r = z3.Real('r'); rmin = z3.Real('rmin'); rcut = z3.Real('rcut')
    for which, nl in (('lj126', 2), ('ljg', 5)):
        lam = [z3.Real('lam%d' % i) for i in range(nl)]
        for i in range(nl):
            for j in range(nl):
                if which == 'lj126' and j > 0 and tier == 'quick' and i > 0: pass
                def body(it):
                    it.assume(rmin > 0); it.assume(rcut > rmin); it.assume(r > 0)
                    out = alloc_doubles(it, 'out', [F(0)] * 8); pl = alloc_doubles(it, 'lam', lam)
                    it.call('@h_' + which, [out, pl, r, rmin, rcut, i, j]); return read_doubles(it, out, 3)
                res, st = explore(mod, models.all_models(), body, parsed=parsed); ck.stubs |= st['models_used']
                inside = 0
                for it, (Fv, DF, D2F) in res:
                    pc = list(it.pc)
                    ins = smt.check(pc + [z3.Not(z3.And(r >= rmin, r <= rcut))], 10)[0] == 'unsat'
                    A = Algebra()
                    f = A.rf(Fv); df = A.rf(DF); d2f = A.rf(D2F)
                    if ins: inside += 1
                    tag = '%s[%s]' % (which, 'in range' if ins else 'outside')
                    if j == 0:
                        A.prove_equal(ck, '%s.P1 DF(%d) == dF/dlam%d' % (tag, i, i), df, A.total_deriv(f, 'lam%d' % i), pc, TO)
                    A.prove_equal(ck, '%s.P1 D2F(%d,%d) == dDF(%d)/dlam%d' % (tag, i, j, i, j), d2f, A.total_deriv(df, 'lam%d' % j), pc, TO)
                    if not ins and j == 0:
                        smt.prove(ck, '%s: F == 0 outside [min,cut]' % tag, pc, [Fv != 0], TO, probe=[z3.Real('freeF') != 0])
                if i == 0 and j == 0: ck.add_witness('%s explores inside and outside [min,cut]' % which, inside >= 1 and inside < len(res))
        # symmetry of D2F
        for i in range(nl):
            for j in range(i + 1, nl):
                def body2(ii, jj):
                    def b(it):
                        it.assume(rmin > 0); it.assume(rcut > rmin); it.assume(r >= rmin); it.assume(r <= rcut)
                        out = alloc_doubles(it, 'out', [F(0)] * 8); pl = alloc_doubles(it, 'lam', lam)
                        it.call('@h_' + which, [out, pl, r, rmin, rcut, ii, jj]); return read_doubles(it, out, 3)
                    return b
                ra, _ = explore(mod, models.all_models(), body2(i, j), parsed=parsed); rb, _ = explore(mod, models.all_models(), body2(j, i), parsed=parsed)
                A = Algebra()
                A.prove_equal(ck, '%s.P1 D2F symmetric (%d,%d)' % (which, i, j), A.rf(ra[0][1][2]), A.rf(rb[0][1][2]), list(ra[0][0].pc), TO)
    # history independence: the result depends on the current parameters and r only, not on an earlier evaluation or on which
    # public setter installed the parameters (a cache keyed on r alone survives a parameter change)
    r1 = z3.Real('r_prev')
    for kind, (which, nl) in enumerate((('lj126', 2), ('ljg', 5))):
        lam = [z3.Real('lam%d' % i) for i in range(nl)]; lam1 = [z3.Real('prev_lam%d' % i) for i in range(nl)]
        combos = [(i, (i + 1) % nl, i % 4) for i in range(nl)] if tier == 'quick' else [(i, j, (i + j) % 4) for i in range(nl) for j in range(nl)]
        q = {0: [], 1: [], 2: []}
        for (i, j, mode) in combos:
            def body(it):
                it.assume(rmin > 0); it.assume(rcut > rmin); it.assume(r >= rmin); it.assume(r <= rcut); it.assume(r1 >= rmin); it.assume(r1 <= rcut)
                out = alloc_doubles(it, 'out', [F(0)] * 8); out2 = alloc_doubles(it, 'out2', [F(0)] * 8); pl = alloc_doubles(it, 'lam', lam); pl1 = alloc_doubles(it, 'lam1', lam1)
                it.call('@h_pot_seq', [kind, out, pl1, r1, pl, r, rmin, rcut, i, j, mode]); it.call('@h_' + which, [out2, pl, r, rmin, rcut, i, j])
                return read_doubles(it, out, 3), read_doubles(it, out2, 3)
            res, st = explore(mod, models.all_models(), body, parsed=parsed, max_paths=200); ck.stubs |= st['models_used']
            for pi, (it, (a, b)) in enumerate(res):
                for c, nm in enumerate(('F', 'DF(%d)' % i, 'D2F(%d,%d)' % (i, j))):
                    A = Algebra()
                    A.prove_equal(ck, '%s.P3 %s after an earlier evaluation at another (lam, r) and a parameter change through setter %d equals the value of a fresh object, path %d' % (which, nm, mode, pi), A.rf(a[c]), A.rf(b[c]), list(it.pc), TO)
    # cubic B-spline: concrete knot layout (nlam, rmin, rcut), symbolic coefficients and r
    layouts = [(10, F(1, 4), F(1))] if tier == 'quick' else [(10, F(1, 4), F(1)), (12, F(3, 10), F(3, 2)), (9, F(0), F(1))]
    for nlam, mn, ct in layouts:
        lam = [z3.Real('lam%d' % i) for i in range(nlam)]
        nopt = None
        for i in range(0, 8):
            def body(it):
                it.fork_minmax = True
                it.assume(r >= 0); it.assume(r <= ct + 1)
                out = alloc_doubles(it, 'out', [F(0)] * 8); pl = alloc_doubles(it, 'lam', lam)
                rc = it.call('@h_cbspl', [out, pl, nlam, r, mn, ct, i, 0]); return symx.sgn64(rc), read_doubles(it, out, 5)
            res, st = explore(mod, models.all_models(), body, parsed=parsed, max_paths=400); ck.stubs |= st['models_used']
            if res and res[0][1][0] != 0: ck.notes.append('cbspl layout %s rejected by constructor' % ((nlam, mn, ct),)); break
            nexcl = int(res[0][1][1][3]); nopt = int(res[0][1][1][4])
            if i >= nopt: break
            for pi, (it, (rc, (Fv, DF, D2F, _, _))) in enumerate(res):
                A = Algebra()
                A.prove_equal(ck, 'cbspl(n=%d).P1 DF(%d) == dF/dlam[%d+nexcl=%d] path %d' % (nlam, i, i, i + nexcl, pi), A.rf(DF), A.total_deriv(A.rf(Fv), 'lam%d' % (i + nexcl)), list(it.pc), TO)
            if i == 0: ck.add_witness('cbspl(n=%d): %d interval paths' % (nlam, len(res)), len(res) >= 3)
        ck.bounds['cbspl layout %s' % ((nlam, str(mn), str(ct)),)] = 'optimised parameters: %s' % nopt

def savepot_models(mod):
    M = models.all_models()
    def m_save(it, a):
        it.call('@verif_capture', [a[0]]); return None
    for n in list(mod.funcs) + list(mod.decls):
        if 'Table4Save' in n: M[n] = m_save
    return M

def savepot(ck, mod, tier, parsed):
    """T1: the tabulated potential (PotentialFunction::SavePotTab, both overloads) equals the function on the requested grid:
    rows k < n-1 at min + k*step, last row at the cut-off, every abscissa inside the requested interval, U_k = CalculateF(r_k), flag 'i'."""
    TO = 60 if tier == 'quick' else 300
    NMAX = 4 if tier == 'quick' else 8
    ck.units += ['csg/src/libcsg/potentialfunctions/potentialfunction.cc (PotentialFunction::SavePotTab, both overloads; Table::resize/set from tools/src/libtools/table.cc)']
    ck.functions.update(common.ir_func_sizes(mod, r'SavePotTab|Table6resize'))
    M = savepot_models(mod)
    rmin, rcut, step, r0, r1, r = z3.Reals('rmin rcut step r0 r1 r')
    CAP = NMAX + 2
    for which, nl in (('lj126', 2), ('ljg', 5)):
        lam = [z3.Real('lam%d' % i) for i in range(nl)]
        # the function value as the code computes it, r symbolic inside [min,cut]
        def bodyF(it):
            it.assume(z3.And(rmin > 0, rcut > rmin, r >= rmin, r <= rcut))
            out = alloc_doubles(it, 'out', [F(0)] * 8); pl = alloc_doubles(it, 'lam', lam)
            it.call('@h_' + which, [out, pl, r, rmin, rcut, 0, 0]); return read_doubles(it, out, 1)[0]
        rf, _ = explore(mod, models.all_models(), bodyF, parsed=parsed)
        Fexpr = rf[0][1]
        for ov in (0, 1):
            lo, hi = (rmin, rcut) if ov == 0 else (r0, r1)
            def body(it):
                it.concretize_fptosi = NMAX
                it.assume(z3.And(rmin > 0, rcut > rmin, step > 0))
                if ov == 1: it.assume(z3.And(r0 > 0, r1 > r0))
                it.assume((hi - lo) <= (NMAX - 1) * step)
                xs = alloc_doubles(it, 'xs', [F(0)] * CAP); ys = alloc_doubles(it, 'ys', [F(0)] * CAP); fl = it.alloc(CAP, 'fl'); pl = alloc_doubles(it, 'lam', lam)
                n = it.call('@h_savepot', [xs, ys, fl, CAP, pl, rmin, rcut, step, 0 if which == 'lj126' else 1, ov, r0 if ov else F(0), r1 if ov else F(0)])
                n = it.concretize(n, CAP) if symx.is_sym(n) else symx.sgn64(n)
                k = max(0, min(n, CAP))
                return n, read_doubles(it, xs, k), read_doubles(it, ys, k), [it.load(Ptr(fl.obj, i), 1) for i in range(k)]
            res, st = explore(mod, M, body, parsed=parsed, max_paths=600, timeout=300); ck.stubs |= st['models_used'] | {'Table::Save(filename) -> the table is captured instead of written (harness verif_capture)'}
            tag = 'SavePotTab[%s,%s]' % (which, 'own range' if ov == 0 else 'given range')
            ns = sorted({v[0] for _, v in res})
            ck.add_witness('%s: %d paths, table sizes %s' % (tag, len(res), ns), len(ns) >= 3)
            qs_grid = []; qs_in = []; qs_flag = []; meta = []
            for it_, (n, xs, ys, fls) in res:
                pc = list(it_.pc)
                if n < 1: qs_grid.append((pc, [])); continue       # an empty table for a non-empty interval must be infeasible
                X = [x if z3.is_expr(x) else z3.RealVal(x) for x in xs]
                grid = [X[k] == lo + k * step for k in range(n - 1)] + [X[n - 1] == hi]
                qs_grid.append((pc, [z3.Not(z3.And(grid))]))
                qs_in.append((pc, [z3.Not(z3.And([z3.And(x >= lo, x <= hi) for x in X]))]))
                qs_flag.append((pc, [z3.Or([f != ord('i') for f in fls if True])] if any(symx.is_sym(f) or f != ord('i') for f in fls) else [z3.BoolVal(False)]))
            st_, mdl = smt.agg_core(ck, '%s.T1 rows at min + k*step, last row at the cut-off (n <= %d)' % (tag, NMAX), qs_grid, TO, probe=[z3.Real('freeX') != hi])
            if st_ == 'sat': savepot_violation(ck, which, ov, mdl, 'grid')
            st_, mdl = smt.agg_core(ck, '%s.T1 every tabulated r lies in the requested interval' % tag, qs_in, TO, probe=[z3.Real('freeX') > hi])
            if st_ == 'sat': savepot_violation(ck, which, ov, mdl, 'interval')
            bad_flag = [q for q in qs_flag if not (len(q[1]) == 1 and z3.is_false(q[1][0]))]
            ck.obligation('%s.T1 every row carries the flag i' % tag, 'unsat' if not bad_flag else 'sat', 0.0, True)
            if bad_flag: savepot_violation(ck, which, ov, None, 'flag')
            # values: U_k equals CalculateF at the tabulated abscissa (inside [min,cut]: the closed form; outside: 0)
            rows = []
            for pi, (it_, (n, xs, ys, fls)) in enumerate(res):
                for k in range(max(0, n)):
                    xk = xs[k] if z3.is_expr(xs[k]) else z3.RealVal(xs[k]); yk = ys[k] if z3.is_expr(ys[k]) else z3.RealVal(ys[k])
                    rows.append((pi, k, list(it_.pc), xk, yk))
            ins = smt.parallel_check([(i, pc + [z3.Not(z3.And(xk >= rmin, xk <= rcut))]) for i, (pi, k, pc, xk, yk) in enumerate(rows)], timeout_s=10)
            q_in = []; q_out = []
            for i, (pi, k, pc, xk, yk) in enumerate(rows):
                if ins[i][0] == 'unsat':
                    A = Algebra(); P = A.residual(A.rf(yk), A.rf(z3.substitute(Fexpr, (r, xk))))
                    q_in.append((A.definitions() + pc + list(A.side), [A.poly_z3(P) != 0]))
                else:
                    q_out.append((pc, [z3.Not(z3.Or(z3.And(xk >= rmin, xk <= rcut), yk == 0))]))
            fu = z3.Real('freeU')
            st_, mdl = smt.agg_core(ck, '%s.T1 U_k == CalculateF(r_k) for every row inside [min,cut]' % tag, q_in, TO, purify_all=True, probe=[fu != z3.substitute(Fexpr, (r, lo))])
            if st_ == 'sat': savepot_violation(ck, which, ov, mdl, 'value')
            if q_out:
                st_, mdl = smt.agg_core(ck, '%s.T1 U_k == 0 for every row outside [min,cut]' % tag, q_out, TO, probe=[fu != 0])
                if st_ == 'sat': savepot_violation(ck, which, ov, mdl, 'value')
    ck.bounds['SavePotTab'] = 'tables of at most %d rows (grid size case-split); min, cut-off, step, interval ends and parameters symbolic reals' % NMAX
    ck.assumptions.append('SavePotTab: exact real arithmetic; the one-ulp effects of accumulating r += step in doubles are outside the claim (the last row is pinned to the cut-off by the code and checked as such)')

def savepot_violation(ck, which, ov, mdl, clause):
    mdl = mdl or {}
    def num(k, d):
        v = mdl.get(k)
        try: return float(F(str(v))) if v is not None else d
        except Exception: return d
    vals = {'rmin': num('rmin', 0.5), 'rcut': num('rcut', 1.0), 'step': num('step', 0.2), 'r0': num('r0', 0.5), 'r1': num('r1', 1.0)}
    meta = {'kind': 'savepot', 'which': which, 'overload': ov, 'clause': clause, 'values': vals}
    rep = common.write_replay('C07', 'savepot %s %d %s' % (which, ov, clause), {}, meta)
    ok, why = replay_savepot(meta)
    ck.violation('C07 SavePotTab %s %s' % (which, clause), 'SavePotTab(%s, overload %d): %s clause fails, e.g. %s ; %s' % (which, ov, clause, vals, why), rep, reproduced=ok)

def replay_savepot(meta):
    binp = common.native_build([common.harness_path(HARNESS)], 'C07_native_r', extra=['-I' + common.REPO], defs=['VERIF_NATIVE'], libs=common.votca_libs())
    v = meta['values']; which = 0 if meta['which'] == 'lj126' else 1
    lam = [1.0, 1.0] if which == 0 else [1.0, 1.0, 0.5, 0.7, 0.3]
    line = 'savepot %d %d %s %s %s %s %s %s' % (which, meta['overload'], ' '.join(float(x).hex() for x in lam), float(v['rmin']).hex(), float(v['rcut']).hex(), float(v['step']).hex(), float(v['r0']).hex(), float(v['r1']).hex())
    rc, so, se = common.run_native(binp, line + '\n', cwd=os.path.dirname(binp))
    t = so.split()
    if not t: return False, 'native driver gave no output'
    n = int(t[0]); xs = [float.fromhex(t[1 + 3 * k]) for k in range(n)]; fl = [t[3 + 3 * k] for k in range(n)]
    lo, hi = (v['rmin'], v['rcut']) if meta['overload'] == 0 else (v['r0'], v['r1'])
    tol = 1e-9 * max(1.0, abs(hi))
    if meta['clause'] == 'flag': return any(f != 'i' for f in fl), 'flags %s' % fl
    bad_last = n >= 1 and abs(xs[-1] - hi) > tol
    bad_in = any(x < lo - tol or x > hi + tol for x in xs)
    bad_grid = any(abs(xs[k] - (lo + k * v['step'])) > tol for k in range(n - 1))
    if meta['clause'] == 'value': return True, 'value clause: see the model'
    return (bad_last or bad_in or bad_grid or n < 1), 'native rows r = %s for interval [%g, %g]' % (xs, lo, hi)

def splines(ck, tier):
    """S1: for every spline type the reported derivative is the derivative of the reported value (shared with C12's machinery)"""
    import C12
    ir, dt = common.compile_ir(common.harness_path(C12.HARNESS), extra=['-I' + common.REPO])
    smod = llir.parse_module(ir); parsed = {}; found = []
    ck.units += ['tools/src/libtools/{linspline,akimaspline,cubicspline,spline}.cc (Calculate vs CalculateDerivative)']
    TO = 60
    n = 3; xs = [z3.Real('x%d' % i) for i in range(n)]; ys = [z3.Real('y%d' % i) for i in range(n)]
    C12.generic_spline_clauses(ck, smod, 'lin', xs, ys, parsed, TO, found, 'S1 LinSpline(n=3, symbolic knots)', assume=[xs[i] < xs[i + 1] for i in range(n - 1)], c1=False)
    C12.akima_clauses(ck, smod, C12.GRIDS[4][1], parsed, TO, found, 'S1 AkimaSpline(n=4, non-uniform grid)')
    g = C12.GRIDS[4][1]; ys = [z3.Real('y%d' % i) for i in range(4)]
    C12.generic_spline_clauses(ck, smod, 'cubic', g, ys, parsed, TO, found, 'S1 CubicSpline natural (n=4, non-uniform grid)', qr_factory=C12.QRContract)
    # outside the table (below the first and above the last knot, up to two table lengths away) the derivative must still be the
    # derivative of whatever Calculate returns there (extrapolated end polynomial, or a periodic wrap)
    from algz import Algebra
    r = z3.Real('r'); g3 = C12.GRIDS[4][1]; span = g3[-1] - g3[0]
    for kind, periodic, lab in (('cubic', 0, 'CubicSpline natural'), ('cubic', 1, 'CubicSpline periodic'), ('lin', 0, 'LinSpline')):
        ys4 = [z3.Real('y%d' % i) for i in range(4)]
        for side, dom in (('below the first knot', [r < g3[0], r > g3[0] - 2 * span]), ('above the last knot', [r > g3[-1], r < g3[-1] + 2 * span])):
            try:
                paths, st = C12.spline_eval(smod, kind, g3, ys4, r, parsed, dom + ([ys4[0] == ys4[3]] if periodic else []), periodic, C12.QRContract() if kind == 'cubic' else None)
            except symx.Unsupported as e:
                ck.inconc('S1 %s %s: %s' % (lab, side, str(e)[:120])); continue
            q = []
            for pc, (rc, val, der, aux) in paths:
                A = Algebra()
                try:
                    P = A.residual(A.rf(der), A.total_deriv(A.rf(val), 'r')); q.append((A.definitions() + pc, [A.poly_z3(P) != 0]))
                except Exception as e: ck.inconc('S1 %s %s normal form: %s' % (lab, side, e))
            ck.add_witness('S1 %s %s: %d path(s)' % (lab, side, len(paths)), len(paths) >= 1)
            C12.agg_prove(ck, 'S1 %s (n=4): CalculateDerivative(r) = d/dr Calculate(r) %s' % (lab, side), q, TO, found, 'S1 ' + lab)
    for tag, name, mdl in found:
        rep = common.write_replay('C07', name, {}, {'obligation': name, 'model': mdl})
        ck.violation('C07 spline ' + name.split(':')[0][:60], name + ' model=%s' % str(mdl)[:200], rep, reproduced=True)

def check_c07(ck, tier, replay=None):
    if replay: return do_replay(ck, replay)
    ir, dt = common.compile_ir(common.harness_path(HARNESS), extra=['-I' + common.REPO])
    mod = llir.parse_module(ir)
    ck.units += ['csg/include/votca/csg/interaction.h (IBond/IAngle/IDihedral::EvaluateVar, ::Grad)', 'csg/src/libcsg/potentialfunctions/potentialfunction{lj126,ljg,cbspl}.cc (CalculateF/DF/D2F)']
    ck.functions.update(common.ir_func_sizes(mod, r'^@h_|Calculate'))
    ck.assumptions += ['doubles as exact reals; sqrt/acos/exp as canonical symbols with their defining relations (S>0, S^2=radicand; dA=-du/sqrt(1-u^2); dE=E du)',
                       'Topology::getDist is the environment boundary: its results are independent symbols v_ab, d v_ab/d p_b = +1, d v_ab/d p_a = -1 (open box / fixed image)',
                       'singular geometries excluded: every radical strictly positive (|v_i|>0, sin(theta)>0, |n_i|>0), fixed sign branch of the dihedral per path']
    validate(ck, mod)
    parsed = {}
    found = interactions(ck, mod, tier, parsed)
    rigid_motion(ck, mod, tier, parsed)
    image_shifts(ck, tier)
    potentials(ck, mod, tier, parsed)
    savepot(ck, mod, tier, parsed)
    splines(ck, tier)
    ck.bounds.update({'coordinates': 'all reals away from the singular set', 'parameters': 'all reals; r>0, 0<min<cut', 'term cap': 200000})
    # violations -> native replay by finite differences
    for name, (which, bead, k, mdl, V) in found.items():
        rep, ok, why = replay_fd(which, bead, k, mdl, V, name)
        ck.violation('C07 I%s::Grad bead %d' % ({'bond': 'Bond', 'angle': 'Angle', 'dih': 'Dihedral'}[which], bead), name + ' ; ' + why, rep, reproduced=ok)
    for o in ck.obl:
        if o['status'] == 'sat' and o['name'] not in found and 'SavePotTab' not in o['name'] and '.R1 ' not in o['name'] and not o['name'].startswith('image shifts'):
            rep = common.write_replay('C07', o['name'], {}, {'obligation': o['name'], 'model': (o.get('detail') or {}).get('model')})
            ck.violation('C07 ' + o['name'].split(' path')[0], o['name'] + ' model=%s' % str((o.get('detail') or {}).get('model'))[:200], rep, reproduced=True)

def replay_fd(which, bead, k, mdl, V, name):
    """Native finite-difference check of Grad on the geometry of the model (positions reconstructed from the v_ab symbols)."""
    def num(key):
        v = (mdl or {}).get(key)
        if v is None: return 0.0
        v = str(v).rstrip('?')
        try: return float(F(v))
        except Exception:
            try: return float(v)
            except Exception: return 0.0
    nb = NB[which]
    # chain: bond v01; angle v10, v12; dihedral v01, v12, v23
    pos = [[0.0, 0.0, 0.0] for _ in range(4)]
    if which == 'bond': pos[1] = [num('v01_%d' % i) for i in range(3)]
    elif which == 'angle':
        pos[1] = [0.0] * 3; pos[0] = [num('v10_%d' % i) for i in range(3)]; pos[2] = [num('v12_%d' % i) for i in range(3)]
    else:
        pos[1] = [num('v01_%d' % i) for i in range(3)]; pos[2] = [pos[1][i] + num('v12_%d' % i) for i in range(3)]; pos[3] = [pos[2][i] + num('v23_%d' % i) for i in range(3)]
    meta = {'obligation': name, 'which': which, 'bead': bead, 'comp': k, 'positions': pos}
    rep = common.write_replay('C07', name, {'README': 'finite-difference replay: ./check C07 --replay <dir>\n'}, meta)
    ok, why = fd_eval(meta)
    return rep, ok, why

def fd_eval(meta):
    which, bead, k, pos = meta['which'], meta['bead'], meta['comp'], meta['positions']
    binp = common.native_build([common.harness_path(HARNESS)], 'C07_native_r', extra=['-I' + common.REPO], defs=['VERIF_NATIVE'], libs=common.votca_libs())
    def ev(p):
        rc, so, se = common.run_native(binp, '%s %d ' % (which, bead) + ' '.join(float(x).hex() for q in p for x in q) + '\n')
        return [float.fromhex(x) for x in so.split()]
    h = 1e-6
    base = ev(pos)
    pp = [list(q) for q in pos]; pm = [list(q) for q in pos]
    pp[bead][k] += h; pm[bead][k] -= h
    fd = (ev(pp)[0] - ev(pm)[0]) / (2 * h)
    an = base[1 + k]
    bad = abs(fd - an) > 1e-5 * max(1.0, abs(fd), abs(an))
    return bad, 'finite difference %.9g vs Grad %.9g at positions %s' % (fd, an, pos)

def do_replay(ck, path):
    meta = json.load(open(os.path.join(path, 'input.json')))
    if meta.get('kind') == 'rotation':
        ok, why = rot_eval(meta); print('replay rotation: %s (%s)' % ('reproduced' if ok else 'not reproduced', why))
        if ok: print('VIOLATION property=C07 replay=%s' % path); return 1
        return 0
    if meta.get('kind') == 'savepot':
        ok, why = replay_savepot(meta); print('replay SavePotTab: %s (%s)' % ('reproduced' if ok else 'not reproduced', why))
        if ok: print('VIOLATION property=C07 replay=%s' % path); return 1
        return 0
    if 'positions' not in meta: print('no native replay recorded for this obligation'); return 0
    ok, why = fd_eval(meta)
    print('replay %s: %s (%s)' % (meta['obligation'], 'reproduced' if ok else 'not reproduced', why))
    if ok: print('VIOLATION property=C07 replay=%s' % path); return 1
    return 0

if __name__ == '__main__':
    sys.exit(common.main_wrapper('C07', check_c07))
