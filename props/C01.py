# C01 — coarse-grained mapping is the weighted, image-aware linear map (E2)
import sys, os, json, time, random, math, itertools
from fractions import Fraction as F
import z3
import common, llir, symx, models, smt
from symx import Ptr, alloc_doubles, read_doubles, explore, is_sym

HARNESS = 'C01_map.cc'

def map_models():
    M = models.all_models()
    # formatting sinks on the rejection path (the throw itself is executed)
    M['re:^@_ZN5EigenlsINS_6MatrixIdLi3ELi1E'] = lambda it, a: a[0]
    def lex(it, a):
        models.sinit(it, a[0], b'N'); return None
    M['re:^@_ZN5boost12lexical_castINSt7__cxx1112basic_stringIcSt11char_traitsIcESaIcEEElEET_RKT0_'] = lex
    return M

class BoxContract:
    """contract stubs for the periodic box routines inside Apply: BCShortestConnection returns fresh symbols (call arguments
    recorded), getShortestBoxDimension returns the symbol hmin > 0.  What these routines compute is C02's subject."""
    def __init__(s): s.calls = []; s.hmin = z3.Real('hmin')
    def models(s):
        def sc(it, a):
            out, this, pi, pj = a
            ri = read_doubles(it, pi, 3); rj = read_doubles(it, pj, 3)
            k = len([c for c in s.calls if c[0] is it])
            syms = [z3.Real('sc%d_%d' % (k, j)) for j in range(3)]
            s.calls.append((it, ri, rj, syms))
            for j in range(3): it.store(Ptr(out.obj, out.off + 8 * j), syms[j], 8)
            return None
        def hm(it, a):
            it.assume(s.hmin > 0); return s.hmin
        return {'re:^@_ZNK5votca3csg(15OrthorhombicBox|12TriclinicBox)20BCShortestConnection': sc, 're:^@_ZNK5votca3csg17BoundaryCondition23getShortestBoxDimensionEv': hm}

def apply_paths(mod, n, w, fw, mass, pos, vel, frc, flags, box, boxtype, parsed, assume=(), fpmode='real', max_paths=4000, contract=None):
    zero = F(0) if fpmode == 'real' else 0.0
    M = map_models()
    if contract: M.update(contract.models())
    def body(it):
        for c in assume: it.assume(c)
        pw = alloc_doubles(it, 'w', w); pf = alloc_doubles(it, 'fw', fw); pm = alloc_doubles(it, 'm', mass)
        pp = alloc_doubles(it, 'pos', pos); pv = alloc_doubles(it, 'vel', vel); pfr = alloc_doubles(it, 'frc', frc)
        pb = alloc_doubles(it, 'box', box); out = alloc_doubles(it, 'out', [zero] * 14)
        rc = symx.sgn64(it.call('@h_apply', [n, pw, pf, pm, pp, pv, pfr, flags, pb, boxtype, out]))
        return rc, read_doubles(it, out, 14)
    res, st = explore(mod, M, body, parsed=parsed, fpmode=fpmode, max_paths=max_paths)
    if contract: return [(list(it.pc), r, [c for c in contract.calls if c[0] is it]) for it, r in res], st
    return [(list(it.pc), r) for it, r in res], st

def check_c01(ck, tier, replay=None):
    if replay: return do_replay(replay)
    TO = 60 if tier == 'quick' else 300
    ir, dt = common.compile_ir(common.harness_path(HARNESS), extra=['-I' + common.REPO])
    mod = llir.parse_module(ir)
    ck.units += ['csg/src/libcsg/map.cc (Map_Sphere::AddElem, Apply)', 'csg/src/libcsg/openbox.cc; the periodic box routines as called from Apply (by contract, see C02)', 'csg/include/votca/csg/bead.h, basebead.h accessors']
    ck.functions.update(common.ir_func_sizes(mod, r'^@h_|Map_Sphere|BCShortestConnection|getShortestBoxDimension'))
    ck.assumptions += ['doubles as exact reals; norm() through the canonical sqrt symbol', 'mapping state built through the real AddElem with arbitrary weights (arbitrary-state pattern); beads through the real Bead constructor and setters',
                       'the message formatting on the rejection path (Eigen operator<<, boost::lexical_cast<string>) is a sink; the throw is executed', 'presence flags are uniform over the parents (all have positions or none, etc.)',
                       'compositional: inside Apply the periodic BCShortestConnection and getShortestBoxDimension are contract stubs (fresh symbols, call arguments recorded and checked); that they return the minimum image / the shortest box height, and that the image is invariant under whole box vectors, is decided on the same real functions under C02. Open box: the real OpenBox routine is executed.',
                       'Map_Sphere::Initialize: the real Property/Tokenizer/normalisation code runs on option text made of placeholder tokens; only tools::lexical_cast<double> is a stub returning one symbolic real per token']
    validate(ck, mod)
    parsed = {}; found = []
    NMAX = 3 if tier == 'quick' else 4
    for n in range(1, NMAX + 1):
        w = [z3.Real('w%d' % i) for i in range(n)]; fw = [z3.Real('fw%d' % i) for i in range(n)]; ms = [z3.Real('m%d' % i) for i in range(n)]
        pos = [z3.Real('p%d_%d' % (i, k)) for i in range(n) for k in range(3)]; vel = [z3.Real('v%d_%d' % (i, k)) for i in range(n) for k in range(3)]; frc = [z3.Real('f%d_%d' % (i, k)) for i in range(n) for k in range(3)]
        box = [z3.Real('b%d' % i) for i in range(9)]
        for bname, btype in (('open', 3), ('orthorhombic', 2), ('triclinic', 1)):
            flagsets = range(8) if (bname == 'open' or tier == 'thorough') else (1, 7, 6)
            for flags in flagsets:
                con = BoxContract() if bname != 'open' else None
                paths, st = apply_paths(mod, n, w, fw, ms, pos, vel, frc, flags, box if con else [F(0)] * 9, btype, parsed, contract=con); ck.stubs |= st['models_used']
                if con is None: paths = [(pc, r, None) for pc, r in paths]
                label = 'n=%d %s flags(pos,vel,F)=%d%d%d' % (n, bname, flags & 1, (flags >> 1) & 1, (flags >> 2) & 1)
                ok_paths = [(pc, o, c) for pc, (rc, o), c in paths if rc == 0]; thrown = [(pc, o, c) for pc, (rc, o), c in paths if rc == -1]
                ck.add_witness('%s: %d returning, %d rejecting path(s)' % (label, len(ok_paths), len(thrown)), len(ok_paths) >= 1 and (bname == 'open' or not (flags & 1) or len(thrown) >= 1))
                r0 = pos[0:3]
                q = []; qargs = []; qa = []; qb = []
                for pc, o, calls in ok_paths + thrown:
                    if calls is not None and (flags & 1):
                        # every parent's connection vector is requested as BCShortestConnection(r0, r_i), r0 = position of the FIRST parent
                        want = [(r0, pos[3 * i:3 * i + 3]) for i in range(n)]
                        got = [(c[1], c[2]) for c in calls]
                        cover = z3.And([z3.Or([z3.And([g[0][k] == wt[0][k] for k in range(3)] + [g[1][k] == wt[1][k] for k in range(3)]) for g in got] or [z3.BoolVal(False)]) for wt in want])
                        qargs.append((pc, [z3.Not(cover)]))
                for pc, o, calls in ok_paths:
                    goal = [o[0] == sum(ms[1:], ms[0]), o[13] == n, o[10] == (1 if flags & 1 else 0), o[11] == (1 if flags & 2 else 0), o[12] == (1 if flags & 4 else 0)]
                    def sc_of(i, k):
                        if calls is None: return pos[3 * i + k] - r0[k]
                        # the connection vector of parent i = result of the (last) call with arguments (r0, r_i)
                        e = None
                        for c in calls:
                            hit = z3.And([c[1][j] == r0[j] for j in range(3)] + [c[2][j] == pos[3 * i + j] for j in range(3)])
                            e = c[3][k] if e is None else z3.If(hit, c[3][k], e)
                        return e
                    for k in range(3):
                        if flags & 1: goal.append(o[1 + k] == sum((w[i] * (sc_of(i, k) + r0[k]) for i in range(1, n)), w[0] * (sc_of(0, k) + r0[k])))
                        if flags & 2: goal.append(o[4 + k] == sum((w[i] * vel[3 * i + k] for i in range(1, n)), w[0] * vel[k]))
                        if flags & 4: goal.append(o[7 + k] == sum((fw[i] * frc[3 * i + k] for i in range(1, n)), fw[0] * frc[k]))
                    same = []
                    if calls is not None:   # the box routine is a function: equal arguments give equal results
                        for c1, c2 in itertools.combinations(calls, 2):
                            same.append(z3.Implies(z3.And([c1[1][j] == c2[1][j] for j in range(3)] + [c1[2][j] == c2[2][j] for j in range(3)]), z3.And([c1[3][j] == c2[3][j] for j in range(3)])))
                    q.append((pc + same, [z3.Not(z3.And(goal))]))
                    if calls is not None and (flags & 1):
                        far = z3.Or([4 * sum(c[3][k] * c[3][k] for k in range(3)) > con.hmin * con.hmin for c in calls])
                        qa.append((pc + same, [far]))
                for pc, o, calls in thrown:
                    if calls is not None and (flags & 1):
                        far = z3.Or([4 * sum(c[3][k] * c[3][k] for k in range(3)) > con.hmin * con.hmin for c in calls])
                        qb.append((pc, [z3.Not(far)]))
                agg(ck, '%s: mass = sum of parent masses; pos = sum w_i (r0 + sc(r0,r_i)); vel = sum w_i v_i; F = sum fw_i F_i; absent quantities not set; all parents recorded' % label, q, TO, found, label)
                if qargs: agg(ck, '%s: the connection vector of every parent is taken relative to the first parent (arguments of BCShortestConnection)' % label, qargs, TO, found, label + ' arguments')
                if qa: agg(ck, '%s: no path returns normally with a parent farther than half the shortest box height from the first parent' % label, qa, TO, found, label + ' silent')
                if qb: agg(ck, '%s: every rejecting path has such a parent (no spurious rejection)' % label, qb, TO, found, label + ' spurious')
                if bname != 'open' and not (flags & 1) and thrown:
                    ck.obligation('%s: without positions nothing is rejected' % label, 'sat', 0.0, True); found.append((label, 'rejection without positions', {}))
        # rigid translation and convexity (open box, real OpenBox routine)
        t = [z3.Real('t%d' % k) for k in range(3)]
        pos_t = [pos[3 * i + k] + t[k] for i in range(n) for k in range(3)]
        pa, _ = apply_paths(mod, n, w, fw, ms, pos, vel, frc, 1, [F(0)] * 9, 3, parsed); pb, _ = apply_paths(mod, n, w, fw, ms, pos_t, vel, frc, 1, [F(0)] * 9, 3, parsed)
        wsum1 = [sum(w[1:], w[0]) == 1]
        q = [(p1 + p2 + wsum1, [z3.Or([o2[1 + k] != o1[1 + k] + t[k] for k in range(3)])]) for (p1, (r1, o1)), (p2, (r2, o2)) in itertools.product(pa, pb)]
        agg(ck, 'n=%d open box: a rigid translation of all parents translates the mapped position (normalised weights)' % n, q, TO, found, 'n=%d translation' % n)
        lo = [z3.Real('lo%d' % k) for k in range(3)]; hi = [z3.Real('hi%d' % k) for k in range(3)]
        hull = [z3.And(lo[k] <= pos[3 * i + k], pos[3 * i + k] <= hi[k]) for i in range(n) for k in range(3)]
        # stated without the path condition (a stronger obligation: the forks only concern the rejection bookkeeping) and per axis
        uniq = {}
        for p1, (r1, o1) in pa:
            for k in range(3): uniq.setdefault((k, o1[1 + k].sexpr() if z3.is_expr(o1[1 + k]) else str(o1[1 + k])), (k, o1[1 + k]))
        q = [(wsum1 + [x >= 0 for x in w] + hull, [z3.Or(e < lo[k], e > hi[k])]) for (k, e) in uniq.values()]
        agg(ck, 'n=%d open box: for non-negative normalised weights the mapped position lies in the bounding box (convex hull, per axis) of the parents' % n, q, TO, found, 'n=%d convexity' % n)
    # ---- TopologyMap::Apply: the CG topology takes step, time and the complete box (matrix and kind) of the current atomistic frame,
    #      whatever box it carried from the previous frame, before the bead maps run
    ob = [z3.Real('ob%d' % i) for i in range(9)]; nb = [z3.Real('nb%d' % i) for i in range(9)]; tm_ = z3.Real('time')
    def tbody(it):
        po = alloc_doubles(it, 'old', ob); pn = alloc_doubles(it, 'new', nb); out = alloc_doubles(it, 'out', [F(0)] * 13)
        it.call('@h_topmap', [po, pn, F(7), tm_, out]); return read_doubles(it, out, 13)
    rt, stt = explore(mod, map_models(), tbody, parsed=parsed, max_paths=20000); ck.stubs |= stt['models_used']
    ck.add_witness('TopologyMap::Apply: %d paths (old/new box kinds)' % len(rt), len(rt) >= 9)
    q = [(list(it.pc), [z3.Or([o[i] != nb[i] for i in range(9)] + [o[9] != o[10], o[11] != 7, o[12] != tm_])]) for it, o in rt]
    agg(ck, 'TopologyMap::Apply: after Apply the CG topology has exactly the box matrix, box kind, step and time of the atomistic frame, for every previous CG box', q, TO, found, 'topologymap box')
    init_weights(ck, mod, tier, parsed, found)
    c02_inside(ck, tier, found)
    ck.bounds.update({'parents': 'n = 1..%d' % NMAX, 'weights/masses/coordinates': 'all reals', 'boxes': 'open (real routine); orthorhombic and triclinic class instances with the box routines by contract (any box)', 'flag combinations': 'all 8 for the open box; (pos), (pos,vel,F), (vel,F) for periodic boxes in the quick tier'})
    for tag, name, mdl in found:
        meta = {'clause': name, 'tag': tag, 'model': mdl}
        rep = common.write_replay('C01', name, {}, meta); ok, why = replay_native(meta)
        ck.violation('C01 ' + tag, name + ' ; ' + why, rep, reproduced=ok)

def c02_inside(ck, tier, found):
    """the box routines Apply relies on: the C02 obligations are re-established here on the current tree, so that a change to the
    box classes that breaks the mapping's image handling is reported under this property as well"""
    import C02
    sub = common.Check('C02', tier)
    try:
        C02.check_c02(sub, tier)
    except Exception as e:
        ck.inconc('box-routine obligations (C02) could not be established: %s' % str(e)[:200]); return
    for o in sub.obl:
        o2 = dict(o); o2['name'] = 'box routines used by Apply: ' + o['name']; ck.obl.append(o2)
    ck.solver_time += sub.solver_time
    for w in sub.witness: ck.witness.append(('box routines: ' + w[0], w[1]))
    for v in sub.viol:
        if v['reproduced']: found.append(('box routine ' + v['key'][4:], 'the periodic box routine used for unwrapping violates: ' + v['what'][:300], {}))
    for i in sub.inconclusive: ck.inconc('box routines: ' + i)

def half_box_sq(bname, L, tb):
    """h_min^2 as a symbol with defining constraints (min over the three heights)"""
    h2 = z3.Real('hmin2')
    if bname == 'orthorhombic':
        return h2, [z3.Or([h2 == l * l for l in L]), z3.And([h2 <= l * l for l in L])]
    ax, bx_, by, cx, cy, cz = tb
    cols = [[ax, 0, 0], [bx_, by, 0], [cx, cy, cz]]
    cr = lambda u, v: [u[1] * v[2] - u[2] * v[1], u[2] * v[0] - u[0] * v[2], u[0] * v[1] - u[1] * v[0]]
    det = ax * by * cz; Ns = [cr(cols[1], cols[2]), cr(cols[2], cols[0]), cr(cols[0], cols[1])]
    n2 = [sum(x * x for x in N) for N in Ns]
    # h_m^2 = det^2 / |N_m|^2
    return h2, [z3.Or([h2 * n2[m] == det * det for m in range(3)]), z3.And([h2 * n2[m] <= det * det for m in range(3)])]

def agg(ck, name, queries, TO, found, tag):
    st, mdl = smt.agg_core(ck, name, queries, TO, purify_all=True)
    if st == 'sat': found.append((tag, name, mdl))

def init_weights(ck, mod, tier, parsed, found, TO=60):
    """Map_Sphere::Initialize: every listed parent is stored, in order, with weight w_i / sum w and force weight
    (d_i / sum d) / (w_i / sum w) (1 when no d is given, 0 for a zero weight); a zero weight with a non-zero d is rejected.
    The real tokenising/normalisation runs; only the text -> double conversion is a stub (placeholder tokens)."""
    import re
    for n, has_d in ((2, 0), (3, 0), (2, 1), (3, 1)) if tier == 'quick' else ((2, 0), (3, 0), (4, 0), (2, 1), (3, 1), (4, 1)):
        w = [z3.Real('w%d' % i) for i in range(n)]; d = [z3.Real('d%d' % i) for i in range(n)]
        syms = {('@%d' % i).encode(): w[i] for i in range(n)}; syms.update({('@%d' % (10 + i)).encode(): d[i] for i in range(n)})
        M = map_models()
        def lex(it, a):
            arg = a[0]; txt = models.sget_bytes(it, arg)
            if txt not in syms: raise symx.Unsupported('unexpected numeric token %r' % txt)
            return syms[txt]
        M['re:^@_ZN5votca5tools12lexical_castIdNSt7__cxx1112basic_stringIcSt11char_traitsIcESaIcEEEEET_RKT0_RKS7_'] = lex
        M['@isspace'] = lambda it, a: int(chr(a[0] & 0xff).isspace()); M['@ispunct'] = lambda it, a: 0
        def as_string(it, a):
            models.sinit(it, a[0], b'name'); return None       # Property::as<std::string>() only feeds error messages here: formatting sink
        M['re:^@_ZNK5votca5tools8Property2asINSt7__cxx1112basic_stringIcSt11char_traitsIcESaIcEEEEET_v'] = as_string
        wt = ' '.join('@%d' % i for i in range(n)); dt = ' '.join('@%d' % (10 + i) for i in range(n))
        def body(it):
            it.assume(sum(w[1:], w[0]) != 0)
            if has_d: it.assume(sum(d[1:], d[0]) != 0)
            pw = it.alloc(len(wt) + 1, 'wt'); pd = it.alloc(len(dt) + 1, 'dt')
            for i, c in enumerate(wt.encode() + b'\0'): it.store(Ptr(pw.obj, i), c, 1)
            for i, c in enumerate(dt.encode() + b'\0'): it.store(Ptr(pd.obj, i), c, 1)
            out = alloc_doubles(it, 'out', [F(0)] * (2 * n)); order = it.alloc(8 * n, 'order')
            k = symx.sgn64(it.call('@h_init', [n, pw, pd, has_d, out, order]))
            if k < 0: return k, [], []
            return k, read_doubles(it, out, 2 * k), [symx.sgn64(it.load(Ptr(order.obj, 8 * i), 8)) for i in range(k)]
        res, st = explore(mod, M, body, parsed=parsed, max_paths=3000); ck.stubs |= st['models_used'] | {'tools::lexical_cast<double>(string): placeholder token -> symbolic real'}
        label = 'Initialize(n=%d, %s)' % (n, 'weights and d' if has_d else 'weights only')
        ck.add_witness('%s: %d paths, accepting and (with d) rejecting' % (label, len(res)), any(r[1][0] >= 0 for r in res) and (not has_d or any(r[1][0] < 0 for r in res)))
        S = sum(w[1:], w[0]); D = sum(d[1:], d[0])
        q = []; qr = []
        for it, (k, o, order) in res:
            pc = list(it.pc)
            if k < 0:
                qr.append((pc, [z3.Not(z3.Or([z3.And(w[i] == 0, d[i] != 0) for i in range(n)]) if has_d else z3.BoolVal(False))])); continue
            goal = [z3.BoolVal(k == n and order == list(range(n)))]
            if k == n:
                for i in range(n):
                    goal.append(o[2 * i] * S == w[i])
                    fw_expected = z3.If(w[i] == 0, z3.RealVal(0), (d[i] / D) / (w[i] / S)) if has_d else z3.If(w[i] == 0, z3.RealVal(0), z3.RealVal(1))
                    goal.append(o[2 * i + 1] == fw_expected)
                if has_d: goal.append(z3.Not(z3.Or([z3.And(w[i] == 0, d[i] != 0) for i in range(n)])))
            q.append((pc, [z3.Not(z3.And(goal))]))
        agg(ck, '%s: all parents stored in order with weight w_i/sum(w) and force weight (d_i/sum d)/(w_i/sum w) (plain sum without d; zero weights kept with force weight 0)' % label, q, TO, found, label)
        if qr: agg(ck, '%s: rejected only when some parent has zero weight but a non-zero d' % label, qr, TO, found, label + ' rejection')

def validate(ck, mod):
    rnd = random.Random(common.SEED); parsed = {}
    src = os.path.join(common.workdir(), 'c01drv.cc')
    open(src, 'w').write('#include "%s"\n#include <cstdio>\nint main(){ long n; while(scanf("%%ld",&n)==1){ double w[8],fw[8],m[8],p[24],v[24],f[24],bx[9],out[14]={0}; long flags,bt; for(long i=0;i<n;i++) scanf("%%la",&w[i]); for(long i=0;i<n;i++) scanf("%%la",&fw[i]); for(long i=0;i<n;i++) scanf("%%la",&m[i]); for(long i=0;i<3*n;i++) scanf("%%la",&p[i]); for(long i=0;i<3*n;i++) scanf("%%la",&v[i]); for(long i=0;i<3*n;i++) scanf("%%la",&f[i]); scanf("%%ld",&flags); for(int i=0;i<9;i++) scanf("%%la",&bx[i]); scanf("%%ld",&bt); long rc=h_apply(n,w,fw,m,p,v,f,flags,bx,bt,out); printf("\\nRES %%ld",rc); for(int i=0;i<14;i++) printf(" %%a",out[i]); printf("\\n"); } }\n' % common.harness_path(HARNESS))
    binn = common.native_build([src], 'C01_native', extra=['-I' + common.REPO], cxx=common.CLANG, libs=common.votca_libs() + ['-lexpat'])
    lines = []
    for _ in range(40):
        n = rnd.randint(1, 4); bt = rnd.choice([1, 2, 3]); flags = rnd.choice([1, 3, 5, 7, 2, 0])
        a, b, c = (rnd.uniform(2, 5) for _ in range(3))
        bx = [a, 0, 0, 0, b, 0, 0, 0, c] if bt == 2 else ([a, 0, 0, rnd.uniform(-a / 2, a / 2), b, 0, rnd.uniform(-a / 2, a / 2), rnd.uniform(-b / 2, b / 2), c] if bt == 1 else [0.0] * 9)
        w = [rnd.uniform(0, 1) for _ in range(n)]; s = sum(w); w = [x / s for x in w]
        base = [rnd.uniform(-3, 8) for _ in range(3)]; spread = rnd.choice([0.3, 0.3, 3.0])
        p = [base[k] + rnd.uniform(-spread, spread) + (rnd.randint(-2, 2) * bx[4 * k] if bt != 3 else 0) for i in range(n) for k in range(3)]
        vals = w + [rnd.uniform(0.5, 2) for _ in range(n)] + [rnd.uniform(1, 20) for _ in range(n)] + p + [rnd.uniform(-1, 1) for _ in range(6 * n)]
        lines.append('%d %s %d %s %d' % (n, ' '.join(float(x).hex() for x in vals), flags, ' '.join(float(x).hex() for x in bx), bt))
    rc, so, se = common.run_native(binn, '\n'.join(lines) + '\n')
    if rc != 0: raise common.EncoderError('native C01 driver failed ' + se[-300:])
    bad = 0; nrej = 0
    for ln, ol in zip(lines, [l[4:] for l in so.split('\n') if l.startswith('RES ')]):
        t = ln.split(); n = int(t[0]); f = [float.fromhex(x) for x in t[1:1 + 12 * n]]; flags = int(t[1 + 12 * n]); bx = [float.fromhex(x) for x in t[2 + 12 * n:11 + 12 * n]]; bt = int(t[11 + 12 * n])
        w, fw, m = f[0:n], f[n:2 * n], f[2 * n:3 * n]; p = f[3 * n:6 * n]; v = f[6 * n:9 * n]; fr = f[9 * n:12 * n]
        paths, _ = apply_paths(mod, n, w, fw, m, p, v, fr, flags, bx, bt, parsed, fpmode='float')
        rcm, om = paths[0][1]; o = ol.split(); nat = [float.fromhex(x) for x in o[1:]]
        nrej += rcm == -1
        ok = rcm == int(o[0]) and (rcm != 0 or all(float(a).hex() == b.hex() for a, b in zip(om, nat)))
        if not ok:
            bad += 1
            if bad < 4: print('  validation mismatch', ln[:40], rcm, om[:4], o[:5])
    ck.add_validation('interpreter(float mode) vs native build: Map_Sphere::Apply on random molecules in open/orthorhombic/triclinic boxes incl. far images and too-large molecules (%d rejected)' % nrej, len(lines), bad == 0, '%d mismatches' % bad)

def _num(v, d=0.0):
    try: return float(F(str(v).rstrip('?')))
    except Exception:
        try: return float(str(v).rstrip('?'))
        except Exception: return d

def replay_native(meta):
    """run the real Apply on the model and compare with an independent brute-force unwrapped weighted sum"""
    mdl = meta.get('model') or {}; name = meta['clause']
    import re
    m = re.search(r'n=(\d+) (open|orthorhombic|triclinic)', name)
    if not m: return True, 'model %s (no native replay for this clause)' % str(mdl)[:200]
    n = int(m.group(1)); bname = m.group(2)
    fl = re.search(r'flags\(pos,vel,F\)=(\d)(\d)(\d)', name); flags = (int(fl.group(1)) | int(fl.group(2)) << 1 | int(fl.group(3)) << 2) if fl else 1
    g = lambda k, d=0.0: _num(mdl.get(k), d)
    w = [g('w%d' % i, 1.0 / n) for i in range(n)]; fw = [g('fw%d' % i, 1.0) for i in range(n)]; ms = [g('m%d' % i, 1.0) for i in range(n)]
    pos = [g('p%d_%d' % (i, k)) for i in range(n) for k in range(3)]; vel = [g('v%d_%d' % (i, k)) for i in range(n) for k in range(3)]; frc = [g('f%d_%d' % (i, k)) for i in range(n) for k in range(3)]
    if bname == 'orthorhombic': bx = [g('L0', 1), 0, 0, 0, g('L1', 1), 0, 0, 0, g('L2', 1)]; bt = 2
    elif bname == 'triclinic': bx = [g('ax', 1), 0, 0, g('bx'), g('by', 1), 0, g('cx'), g('cy'), g('cz', 1)]; bt = 1
    else: bx = [0.0] * 9; bt = 3
    src = os.path.join(common.workdir(), 'c01rep.cc')
    open(src, 'w').write('#include "%s"\n#include <cstdio>\n#include <cstdlib>\nint main(int c,char**a){ long n=atol(a[1]); double v[200]; for(int i=0;i<c-2;i++) v[i]=atof(a[i+2]); double* w=v; double* fw=v+n; double* m=v+2*n; double* p=v+3*n; double* ve=v+6*n; double* f=v+9*n; long flags=(long)v[12*n]; double* bx=v+12*n+1; long bt=(long)v[12*n+10]; double out[14]={0}; long rc=h_apply(n,w,fw,m,p,ve,f,flags,bx,bt,out); printf("\\nRES %%ld",rc); for(int i=0;i<14;i++) printf(" %%.17g",out[i]); printf("\\n"); }\n' % common.harness_path(HARNESS))
    b = common.native_build([src], 'C01_rep', extra=['-I' + common.REPO], libs=common.votca_libs() + ['-lexpat'])
    args = [str(n)] + [repr(float(x)) for x in w + fw + ms + pos + vel + frc] + [str(flags)] + [repr(float(x)) for x in bx] + [str(bt)]
    rc, so, se = common.run_native(b, args=args)
    t = [l for l in so.split('\n') if l.startswith('RES ')][0].split()[1:]; rcn = int(t[0]); o = [float(x) for x in t[1:]]
    # brute-force reference
    cols = [bx[0:3], bx[3:6], bx[6:9]]
    def mic(d):
        if bt == 3: return d
        best = None
        for a_ in range(-4, 5):
            for b_ in range(-4, 5):
                for c_ in range(-4, 5):
                    v = [d[k] + a_ * cols[0][k] + b_ * cols[1][k] + c_ * cols[2][k] for k in range(3)]
                    l = sum(x * x for x in v)
                    if best is None or l < best[0]: best = (l, v)
        return best[1]
    r0 = pos[0:3]; exp = [0.0] * 3; far = 0.0
    for i in range(n):
        sc = mic([pos[3 * i + k] - r0[k] for k in range(3)]); far = max(far, math.sqrt(sum(x * x for x in sc)))
        for k in range(3): exp[k] += w[i] * (r0[k] + sc[k])
    if bt != 3:
        import numpy as np
        M = np.array(cols).T; det = abs(np.linalg.det(M)); hs = [det / np.linalg.norm(np.cross(cols[(m_ + 1) % 3], cols[(m_ + 2) % 3])) for m_ in range(3)]; hmin = min(hs)
    else: hmin = float('inf')
    should_reject = far > 0.5 * hmin * (1 + 1e-12)
    if rcn == -1: return (not should_reject) and far < 0.5 * hmin * (1 - 1e-9), 'real Apply rejects; largest parent distance %.6g, half shortest box height %.6g' % (far, hmin / 2)
    if should_reject and far > 0.5 * hmin * (1 + 1e-9): return True, 'real Apply maps silently although a parent is %.6g from the first parent (half shortest box height %.6g)' % (far, hmin / 2)
    bad = False; why = []
    if flags & 1 and any(abs(o[1 + k] - exp[k]) > 1e-9 * max(1, abs(exp[k])) for k in range(3)): bad = True; why.append('position %s vs weighted image-aware sum %s' % (o[1:4], exp))
    if abs(o[0] - sum(ms)) > 1e-9 * max(1, abs(sum(ms))): bad = True; why.append('mass %r vs %r' % (o[0], sum(ms)))
    if flags & 2:
        ev = [sum(w[i] * vel[3 * i + k] for i in range(n)) for k in range(3)]
        if any(abs(o[4 + k] - ev[k]) > 1e-9 * max(1, abs(ev[k])) for k in range(3)): bad = True; why.append('velocity %s vs %s' % (o[4:7], ev))
    if flags & 4:
        ef = [sum(fw[i] * frc[3 * i + k] for i in range(n)) for k in range(3)]
        if any(abs(o[7 + k] - ef[k]) > 1e-9 * max(1, abs(ef[k])) for k in range(3)): bad = True; why.append('force %s vs %s' % (o[7:10], ef))
    if int(o[13]) != n: bad = True; why.append('%d parents recorded, %d expected' % (int(o[13]), n))
    return bad, '; '.join(why) or 'native result agrees with the brute-force reference'

def do_replay(path):
    meta = json.load(open(os.path.join(path, 'input.json')))
    ok, why = replay_native(meta)
    print('replay: %s (%s)' % ('reproduced' if ok else 'not reproduced', why))
    if ok: print('VIOLATION property=C01 replay=%s' % path); return 1
    return 0

if __name__ == '__main__':
    sys.exit(common.main_wrapper('C01', check_c01))
