# C15 — classical multipole interactions: symmetry, point-charge limit, translation, field = dE/dmu, Thole tensor (E2 + algebra)
import math, sys, os, json, time, itertools, random, math
from fractions import Fraction as F
import z3
import common, llir, symx, models, smt
from symx import Ptr, alloc_doubles, read_doubles, explore
from algz import Algebra, TermCap

HARNESS = 'C15_ee.cc'

def energy(mod, pA, QA, rA, pB, QB, rB, parsed, assume=()):
    def body(it):
        for c in assume: it.assume(c)
        a = alloc_doubles(it, 'pA', pA); qa = alloc_doubles(it, 'QA', QA); b = alloc_doubles(it, 'pB', pB); qb = alloc_doubles(it, 'QB', QB)
        return it.call('@h_energy', [a, qa, rA, b, qb, rB])
    res, st = explore(mod, models.all_models(), body, parsed=parsed)
    return [(list(it.pc), e) for it, e in res], st

def nonneg(pc):
    def f(e):
        return smt.check(list(pc) + [e < 0], 10)[0] == 'unsat'
    return f

def check_c15(ck, tier, replay=None):
    if replay: print('re-run ./check C15'); return 0
    TO = 120 if tier == 'quick' else 900
    ir, dt = common.compile_ir(common.harness_path(HARNESS), extra=['-I' + common.REPO])
    mod = llir.parse_module(ir)
    ck.units += ['xtp/src/libxtp/eeinteractor.cc (VSiteA<4>, VSiteA<9>, CalcStaticEnergy_site, ApplyStaticField_site, FillTholeInteraction)', 'xtp/include/votca/xtp/staticsite.h, polarsite.h accessors']
    ck.functions.update(common.ir_func_sizes(mod, r'^@h_|eeInteractor'))
    ck.assumptions += ['doubles as exact reals; 1/R through the canonical radical of |r|^2; sqrt(3) (folded by the compiler) as the radical with square 3; exp as a canonical symbol', 'site objects are raw storage with position, rank and the nine spherical components set by the harness',
                       'distinct positions (R > 0); ranks 0,1,2 per site', 'rotations: the three coordinate-axis rotations with symbolic angle (generators of SO(3)) about the origin, applied to both sites by the real StaticSite::Rotate, after an arbitrary common translation; convergence to point-charge clusters (a limit) is replaced by the exact Cartesian-expansion oracle']
    validate(ck, mod)
    parsed = {}; found = []
    x = [z3.Real('x%d' % i) for i in range(3)]; t = [z3.Real('t%d' % i) for i in range(3)]
    QA = [z3.Real('qa%d' % i) for i in range(9)]; QB = [z3.Real('qb%d' % i) for i in range(9)]
    zero3 = [F(0)] * 3
    def mask(Q, rank): n = {0: 1, 1: 4, 2: 9}[rank]; return Q[:n] + [F(0)] * (9 - n)
    pairs = [(a, b) for a in range(3) for b in range(3)]
    if tier == 'quick': pairs = [(0, 0), (1, 0), (0, 1), (1, 1), (2, 0), (0, 2), (2, 1), (1, 2), (2, 2)]
    for rA, rB in pairs:
        qa = mask(QA, rA); qb = mask(QB, rB)
        eAB, st = energy(mod, zero3, qa, rA, x, qb, rB, parsed); ck.stubs |= st['models_used']
        eBA, _ = energy(mod, x, qb, rB, zero3, qa, rA, parsed)
        ck.add_witness('ranks (%d,%d): energy evaluated (%d/%d paths)' % (rA, rB, len(eAB), len(eBA)), len(eAB) >= 1 and len(eBA) >= 1)
        for (pc1, e1), (pc2, e2) in itertools.product(eAB, eBA):
            A = Algebra(nonneg_check=nonneg(pc1 + pc2))
            try:
                A.prove_equal(ck, 'ranks (%d,%d): E(A,B) = E(B,A) for all positions and moments' % (rA, rB), A.rf(e1), A.rf(e2), pc1 + pc2, TO)
            except TermCap as e:
                ck.inconc('ranks (%d,%d) symmetry: %s' % (rA, rB), e)
        # translation invariance: both sites shifted by t
        eT, _ = energy(mod, t, qa, rA, [x[i] + t[i] for i in range(3)], qb, rB, parsed)
        for (pc1, e1), (pc2, e2) in itertools.product(eAB, eT):
            A = Algebra(nonneg_check=nonneg(pc1 + pc2))
            try: A.prove_equal(ck, 'ranks (%d,%d): energy unchanged by a common translation' % (rA, rB), A.rf(e1), A.rf(e2), pc1 + pc2, TO)
            except TermCap as e: ck.inconc('ranks (%d,%d) translation: %s' % (rA, rB), e)
        if (rA, rB) == (0, 0):
            for pc1, e1 in eAB:
                A = Algebra(nonneg_check=nonneg(pc1))
                R = A.rf(models.UF['sqrt'](x[0] * x[0] + x[1] * x[1] + x[2] * x[2]))
                A.prove_equal(ck, 'two charges: E = q1 q2 / R', A.rf(e1), A.rf(QA[0]) * A.rf(QB[0]) / R, pc1, TO)
            ck.sample({'unit': 'CalcStaticEnergy_site ranks (0,0)', 'energy': str(eAB[0][1])[:200]})
        # rotation: both sites (positions and moments) rotated by the real StaticSite::Rotate about each coordinate axis with symbolic (cos, sin)
        rc_, rs_ = z3.Reals('rc rs')
        for axis in range(3):
            if tier == 'quick' and (rA, rB) in ((2, 2),) and axis != 2: continue
            c_, s_ = rc_, rs_
            Rm = {2: [c_, -s_, 0, s_, c_, 0, 0, 0, 1], 0: [1, 0, 0, 0, c_, -s_, 0, s_, c_], 1: [c_, 0, s_, 0, 1, 0, -s_, 0, c_]}[axis]
            Rm = [z3.RealVal(v) if isinstance(v, int) else v for v in Rm]
            def bodyr(it):
                it.assume(c_ * c_ + s_ * s_ == 1)
                a = alloc_doubles(it, 'pA', t); qa_ = alloc_doubles(it, 'QA', qa); b = alloc_doubles(it, 'pB', [x[i] + t[i] for i in range(3)]); qb_ = alloc_doubles(it, 'QB', qb); r_ = alloc_doubles(it, 'R', Rm)
                return it.call('@h_energy_rot', [a, qa_, rA, b, qb_, rB, r_])
            resr, _ = explore(mod, models.all_models(), bodyr, parsed=parsed)
            for (pc1, e1), (itr, e2) in itertools.product(eT, resr):
                pc = pc1 + list(itr.pc)
                A = Algebra(nonneg_check=nonneg(pc)); A.relation('rc', A.rf(1 - s_ * s_))
                try: A.prove_equal(ck, 'ranks (%d,%d): energy unchanged when both sites, with their moments, are rotated about the %s axis (StaticSite::Rotate, symbolic angle)' % (rA, rB, 'xyz'[axis]), A.rf(e1), A.rf(e2), pc, TO)
                except TermCap as e: ck.inconc('ranks (%d,%d) rotation: %s' % (rA, rB, e))
    # ---- independent oracle: the Cartesian multipole expansion, E = [qB + muB.grad + Theta_B:grad grad/3][qA - muA.grad + Theta_A:grad grad/3] (1/R),
    #      with the traceless quadrupoles obtained from the library's own CalculateCartesianMultipole and the derivatives of 1/R taken by AD
    def cart(Q, rank):
        def body(it):
            q = alloc_doubles(it, 'Q', Q); out = alloc_doubles(it, 'out', [F(0)] * 9); it.call('@h_cart', [q, rank, out]); return read_doubles(it, out, 9)
        r, _ = explore(mod, models.all_models(), body, parsed=parsed); return r[0][1]
    for rA, rB in pairs:
        qa = mask(QA, rA); qb = mask(QB, rB)
        eAB, _ = energy(mod, zero3, qa, rA, x, qb, rB, parsed)
        thA = cart(qa, rA); thB = cart(qb, rB)
        for pc1, e1 in eAB:
            A = Algebra(nonneg_check=nonneg(pc1))
            try:
                T = A.rf(z3.RealVal(1)) / A.rf(models.UF['sqrt'](x[0] * x[0] + x[1] * x[1] + x[2] * x[2]))
                D = lambda f, k: A.total_deriv(f, 'x%d' % k)
                def op(f, q, mu, th, sign):
                    r = A.rf(q) * f
                    for k in range(3):
                        if not (isinstance(mu[k], F) and mu[k] == 0): r = r + A.rf(z3.RealVal(sign)) * A.rf(mu[k]) * D(f, k)
                    if any(not (isinstance(v, F) and v == 0) for v in th):
                        for i in range(3):
                            di = D(f, i)
                            for j in range(3):
                                r = r + A.rf(z3.RealVal(F(1, 3))) * A.rf(th[3 * i + j]) * D(di, j)
                    return r
                VA = op(T, qa[0], qa[1:4], thA, -1)              # potential of A's multipoles (A at the origin) at r
                Eref = op(VA, qb[0], qb[1:4], thB, +1)           # energy of B's multipoles in that potential
                A.prove_equal(ck, 'ranks (%d,%d): energy = Cartesian multipole expansion from derivatives of 1/R (independent oracle)' % (rA, rB), A.rf(e1), Eref, pc1, TO)
            except TermCap as e: ck.inconc('ranks (%d,%d) oracle: %s' % (rA, rB, e))
    # ---- field on the polarisable site = derivative of the pair energy with respect to its dipole components ----
    for r1, r2 in ((0, 1), (1, 1), (2, 1), (2, 2)) if tier == 'quick' else pairs:
        if r2 < 1: continue
        q1 = mask(QA, r1); q2 = mask(QB, r2)
        def body(it):
            a = alloc_doubles(it, 'p1', zero3); qa_ = alloc_doubles(it, 'Q1', q1); b = alloc_doubles(it, 'p2', x); qb_ = alloc_doubles(it, 'Q2', q2); out = alloc_doubles(it, 'out', [F(0)] * 4)
            it.call('@h_field', [a, qa_, r1, b, qb_, r2, out]); return read_doubles(it, out, 4)
        res, st = explore(mod, models.all_models(), body, parsed=parsed)
        for it, o in res:
            pc = list(it.pc); A = Algebra(nonneg_check=nonneg(pc))
            try:
                E = A.rf(o[3])
                # Q_ layout: Q00, Q11c(x), Q11s(y), Q10(z): the dipole slots 1..3 are (x, y, z)
                for k in range(3):
                    A.prove_equal(ck, 'ranks (%d,%d): field component %d accumulated on site 2 = dE/d(mu2_%d)' % (r1, r2, k, k), A.rf(o[k]), A.total_deriv(E, 'qb%d' % (1 + k)), pc, TO)
            except TermCap as e: ck.inconc('field ranks (%d,%d): %s' % (r1, r2, e))
    # ---- Thole damped dipole-dipole tensor ----
    dA, dB, ex = z3.Reals('dampA dampB expdamp')
    def tb(it):
        it.assume(z3.And(dA > 0, dB > 0, ex > 0))
        a = alloc_doubles(it, 'pA', zero3); b = alloc_doubles(it, 'pB', x); out = alloc_doubles(it, 'out', [F(0)] * 9)
        it.call('@h_thole', [a, b, dA, dB, ex, out]); return read_doubles(it, out, 9)
    res, st = explore(mod, models.all_models(), tb, parsed=parsed); ck.stubs |= st['models_used']
    ck.add_witness('Thole tensor: damped and undamped branch explored (%d paths)' % len(res), len(res) == 2)
    # exchange of the two sites: T(B,A) = T(A,B)^T for different polarisabilities
    def tb2(it):
        it.assume(z3.And(dA > 0, dB > 0, ex > 0))
        a = alloc_doubles(it, 'pA', zero3); b = alloc_doubles(it, 'pB', x); out = alloc_doubles(it, 'out', [F(0)] * 9)
        it.call('@h_thole', [b, a, dB, dA, ex, out]); return read_doubles(it, out, 9)
    res2, _ = explore(mod, models.all_models(), tb2, parsed=parsed)
    for (it1, T1), (it2, T2) in itertools.product(res, res2):
        pc = list(it1.pc) + list(it2.pc)
        if smt.check(smt.purify(pc), 20)[0] == 'unsat': continue      # different damping branches cannot both be taken
        A = Algebra(nonneg_check=nonneg(pc))
        for i in range(3):
            for j in range(3):
                A.prove_equal(ck, 'Thole tensor under exchange of the sites: T(B,A)[%d][%d] = T(A,B)[%d][%d] (different polarisabilities)' % (i, j, j, i), A.rf(T2[3 * i + j]), A.rf(T1[3 * j + i]), pc, TO)
    for it, T in res:
        pc = list(it.pc); A = Algebra(nonneg_check=nonneg(pc))
        Tr = [A.rf(v) for v in T]
        for i, j in ((0, 1), (0, 2), (1, 2)):
            A.prove_equal(ck, 'Thole tensor symmetric T[%d][%d] = T[%d][%d] (%s branch)' % (i, j, j, i, 'damped' if A.exp else 'undamped'), Tr[3 * i + j], Tr[3 * j + i], pc, TO)
        if not A.exp:
            # undamped (au3 >= 40): traceless and equal to the bare dipole tensor (delta - 3 a a^T)/R^3
            A.prove_equal(ck, 'Thole tensor, undamped branch: traceless', Tr[0] + Tr[4] + Tr[8], A.rf(z3.RealVal(0)), pc, TO)
            R2 = x[0] * x[0] + x[1] * x[1] + x[2] * x[2]; Rr = A.rf(models.UF['sqrt'](R2)); R3 = Rr * Rr * Rr; R5 = R3 * Rr * Rr
            for i in range(3):
                for j in range(i, 3):
                    bare = (A.rf(z3.RealVal(1 if i == j else 0)) / R3) - A.rf(z3.RealVal(3)) * A.rf(x[i]) * A.rf(x[j]) / R5
                    A.prove_equal(ck, 'Thole tensor, undamped branch: T[%d][%d] = delta/R^3 - 3 r_i r_j / R^5' % (i, j), Tr[3 * i + j], bare, pc, TO)
        else:
            # damped branch tends to the undamped tensor as exp(-a u^3) -> 0: identity after setting the exp symbol to zero
            esym = list(A.exp.keys())[0]
            R2 = x[0] * x[0] + x[1] * x[1] + x[2] * x[2]; Rr = A.rf(models.UF['sqrt'](R2)); R3 = Rr * Rr * Rr; R5 = R3 * Rr * Rr
            for i in range(3):
                for j in range(i, 3):
                    bare = (A.rf(z3.RealVal(1 if i == j else 0)) / R3) - A.rf(z3.RealVal(3)) * A.rf(x[i]) * A.rf(x[j]) / R5
                    P = A.residual(Tr[3 * i + j], bare)
                    P0 = type(P)({m: c for m, c in P.t.items() if esym not in dict(m)})      # coefficient of exp^0
                    smt.prove(ck, 'Thole tensor, damped branch: T[%d][%d] -> undamped tensor as the damping exponential -> 0' % (i, j), A.definitions() + pc, [A.poly_z3(P0) != 0], TO, probe=[z3.Real('free') != 0])
    ck.bounds.update({'positions': 'site A at the origin, site B anywhere (R>0); translation clause with a common symbolic shift', 'moments': 'all real values of the 9 spherical components per site', 'ranks': str(pairs), 'term cap': 200000})
    for o in ck.obl:
        if o['status'] == 'sat':
            rep = common.write_replay('C15', o['name'], {}, {'obligation': o['name'], 'model': (o.get('detail') or {}).get('model')})
            ok, why = replay_native(o['name'], (o.get('detail') or {}).get('model') or {})
            ck.violation('C15 ' + o['name'].split(':')[0] + ':' + o['name'].split(':')[1][:40] if ':' in o['name'] else 'C15 ' + o['name'][:60], o['name'] + ' ; ' + why, rep, reproduced=ok)

def _num(v, d=0.0):
    try: return float(F(str(v).rstrip('?')))
    except Exception:
        try: return float(str(v).rstrip('?'))
        except Exception: return d

def native_bin():
    src = os.path.join(common.workdir(), 'c15drv.cc')
    open(src, 'w').write('#include "%s"\n#include <cstdio>\nint main(){ char c[8]; while(scanf("%%7s",c)==1){ double pa[3],qa[9],pb[3],qb[9],out[4]; long ra,rb; for(int i=0;i<3;i++) scanf("%%la",&pa[i]); for(int i=0;i<9;i++) scanf("%%la",&qa[i]); scanf("%%ld",&ra); for(int i=0;i<3;i++) scanf("%%la",&pb[i]); for(int i=0;i<9;i++) scanf("%%la",&qb[i]); scanf("%%ld",&rb); if(c[0]==\'e\') printf("%%a\\n",h_energy(pa,qa,ra,pb,qb,rb)); else { h_field(pa,qa,ra,pb,qb,rb,out); printf("%%a %%a %%a %%a\\n",out[0],out[1],out[2],out[3]); } } }\n' % common.harness_path(HARNESS))
    return common.native_build([src], 'C15_native', extra=['-I' + common.REPO], defs=['VERIF_NO_CART'], cxx=common.CLANG)

def validate(ck, mod):
    rnd = random.Random(common.SEED); parsed = {}
    binn = native_bin(); lines = []
    for _ in range(40):
        ra, rb = rnd.randint(0, 2), rnd.randint(0, 2)
        vals = [rnd.uniform(-3, 3) for _ in range(3)] + [rnd.uniform(-1, 1) for _ in range(9)] + [ra] + [rnd.uniform(4, 9) * rnd.choice([-1, 1]) for _ in range(3)] + [rnd.uniform(-1, 1) for _ in range(9)] + [rb]
        lines.append('e ' + ' '.join(float(v).hex() if not isinstance(v, int) else str(v) for v in vals))
    rc, so, se = common.run_native(binn, '\n'.join(lines) + '\n')
    if rc != 0: raise common.EncoderError('native C15 driver failed ' + se[-300:])
    bad = 0
    for ln, ol in zip(lines, so.strip().split('\n')):
        t = ln.split()[1:]; pa = [float.fromhex(v) for v in t[0:3]]; qa = [float.fromhex(v) for v in t[3:12]]; ra = int(t[12]); pb = [float.fromhex(v) for v in t[13:16]]; qb = [float.fromhex(v) for v in t[16:25]]; rb = int(t[25])
        def body(it):
            a = alloc_doubles(it, 'pA', pa); qa_ = alloc_doubles(it, 'QA', qa); b = alloc_doubles(it, 'pB', pb); qb_ = alloc_doubles(it, 'QB', qb); return it.call('@h_energy', [a, qa_, ra, b, qb_, rb])
        res, _ = explore(mod, models.all_models(), body, fpmode='float', parsed=parsed)
        mine = res[0][1]; nat = float.fromhex(ol.split()[0])
        if not (mine == nat or abs(mine - nat) <= 4e-16 * max(abs(nat), 1e-300) * 8):
            bad += 1
            if bad < 4: print('  validation mismatch', mine, nat)
    ck.add_validation('interpreter(float mode) vs native build: CalcStaticEnergy_site on 40 random site pairs of all rank combinations (8 ulp tolerance for libm pow/sqrt)', len(lines), bad == 0, '%d mismatches' % bad)

def replay_native(name, mdl):
    """native evaluation of the violated identity on the model"""
    import re
    m = re.match(r'ranks \((\d),(\d)\): (.*)', name)
    if not m: return True, 'model %s' % str(mdl)[:200]
    ra, rb, clause = int(m.group(1)), int(m.group(2)), m.group(3)
    g = lambda k, d=0.0: _num(mdl.get(k), d)
    x = [g('x%d' % i, 1.0 + i) for i in range(3)]; qa = [g('qa%d' % i) for i in range(9)]; qb = [g('qb%d' % i) for i in range(9)]
    na = {0: 1, 1: 4, 2: 9}; qa = qa[:na[ra]] + [0.0] * (9 - na[ra]); qb = qb[:na[rb]] + [0.0] * (9 - na[rb])
    binn = native_bin()
    def E(pa, qa_, ra_, pb, qb_, rb_):
        rc, so, se = common.run_native(binn, 'e ' + ' '.join(float(v).hex() for v in pa + qa_) + ' %d ' % ra_ + ' '.join(float(v).hex() for v in pb + qb_) + ' %d\n' % rb_); return float.fromhex(so.split()[0])
    if 'E(A,B) = E(B,A)' in clause:
        e1 = E([0.0] * 3, qa, ra, x, qb, rb); e2 = E(x, qb, rb, [0.0] * 3, qa, ra)
        return abs(e1 - e2) > 1e-9 * max(1, abs(e1), abs(e2)), 'E(A,B) = %.12g, E(B,A) = %.12g at r = %s' % (e1, e2, x)
    if 'rotated about' in clause:
        ax = re.search(r'about the (\w) axis', clause).group(1); c = g('rc', 0.6); s_ = g('rs', 0.8); n = math.hypot(c, s_) or 1.0; c, s_ = c / n, s_ / n
        R = {'z': [c, -s_, 0, s_, c, 0, 0, 0, 1], 'x': [1, 0, 0, 0, c, -s_, 0, s_, c], 'y': [c, 0, s_, 0, 1, 0, -s_, 0, c]}[ax]
        tt = [g('t%d' % i, 0.3) for i in range(3)]
        src = os.path.join(common.workdir(), 'c15rot.cc')
        open(src, 'w').write('#include "%s"\n#include <cstdio>\nint main(){ double pa[3],qa[9],pb[3],qb[9],R[9]; long ra,rb; for(int i=0;i<3;i++) scanf("%%la",&pa[i]); for(int i=0;i<9;i++) scanf("%%la",&qa[i]); scanf("%%ld",&ra); for(int i=0;i<3;i++) scanf("%%la",&pb[i]); for(int i=0;i<9;i++) scanf("%%la",&qb[i]); scanf("%%ld",&rb); for(int i=0;i<9;i++) scanf("%%la",&R[i]); printf("%%a %%a\\n", h_energy(pa,qa,ra,pb,qb,rb), h_energy_rot(pa,qa,ra,pb,qb,rb,R)); }\n' % common.harness_path(HARNESS))
        binr = common.native_build([src], 'C15_native_rot', extra=['-I' + common.REPO, '-I/usr/include/hdf5/serial'], libs=common.votca_libs(csg=False) + ['-lhdf5_serial_cpp', '-lhdf5_serial'])
        rc, so, se = common.run_native(binr, ' '.join(float(v).hex() for v in tt + qa) + ' %d ' % ra + ' '.join(float(v).hex() for v in [x[i] + tt[i] for i in range(3)] + qb) + ' %d ' % rb + ' '.join(float(v).hex() for v in R) + '\n')
        e1, e2 = [float.fromhex(v) for v in so.split()]
        return abs(e1 - e2) > 1e-9 * max(1, abs(e1), abs(e2)), 'native: E = %.12g, after StaticSite::Rotate of both sites about %s by (cos, sin) = (%.6g, %.6g): %.12g' % (e1, ax, c, s_, e2)
    if 'translation' in clause:
        tt = [g('t%d' % i, 0.7) for i in range(3)]
        e1 = E([0.0] * 3, qa, ra, x, qb, rb); e2 = E(tt, qa, ra, [x[i] + tt[i] for i in range(3)], qb, rb)
        return abs(e1 - e2) > 1e-9 * max(1, abs(e1)), 'E = %.12g, after translation by %s: %.12g' % (e1, tt, e2)
    if 'field component' in clause:
        k = int(re.search(r'component (\d)', clause).group(1)); h = 1e-6
        rc, so, se = common.run_native(binn, 'f ' + ' '.join(float(v).hex() for v in [0.0] * 3 + qa) + ' %d ' % ra + ' '.join(float(v).hex() for v in x + qb) + ' %d\n' % rb); V = [float.fromhex(v) for v in so.split()]
        qp = list(qb); qm = list(qb); qp[1 + k] += h; qm[1 + k] -= h
        fd = (E([0.0] * 3, qa, ra, x, qp, rb) - E([0.0] * 3, qa, ra, x, qm, rb)) / (2 * h)
        return abs(fd - V[k]) > 1e-6 * max(1, abs(fd)), 'field component %d = %.9g, finite-difference dE/dmu = %.9g' % (k, V[k], fd)
    return True, 'model %s' % str(mdl)[:200]

if __name__ == '__main__':
    sys.exit(common.main_wrapper('C15', check_c15))
