# C14 — KMC destination lookup is rate-proportional; Marcus rates obey detailed balance; waiting time is the inverse CDF (E2)
import sys, os, json, time, random, math, itertools
from fractions import Fraction as F
import multiprocessing as mp
import z3
import common, llir, symx, models, smt
from symx import Ptr, alloc_doubles, read_doubles, explore, is_sym
from algz import Algebra

HARNESS = 'C14_kmc.cc'

def mentions(e, p):
    stack = [e]; seen = set()
    while stack:
        x = stack.pop()
        if x.get_id() in seen: continue
        seen.add(x.get_id())
        if x.eq(p): return True
        stack.extend(x.children())
    return False

def tree_paths(mod, fn, nargs, rates, p, parsed, max_paths):
    def body(it):
        for r in rates: it.assume(r > 0)
        it.assume(p >= 0); it.assume(p <= 1)
        ra = alloc_doubles(it, 'rates', rates); esc = alloc_doubles(it, 'esc', [F(0)])
        idx = it.call('@' + fn, list(nargs) + [ra, p, esc])
        return symx.sgn64(idx), read_doubles(it, esc, 1)[0]
    return explore(mod, models.all_models(), body, parsed=parsed, max_paths=max_paths)

def interval_of(pc, p):
    """Each descent path is lo < p <= hi ; thresholds are rational functions of the rates."""
    lo = z3.RealVal(0); hi = z3.RealVal(1); los = []; his = []
    for a in pc:
        if not mentions(a, p): continue
        neg = False
        while z3.is_not(a): neg = not neg; a = a.arg(0)
        k = a.decl().kind()
        if not a.arg(0).eq(p): raise common.Inconclusive('unexpected atom over p: %s' % a)
        thr = a.arg(1)
        if k == z3.Z3_OP_GT: is_lo = not neg
        elif k == z3.Z3_OP_LE: is_lo = neg
        elif k == z3.Z3_OP_GE:
            if neg: raise common.Inconclusive('unexpected atom over p: %s' % a)
            continue            # p >= 0 (domain)
        elif k == z3.Z3_OP_LT: raise common.Inconclusive('unexpected strict atom over p: %s' % a)
        else: raise common.Inconclusive('unexpected atom over p: %s' % a)
        (los if is_lo else his).append(thr)
    for t in los: lo = z3.If(t > lo, t, lo)
    for t in his: hi = z3.If(t < hi, t, hi)
    return lo, hi

def shape_queries(res, rates, p, n):
    """group paths by tree shape (path-condition atoms not mentioning p) and build the measure obligations"""
    groups = {}
    for it, (idx, esc) in res:
        shape = tuple(str(a) for a in it.pc if not mentions(a, p))
        groups.setdefault(shape, []).append((it, idx, esc))
    S = sum(rates[1:], rates[0])
    jobs = []
    for gi, (shape, items) in enumerate(groups.items()):
        shape_pc = [a for a in items[0][0].pc if not mentions(a, p)]
        meas = {}; cover = []
        for it, idx, esc in items:
            lo, hi = interval_of(it.pc, p)
            ln = z3.If(hi > lo, hi - lo, z3.RealVal(0))
            meas[idx] = meas.get(idx, z3.RealVal(0)) + ln
            cover.append(z3.And(p > lo, p <= hi))
        jobs.append((('esc', gi), shape_pc + [items[0][2] != S]))
        for e in range(n):
            jobs.append((('meas', gi, e), shape_pc + [meas.get(e, z3.RealVal(0)) * S != rates[e]]))
        # every p in (0,1] selects some event (p=0 is covered because the explored paths include the closed end via p>=0)
        jobs.append((('cover', gi), shape_pc + [p > 0, p <= 1, z3.Not(z3.Or(cover))]))
        bad_idx = [idx for _, idx, _ in items if not (0 <= idx < n)]
        if bad_idx: jobs.append((('index', gi), shape_pc))      # sat => an out-of-range event index is reachable
    return groups, jobs

def trees(ck, mod, tier, parsed):
    NMAX = 4 if tier == 'quick' else 5
    p = z3.Real('p'); found = []
    for n in range(1, NMAX + 1):
        rates = [z3.Real('r%d' % i) for i in range(n)]
        t0 = time.time()
        res, st = tree_paths(mod, 'h_tree', [n], rates, p, parsed, 200000); ck.stubs |= st['models_used']
        groups, jobs = shape_queries(res, rates, p, n)
        out = smt.parallel_check(jobs, timeout_s=60 if tier == 'quick' else 300)
        nun = sum(1 for v in out.values() if v[0] == 'unsat'); bad = {k: v for k, v in out.items() if v[0] != 'unsat'}
        dt = sum(v[1] for v in out.values())
        ck.add_witness('n=%d events: %d paths, %d tree shapes' % (n, len(res), len(groups)), len(res) >= n)
        for cls, label in (('meas', 'each event is selected for a set of p of total length rate/escape_rate'), ('esc', 'escape rate = sum of event rates'), ('cover', 'every p in [0,1] selects some event'), ('index', 'selected index is a valid event')):
            ks = [k for k in out if k[0] == cls]
            if not ks: continue
            b = [k for k in ks if out[k][0] != 'unsat']
            st_ = 'unsat' if not b else ('sat' if any(out[k][0] == 'sat' for k in b) else 'unknown')
            ck.obligation('huffman tree n=%d: %s (%d queries over %d shapes)' % (n, label, len(ks), len(groups)), st_, sum(out[k][1] for k in ks), True, {'model': out[b[0]][2], 'query': str(b[0])} if b else None)
            if st_ == 'sat': found.append(('tree', n, cls, out[[k for k in b if out[k][0] == 'sat'][0]][2]))
        ck.extra.setdefault('tree_stats', []).append({'n': n, 'paths': st['paths'], 'feasible': len(res), 'shapes': len(groups), 'queries': len(jobs), 'instructions': st['instructions'], 'explore_s': st['time_s'], 'solve_s': round(dt, 2)})
        if n == 3: ck.sample({'unit': 'huffmanTree::makeTree + findHoppingDestination', 'n': 3, 'shape_example': [str(a)[:120] for a in res[0][0].pc][:6], 'selected': res[0][1][0]})
    # tree built twice (decay events added after the first build)
    for n1, n2 in ((2, 1), (1, 2)) if tier == 'quick' else ((2, 1), (1, 2), (2, 2), (3, 1)):
        n = n1 + n2; rates = [z3.Real('r%d' % i) for i in range(n)]
        res, st = tree_paths(mod, 'h_tree2', [n1, n2], rates, p, parsed, 200000)
        groups, jobs = shape_queries(res, rates, p, n)
        out = smt.parallel_check(jobs, timeout_s=60)
        b = [k for k in out if out[k][0] != 'unsat']
        st_ = 'unsat' if not b else ('sat' if any(out[k][0] == 'sat' for k in b) else 'unknown')
        ck.obligation('huffman tree rebuilt after adding events (%d then +%d): measure, escape rate and coverage (%d queries)' % (n1, n2, len(jobs)), st_, sum(v[1] for v in out.values()), True, {'model': out[b[0]][2], 'query': str(b[0])} if b else None)
        if st_ == 'sat': found.append(('tree2', (n1, n2), b[0][0], out[[k for k in b if out[k][0] == 'sat'][0]][2]))
    ck.bounds['huffman tree'] = 'n = 1..%d events, rates: all positive reals; p: all reals in [0,1]; all heap orderings (tree shapes) explored by forking on the priority-queue comparisons' % NMAX
    return found

# ---------------------------------------------------------------------------------------------
IN = ['E1', 'E2', 'UxXnN1', 'UxXnN2', 'UnXnN1', 'UnXnN2', 'UxNxX1', 'UxNxX2', 'lam0', 'J2', 'R0', 'R1', 'R2', 'F0', 'F1', 'F2', 'kT']
def rate_run(mod, vals, carrier, parsed, assume=()):
    def body(it):
        for c in assume: it.assume(c)
        pin = alloc_doubles(it, 'in', vals); out = alloc_doubles(it, 'out', [F(0), F(0)])
        rc = symx.sgn64(it.call('@h_rate', [pin, carrier, out])); return rc, read_doubles(it, out, 2)
    return explore(mod, models.all_models(), body, parsed=parsed)

def rates(ck, mod, tier, parsed):
    TO = 60; found = []
    v = {k: z3.Real(k) for k in IN}
    vals = [v[k] for k in IN]
    reorg12 = v['UnXnN1'] + v['UxNxX2'] + v['lam0']; reorg21 = v['UxNxX1'] + v['UnXnN2'] - v['lam0']
    dom = [v['kT'] > 0, v['J2'] > 0, reorg12 > 0, reorg21 > 0]
    # carrier types: QMStateType::statetype enumerators (Singlet, Triplet, ... Electron, Hole, ...) read from the header
    import re
    hdr = open(common.REPO + '/xtp/include/votca/xtp/qmstate.h').read()
    hdr = re.sub(r'//[^\n]*', '', hdr)
    m = re.search(r'enum\s+statetype\s*(?::\s*\w+\s*)?\{([^}]*)\}', hdr)
    names = [x.strip().split('=')[0].strip() for x in m.group(1).split(',') if x.strip()]
    charge = {'Electron': -1, 'Hole': 1}
    for cname in ('Electron', 'Hole', 'Singlet', 'Triplet'):
        if cname not in names: ck.inconc('QMStateType::%s not found' % cname); continue
        ci = names.index(cname); q = charge.get(cname, 0)
        res, st = rate_run(mod, vals, ci, parsed, dom); ck.stubs |= st['models_used']
        ok_paths = [(it, r) for it, (rc, r) in res if rc == 0]
        ck.add_witness('Rate(%s): %d path(s) return rates' % (cname, len(ok_paths)), len(ok_paths) >= 1)
        FR = v['F0'] * v['R0'] + v['F1'] * v['R1'] + v['F2'] * v['R2']
        dE = (v['E1'] + v['UxXnN1']) - (v['E2'] + v['UxXnN2'])
        dG = dE + q * FR
        for it, (k12, k21) in ok_paths:
            pc = list(it.pc)
            A = Algebra()
            a12 = A.rf(k12); a21 = A.rf(k21)
            # positivity: factors are J2>0, 1/sqrt(..)>0 (radical symbol), exp(..)>0
            smt.prove(ck, 'Marcus %s: rate12 > 0 and rate21 > 0' % cname, A.definitions() + pc, [z3.Not(z3.And(A.rf_z3(a12) > 0, A.rf_z3(a21) > 0))], TO, probe=[z3.Real('free') <= 0])
            # linear in J2: rate/J2 does not depend on J2
            for nm, a in (('rate12', a12), ('rate21', a21)):
                A.prove_equal(ck, 'Marcus %s: %s is linear in the squared coupling (d(rate/J2)/dJ2 = 0)' % (cname, nm), A.total_deriv(a / A.rf(v['J2']), 'J2'), A.rf(z3.RealVal(0)), pc, TO)
            # detailed balance with equal reorganisation energies: exponents differ by dG/kT and prefactors are equal
            eq = [reorg12 == reorg21]
            exps = sorted(A.exp.items(), key=lambda kv: int(kv[0][1:]))
            if len(exps) != 2: ck.inconc('expected two exp symbols in the Marcus rates, found %d' % len(exps)); continue
            # identify which exp symbol belongs to which rate
            e12 = [s for s, _ in exps if ('%s' % s) in str(a12.n.vars() | set(a12.d))]; e21 = [s for s, _ in exps if s in (a21.n.vars() | set(a21.d))]
            e12 = [s for s, _ in exps if s in (a12.n.vars() | set(a12.d))]
            if len(e12) != 1 or len(e21) != 1: ck.inconc('could not attribute exp symbols to the two rates'); continue
            arg12 = A.exp[e12[0]]; arg21 = A.exp[e21[0]]
            lam = z3.Real('lam'); eqs = [reorg12 == lam, reorg21 == lam, lam > 0]
            smt.prove(ck, 'Marcus %s: exponent(rate12) - exponent(rate21) = (E1-E2 + q F.R)/kT when reorg12 = reorg21' % cname, A.definitions() + pc + eqs, [(A.rf_z3(arg12) - A.rf_z3(arg21)) * v['kT'] != dG], TO,
                      probe=dom + [z3.Real('free') * v['kT'] != dG])
            # prefactors: rate/exp equal for both directions under equal reorganisation energy
            pre12 = a12 / A.rf(z3.Real(e12[0])) if False else None
            E12 = z3.Real(e12[0]); E21 = z3.Real(e21[0])
            s_, mdl = smt.prove(ck, 'Marcus %s: rate12 * exp21 = rate21 * exp12 (equal prefactors) when reorg12 = reorg21' % cname, A.definitions() + pc + eqs, [A.rf_z3(a12) * E21 != A.rf_z3(a21) * E12], TO, probe=dom + [z3.Real('free') * E21 != A.rf_z3(a21) * E12] + A.definitions())
            if cname == 'Hole': ck.sample({'unit': 'Rate_Engine::Rate (Hole)', 'rate12': str(k12)[:300]})
        # tiny reorganisation energy is rejected
        z = dict(v);
        res0, _ = rate_run(mod, vals, ci, parsed, [v['kT'] > 0, reorg12 == 0])
        ck.obligation('Marcus %s: reorganisation energy 0 is rejected with an error' % cname, 'unsat' if all(rc == -1 for _, (rc, _) in res0) and res0 else 'sat', 0.0, True)
    for o in ck.obl:
        if o['status'] == 'sat' and o['name'].startswith('Marcus'): found.append(('rate', o['name'], (o.get('detail') or {}).get('model')))
    ck.bounds['Marcus rates'] = 'all real site energies, reorganisation terms with reorg12, reorg21 > 0, J2 > 0, kT > 0, field and R in R^3; carriers Electron, Hole, Singlet, Triplet'
    return found

def waiting(ck, mod2, tier, parsed):
    """Promotetime with the RNG as a symbol u in [0,1): dt * k_tot = -log(1-u)  (inverse-CDF transform of Exp(k_tot))"""
    u = z3.Real('u'); k = z3.Real('ktot')
    M = models.all_models(); M['re:^@_ZN5votca5tools6Random12rand_uniformEv'] = lambda it, a: u
    def body(it):
        it.assume(z3.And(u >= 0, u < 1, k > 0))
        size = symx.sgn64(it.call('@h_sizeof_kmc', []))
        obj = it.alloc(size, 'kmc'); return it.call('@h_promote', [obj, k])
    res, st = explore(mod2, M, body, parsed=parsed); ck.stubs |= st['models_used'] | {'tools::Random::rand_uniform -> symbol u in [0,1)'}
    ck.add_witness('Promotetime returns', len(res) == 1)
    dt = res[0][1]
    L = models.UF['log'](1 - u)
    s_, mdl = smt.prove(ck, 'waiting time: Promotetime(k) * k = -log(1 - u) for the uniform draw u (inverse CDF of the exponential distribution)', [u >= 0, u < 1, k > 0] + list(res[0][0].pc), [dt * k != -L], 60, probe=[z3.Real('free') * k != -L, k > 0])
    return [('wait', mdl)] if s_ == 'sat' else []

def validate(ck, mod):
    rnd = random.Random(common.SEED); parsed = {}
    src = os.path.join(common.workdir(), 'c14drv.cc')
    open(src, 'w').write('#include "%s"\n#include <cstdio>\nint main(){ char c[8]; while(scanf("%%7s",c)==1){ if(c[0]==\'t\'){ long n; double r[16],p,esc; scanf("%%ld",&n); for(long i=0;i<n;i++) scanf("%%la",&r[i]); scanf("%%la",&p); long k=h_tree(n,r,p,&esc); printf("%%ld %%a\\n",k,esc);} else { double in[17],out[2]; long car; for(int i=0;i<17;i++) scanf("%%la",&in[i]); scanf("%%ld",&car); long rc=h_rate(in,car,out); printf("%%ld %%a %%a\\n",rc,out[0],out[1]); } } }\n' % common.harness_path(HARNESS))
    binn = common.native_build([src], 'C14_native', extra=['-I' + common.REPO], cxx=common.CLANG)
    lines = []
    for _ in range(60):
        n = rnd.randint(1, 6); r = [10 ** rnd.uniform(-3, 6) for _ in range(n)]
        if rnd.random() < 0.3: r = [r[0]] * n
        lines.append('t %d %s %s' % (n, ' '.join(x.hex() for x in r), rnd.choice([0.0, 1.0, rnd.random(), rnd.random()]).hex()))
    for _ in range(30):
        vals = [rnd.uniform(-1, 1) for _ in range(8)] + [rnd.uniform(0, 0.01), rnd.uniform(1e-6, 1e-2)] + [rnd.uniform(-5, 5) for _ in range(6)] + [rnd.uniform(0.0005, 0.002)]
        vals[4:8] = [rnd.uniform(0.01, 0.3) for _ in range(4)]
        lines.append('r ' + ' '.join(float(x).hex() for x in vals) + ' %d' % rnd.choice([0, 1, 2, 3]))
    rc, so, se = common.run_native(binn, '\n'.join(lines) + '\n')
    if rc != 0: raise common.EncoderError('native C14 driver failed ' + se[-300:])
    bad = 0
    for ln, ol in zip(lines, so.strip().split('\n')):
        t = ln.split(); o = ol.split()
        if t[0] == 't':
            n = int(t[1]); r = [float.fromhex(x) for x in t[2:2 + n]]; p = float.fromhex(t[2 + n])
            def body(it):
                ra = alloc_doubles(it, 'r', r); esc = alloc_doubles(it, 'esc', [0.0]); return symx.sgn64(it.call('@h_tree', [n, ra, p, esc])), read_doubles(it, esc, 1)[0]
            res, _ = explore(mod, models.all_models(), body, fpmode='float', parsed=parsed)
            mine = res[0][1]; ok = mine[0] == int(o[0]) and float(mine[1]).hex() == float.fromhex(o[1]).hex()
        else:
            vals = [float.fromhex(x) for x in t[1:18]]; car = int(t[18])
            def body(it):
                pin = alloc_doubles(it, 'in', vals); out = alloc_doubles(it, 'out', [0.0, 0.0]); rc = symx.sgn64(it.call('@h_rate', [pin, car, out])); return rc, read_doubles(it, out, 2)
            res, _ = explore(mod, models.all_models(), body, fpmode='float', parsed=parsed)
            mine = res[0][1]; nat = [float.fromhex(x) for x in o[1:]]
            ok = mine[0] == int(o[0]) and (mine[0] != 0 or all(abs(a - b) <= 4e-16 * abs(b) for a, b in zip(mine[1], nat)))
        if not ok:
            bad += 1
            if bad < 4: print('  validation mismatch', ln[:60], mine, o)
    ck.add_validation('interpreter(float mode) vs native build: GNode/huffmanTree destination lookup (60 event lists incl. equal rates, p in {0,1,random}) and Rate_Engine::Rate (30 parameter sets)', len(lines), bad == 0, '%d mismatches' % bad)

def check_c14(ck, tier, replay=None):
    if replay: return do_replay(replay)
    ir, dt = common.compile_ir(common.harness_path(HARNESS), extra=['-I' + common.REPO])
    mod = llir.parse_module(ir)
    ck.units += ['xtp/include/votca/xtp/huffmantree.h', 'xtp/src/libxtp/gnode.cc (AddDecayEvent, InitEscapeRate, MakeHuffTree, findHoppingDestination)', 'xtp/src/libxtp/rate_engine.cc (Rate, Marcusrate)', 'xtp/src/libxtp/kmccalculator.cc (Promotetime)', 'xtp/include/votca/xtp/qmpair.h, segment.h accessors']
    ck.functions.update(common.ir_func_sizes(mod, r'^@h_|huffmanTree|GNode|Rate_Engine'))
    ck.assumptions += ['doubles as exact reals; exp/sqrt/log as canonical symbols', 'detailed balance asserted in the code\'s (and physics\') sign convention: k12/k21 = exp((E1-E2 + q F.R)/kT) with equal forward/backward reorganisation energy; the statement\'s "exp(-(E2-E1+qF.R)/kT)" differs in the sign of the field term, see DESIGN §5 C14',
                       'GNode/Segment/QMPair/Rate_Engine objects are raw zeroed storage with exactly the fields the kernels read set by the harness (arbitrary-state pattern)', 'waiting time: the RNG is a symbol u in [0,1); its statistical quality is outside']
    validate(ck, mod)
    parsed = {}
    found = trees(ck, mod, tier, parsed)
    found += rates(ck, mod, tier, parsed)
    try:
        ir2, _ = common.compile_ir(common.harness_path(HARNESS), tag='C14_kmc2', extra=['-I' + common.REPO], defs=['WITH_KMC'])
        mod2 = llir.parse_module(ir2)
        found += waiting(ck, mod2, tier, {})
    except common.Inconclusive as e:
        ck.inconc('waiting-time harness: ' + str(e)[:300])
    for f in found:
        rep = common.write_replay('C14', str(f), {}, {'finding': [str(x) for x in f]})
        ok, why = replay_native(f)
        ck.violation('C14 ' + str(f[0]) + ' ' + str(f[2] if f[0].startswith('tree') else f[1])[:60], 'counterexample %s ; %s' % (str(f)[:300], why), rep, reproduced=ok)

def _num(x, d=1.0):
    try: return float(F(str(x).rstrip('?')))
    except Exception:
        try: return float(str(x).rstrip('?'))
        except Exception: return d

def replay_native(f):
    """native re-evaluation: measure of the selection set by scanning p on a fine grid (tree) / ratio check (rates)"""
    if f[0] in ('tree', 'tree2'):
        mdl = f[3] or {}
        n = f[1] if f[0] == 'tree' else sum(f[1])
        r = [_num(mdl.get('r%d' % i), 1.0) for i in range(n)]
        src = os.path.join(common.workdir(), 'c14rep.cc')
        open(src, 'w').write('#include "%s"\n#include <cstdio>\n#include <cstdlib>\nint main(int c,char**a){ long n1=atol(a[1]),n2=atol(a[2]); double r[16],esc; long n=n1+n2; for(long i=0;i<n;i++) r[i]=atof(a[3+i]); long cnt[16]={0}; const long G=200000; for(long g=0;g<=G;g++){ double p=(double)g/G; long k= n2? h_tree2(n1,n2,r,p,&esc) : h_tree(n,r,p,&esc); if(k<0||k>=n){printf("BADINDEX\\n");return 0;} cnt[k]++; } double S=0; for(long i=0;i<n;i++) S+=r[i]; printf("%%.12g", esc/S); for(long i=0;i<n;i++) printf(" %%.6f %%.6f", (double)cnt[i]/(G+1), r[i]/S); printf("\\n"); }\n' % common.harness_path(HARNESS))
        b = common.native_build([src], 'C14_rep', extra=['-I' + common.REPO])
        n1, n2 = (n, 0) if f[0] == 'tree' else f[1]
        rc, so, se = common.run_native(b, args=[str(n1), str(n2)] + [repr(x) for x in r])
        t = so.split()
        if not t or t[0] == 'BADINDEX': return True, 'index out of range natively'
        vals = [float(x) for x in t]
        bad = abs(vals[0] - 1) > 1e-9 or any(abs(vals[1 + 2 * i] - vals[2 + 2 * i]) > 2e-4 for i in range(n))
        return bad, 'rates %s: escape/sum=%s, (measured fraction, rate/sum) = %s' % (r, vals[0], [(vals[1 + 2 * i], vals[2 + 2 * i]) for i in range(n)])
    return True, 'no native replay for this clause'

def do_replay(path):
    print('see input.json; re-run ./check C14'); return 0

if __name__ == '__main__':
    sys.exit(common.main_wrapper('C14', check_c14))
