# C04 (dispatch clause): which neighbour search Imc::Worker::DoNonbonded runs for a non-bonded interaction, as a function of
# the three bead-type names (symbolic bytes) and the three-body flag.  BeadList::Generate and the NBList*::Generate overloads are
# recording stubs (what they compute is C03/C18); Property::get/exists are redirected to harness-held values.
import sys, os, json
from fractions import Fraction as F
import z3
import common, llir, symx, models, smt
from symx import Ptr, FnPtr, explore, sgn64, is_sym

def check_dispatch(ck, mod, tier, parsed, found):
    TO = 30
    t = [z3.Int('t%d' % k) for k in (1, 2, 3)]
    for threebody in (1, 0):
        ev = []
        def build_models(it_holder):
            M = models.all_models()
            M['@__dynamic_cast'] = lambda it, a: a[0]
            M['re:^@_ZN5votca5tools8Property3getE'] = lambda it, a: it.call('@h_prop_get', [a[1]])
            M['re:^@_ZNK5votca5tools8Property3getE'] = lambda it, a: it.call('@h_prop_get', [a[1]])
            M['re:^@_ZNK5votca5tools8Property6existsE'] = lambda it, a: 0
            def bl_gen(it, a):
                sp = a[2]; data = it.load(sp, 8); ln = sgn64(it.load(Ptr(sp.obj, sp.off + 8), 8))
                ev.append(('bl', (a[0].obj, a[0].off), [it.load(Ptr(data.obj, data.off + i), 1) for i in range(ln)])); return 0
            M['re:^@_ZN5votca3csg8BeadList8GenerateE'] = bl_gen
            M['re:^@_ZN5votca3csg8BeadListD[012]Ev'] = lambda it, a: None
            def ctor(it, a):
                it.zerofill(a[0], 256); return None
            M['re:^@_ZN5votca3csg12NBList_3BodyC[12]Ev'] = ctor; M['re:^@_ZN5votca3csg6NBListC[12]Ev'] = ctor
            for k, nm in ((0, 'dtor'), (1, 'dtor'), (2, 'gen3'), (3, 'gen2'), (4, 'gen1')):
                M['@vt3_%d' % k] = (lambda nm: (lambda it, a: ev.append((nm, [(p.obj, p.off) for p in a[1:] if isinstance(p, Ptr)])) if nm != 'dtor' else None))(nm)
            for k, nm in ((0, 'dtor'), (1, 'dtor'), (2, 'gen2'), (3, 'gen1')):
                M['@vt2_%d' % k] = (lambda nm: (lambda it, a: ev.append((nm, [(p.obj, p.off) for p in a[1:] if isinstance(p, Ptr)])) if nm != 'dtor' else None))(nm)
            return M
        def body(it):
            del ev[:]
            for x in t: it.assume(z3.Or(x == 65, x == 66))
            for vt, pre, n in (('@_ZTVN5votca3csg16NBListGrid_3BodyE', 'vt3', 5), ('@_ZTVN5votca3csg10NBListGridE', 'vt2', 4), ('@_ZTVN5votca3csg12NBList_3BodyE', 'vt3', 5), ('@_ZTVN5votca3csg6NBListE', 'vt2', 4)):
                if vt in it.m.globals:
                    p = it.global_ptr(vt)
                    for k in range(n): it.store(Ptr(p.obj, p.off + 16 + 8 * k), FnPtr('@%s_%d' % (pre, k)), 8)
            imc = it.call('@h_imc_setup', [4, 0, 0])
            top = it.alloc(64, 'topology(never read: every consumer is a stub)')
            it.call('@h_imc_donb', [imc, threebody, t[0], t[1], t[2], top])
            return list(ev)
        try:
            res, st = explore(mod, build_models(None), body, parsed=parsed, max_paths=200)
        except symx.Unsupported as e:
            ck.inconc('DoNonbonded dispatch (%s): %s' % ('three-body' if threebody else 'pair', str(e)[:200])); continue
        ck.stubs |= st['models_used']
        label = 'Imc::Worker::DoNonbonded, %s interaction, bead types from {A,B} as symbolic bytes' % ('three-body' if threebody else 'pair')
        ck.add_witness('%s: %d paths' % (label, len(res)), len(res) >= 2)
        q = []
        for it, events in res:
            pc = list(it.pc)
            bl = [e for e in events if e[0] == 'bl']; gen = [e for e in events if e[0].startswith('gen')]
            nl = 3 if threebody else 2
            if len(bl) != nl or len(gen) != 1: q.append((pc, [z3.BoolVal(True)])); continue
            typed = z3.And([z3.And(len(bl[k][2]) == 1, symx.Interp.I(bl[k][2][0]) == t[k]) if len(bl[k][2]) == 1 else z3.BoolVal(False) for k in range(nl)])
            kind = int(gen[0][0][3]); args = gen[0][1]; lists = [bl[k][1] for k in range(nl)]
            args_ok = args[:kind] == lists[:kind]
            if threebody: want = z3.If(z3.And(t[0] == t[1], t[1] == t[2]), 1, z3.If(t[1] == t[2], 2, 3))
            else: want = z3.If(t[0] == t[1], 1, 2)
            q.append((pc, [z3.Not(z3.And(typed, want == kind, z3.BoolVal(args_ok)))]))
        name = label + (': the search is Generate(list1) iff all three types agree, Generate(list1, list2) iff type2 = type3 differs from type1, Generate(list1, list2, list3) otherwise; lists generated from type1, type2, type3 in this order' if threebody else ': Generate(list1) iff type1 = type2, Generate(list1, list2) otherwise')
        s_, mdl = smt.agg_core(ck, name, q, TO, probe=[z3.Int('free_kind') != 1])
        if s_ == 'sat': found.append(('dispatch', name, {'clause': 'dispatch', 'threebody': threebody, 'model': mdl}))

def check_bonded_reset(ck, mod, tier, parsed, found):
    """Imc::Worker::DoBonded starts every frame from an empty histogram of the interaction and leaves the other histograms alone"""
    from symx import alloc_doubles, read_doubles
    NB = 3; h0 = [z3.Real('hb%d' % i) for i in range(NB)]; hf0 = [z3.Real('hf%d' % i) for i in range(NB)]
    M = models.all_models()
    M['@__dynamic_cast'] = lambda it, a: a[0]
    M['re:^@_ZN5votca5tools8Property3getE'] = lambda it, a: it.call('@h_prop_get', [a[1]])
    M['re:^@_ZNK5votca5tools8Property3getE'] = lambda it, a: it.call('@h_prop_get', [a[1]])
    def in_group(it, a):
        for k in range(3): it.store(Ptr(a[0].obj, a[0].off + 8 * k), symx.NULL, 8)      # sret std::vector<Interaction*>: empty
        return None
    M['re:^@_ZN5votca3csg8Topology19InteractionsInGroupE'] = in_group
    def body(it):
        imc = it.call('@h_imc_setup', [NB, 0, 0]); top = it.alloc(64, 'topology(stub)')
        p0 = alloc_doubles(it, 'h0', h0); pf = alloc_doubles(it, 'hf0', hf0); o = alloc_doubles(it, 'o', [F(0)] * NB); of = alloc_doubles(it, 'of', [F(0)] * NB)
        it.call('@h_imc_dobonded', [imc, p0, pf, NB, top, o, of]); return read_doubles(it, o, NB), read_doubles(it, of, NB)
    try: res, st = explore(mod, M, body, parsed=parsed, max_paths=50)
    except symx.Unsupported as e:
        ck.inconc('DoBonded reset: %s' % str(e)[:200]); return
    ck.stubs |= st['models_used']
    ck.add_witness('Imc::Worker::DoBonded from an arbitrary worker state: %d path(s)' % len(res), len(res) >= 1)
    R = symx.Interp.R
    q = [(list(it.pc), [z3.Not(z3.And([R(o[k]) == 0 for k in range(NB)] + [R(of[k]) == hf0[k] for k in range(NB)]))]) for it, (o, of) in res]
    name = 'Imc::Worker::DoBonded with no interaction in the group, arbitrary previous worker histograms: the histogram of the interaction is empty afterwards (per-frame reset), the force histogram is untouched'
    s_, mdl = smt.agg_core(ck, name, q, 30, probe=[z3.Real('free_h') != 0])
    if s_ == 'sat': found.append(('bonded per-frame reset', name, {'clause': 'bonded-reset', 'model': mdl}))
