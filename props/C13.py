# C13 — histograms: memory safety bit-precisely (E1: IR -> C -> CBMC) and bin/weight semantics in exact reals (E2)
import sys, os, time, random, json, math, shutil
from fractions import Fraction as F
from concurrent.futures import ThreadPoolExecutor
import z3
import common, llir, symx, models, smt, ir2c, cbmc_run
from symx import Ptr, alloc_doubles, read_doubles, explore

HARNESS = 'C13_hist.cc'

def build_layout(wd):
    b = common.native_build([common.harness_path(HARNESS)], 'C13_layout', extra=['-I' + common.REPO], defs=['VERIF_LAYOUT'], libs=[])
    rc, so, se = common.run_native(b)
    if rc != 0 or 'SIZEOF_HN' not in so: raise common.Inconclusive('layout probe failed')
    open(os.path.join(wd, 'layout.h'), 'w').write(so)
    return dict(l.split()[1:3] for l in so.strip().split('\n'))

def e1_memory(ck, mod, tier, wd):
    """A1: the store in HistogramNew::Process stays inside the bin buffer for every finite v, any valid state."""
    t = ir2c.Translator(mod); c = t.translate(['@h_process'])
    gen = os.path.join(wd, 'gen_c13.c'); open(gen, 'w').write(ir2c.PRELUDE + c)
    ck.extra['e1_generated_c_lines'] = len(c.split('\n')); ck.extra['e1_externals_left_nondeterministic'] = sorted(t.externs)
    # encoder validation of the translator: gcc build of the generated C vs the native C++ (state by real Initialize)
    validate_e1(ck, gen, wd)
    NB = 8 if tier == 'quick' else 64
    h = common.harness_path('C13_cbmc.c')
    jobs = [('witness', ['NB=%d' % NB, 'WITNESS']), ('A1 arbitrary positive finite step', ['NB=%d' % NB]), ('A1 step as computed by Initialize_', ['NB=%d' % NB, 'STEP_FROM_INIT'])]
    TO = 300 if tier == 'quick' else 1800
    with ThreadPoolExecutor(3) as ex:
        futs = {nm: ex.submit(cbmc_run.run, [gen, h], NB + 2, defs, [wd], TO) for nm, defs in jobs}
        res = {nm: f.result() for nm, f in futs.items()}
    w = res['witness']
    ck.add_witness('CBMC harness reaches the end of main (assert(0) reported FAILED)', any(p['desc'].startswith('WITNESS') and p['status'] == 'FAILURE' for p in w['props']))
    out = []
    for nm in ('A1 arbitrary positive finite step', 'A1 step as computed by Initialize_'):
        r = res[nm]
        ck.states += r.get('sat_vars', 0); ck.transitions += r.get('sat_clauses', 0)
        bad = cbmc_run.failed(r); ub = cbmc_run.ubclass_failed(r)
        if r['verdict'] in ('timeout', 'error'):
            ck.obligation('HistogramNew::Process ' + nm, 'unknown', r['time_s'], True, {'cbmc': r['verdict'], 'tail': r['raw_tail'][-300:]}); continue
        unw = [p for p in bad if 'unwinding' in p['desc']]
        if unw: ck.obligation('HistogramNew::Process ' + nm, 'unknown', r['time_s'], True, {'cbmc': 'unwinding assertion failed'}); continue
        ck.obligation('HistogramNew::Process %s: all %d CBMC properties (bounds, pointer, overflow) hold, nbins<=%d' % (nm, len(r['props']), NB), 'sat' if bad else 'unsat', r['time_s'], True,
                      {'failed': [p['desc'] for p in bad][:5], 'trace': {k: v for k, v in list(r['trace'].items())[:2]}} if bad else {'properties': len(r['props'])})
        for p in ub:
            msg = 'HistogramNew::Process converts floor((v-min)/step+0.5) to Index without a range check: for |q| >= 2^63 (|v| >~ 9.2e18*step) the double->int64 conversion is undefined behaviour (no sanitizer-visible memory error follows: the index is range-checked afterwards)'
            if msg not in ck.ubclass: ck.ub_class(msg)
        if bad: out.append((nm, r))
    ck.sample({'engine': 'E1', 'cbmc_cmd': res['A1 arbitrary positive finite step']['cmd'][:300], 'properties': [p['desc'] for p in res['A1 arbitrary positive finite step']['props']][:12]})
    ck.bounds['E1 nbins'] = '1..%d (unwind %d, unwinding assertions on)' % (NB, NB + 2)
    ck.bounds['E1 inputs'] = 'min,max,step,v,scale: all finite IEEE doubles with max>min, step>0; periodic in {0,1}; bins finite'
    return out

def validate_e1(ck, gen, wd):
    rnd = random.Random(common.SEED)
    drv = os.path.join(wd, 'e1drv.c')
    open(drv, 'w').write('''#include <stdio.h>
#include <stdlib.h>
#include <string.h>
#include "layout.h"
void verif_init_globals(void); void f_h_process(char* h, double v, double scale);
int main(void){ char cmd[16]; verif_init_globals();
 while (scanf("%15s", cmd)==1){ double mn,mx,v,sc,step; long n,per; scanf("%la %la %ld %ld %la %la",&mn,&mx,&n,&per,&v,&sc);
  char* obj=calloc(1,SIZEOF_HN); double* y=malloc(8*n); for(long i=0;i<n;i++) scanf("%la",&y[i]);
  if (n==1) step=1; else if (per) step=(mx-mn)/(double)n; else step=(mx-mn)/((double)n-1.0);
  *(double*)(obj+OFF_min)=mn; *(double*)(obj+OFF_max)=mx; *(double*)(obj+OFF_step)=step; *(unsigned char*)(obj+OFF_periodic)=(unsigned char)per; *(long*)(obj+OFF_nbins)=n;
  *(double**)(obj+OFF_ydata)=y; *(long*)(obj+OFF_yrows)=n;
  f_h_process(obj,v,sc); printf("%a",step); for(long i=0;i<n;i++) printf(" %a",y[i]); printf("\\n"); } return 0; }
''')
    binc = os.path.join(wd, 'e1drv.bin')
    rc, so, se, dt = common._run(['gcc', '-O0', '-w', '-I' + wd, gen, drv, '-o', binc, '-lm'])
    if rc != 0: raise common.EncoderError('gcc on generated C failed: ' + se[-600:])
    binn = common.native_build([common.harness_path(HARNESS)], 'C13_native', extra=['-I' + common.REPO], defs=['VERIF_NATIVE'], libs=[], cxx=common.CLANG)
    lines = []
    # tools/src/tests/test_histogramnew.cc: Initialize(0,10,11) with values 0..10; plus periodic and out-of-range probes
    for v in [0.0, 1.0, 1.2, 4.6, 9.99, 10.0, 10.49, 10.51, -0.49, -0.51, 11.0, -7.3, 1e9, -1e9]:
        for per in (0, 1):
            lines.append('proc %s %s 11 %d %s %s ' % ((0.0).hex(), (10.0).hex(), per, float(v).hex(), (1.0).hex()) + ' '.join((0.0).hex() for _ in range(11)))
    for _ in range(200):
        n = rnd.randint(1, 9); mn = rnd.uniform(-5, 5); mx = mn + rnd.uniform(0.1, 10); per = rnd.randint(0, 1)
        v = rnd.choice([rnd.uniform(mn - 30, mx + 30), mn + rnd.randint(-12, 12) * ((mx - mn) / max(1, (n if per else n - 1))), mn - (mx - mn) * rnd.randint(1, 3)])
        lines.append('proc %s %s %d %d %s %s ' % (mn.hex(), mx.hex(), n, per, float(v).hex(), rnd.uniform(-2, 2).hex()) + ' '.join(rnd.uniform(-1, 1).hex() for _ in range(n)))
    inp = '\n'.join(lines) + '\n'
    r1 = common.run_native(binc, inp); r2 = common.run_native(binn, inp)
    if r2[0] != 0:
        # the real code itself crashed on a validation input (e.g. heap corruption): compare the common prefix only;
        # this is not an encoder disagreement -- the solver-based obligations below decide the property
        l1 = r1[1].split('\n'); l2 = r2[1].split('\n'); n = max(0, min(len(l1), len(l2)) - 1)
        ck.notes.append('native build crashed (rc %s) after %d validation vectors; translator validated on that prefix only' % (r2[0], n))
        ok = l1[:n] == l2[:n]
        ck.add_validation('E1 translator vs native C++ (prefix before the native crash)', n, ok, 'prefix mismatch'); return
    ok = r1[0] == 0 and r2[0] == 0 and r1[1] == r2[1]
    ck.add_validation('E1 translator: gcc build of the C generated from the IR of HistogramNew::Process vs native C++ (repo unit-test inputs + 200 random), bit-identical bins', len(lines), ok,
                      'rc %s/%s; first differing line: %s' % (r1[0], r2[0], next((a + ' | ' + b for a, b in zip(r1[1].split('\n'), r2[1].split('\n')) if a != b), '')))

# ---------------------------------------------------------------------------------------------
def e2_semantics(ck, mod, tier, parsed):
    TO = 60
    NMAX = 3 if tier == 'quick' else 5
    mn = z3.Real('mn'); found = []
    LENGTHS = [F(1), F(5, 2)] if tier == 'quick' else [F(1), F(5, 2), F(4), F(1, 3), F(10)]
    ck.bounds['E2 ranges'] = 'min: all reals; max-min in %s; v, weights: all reals; nbins<=%d; ranges with other lengths are covered for memory safety by E1 only' % ([str(x) for x in LENGTHS], NMAX)
    for periodic, nb, LEN in [(p, n, l) for p in (0, 1) for n in range(1, NMAX + 1) for l in LENGTHS]:
        mx = mn + z3.RealVal(LEN)
        if True:
            nv = 2 if nb <= 2 or tier == 'thorough' else 1
            vs = [z3.Real('v%d' % i) for i in range(nv)]; ws = [z3.Real('w%d' % i) for i in range(nv)]
            def body(it):
                it.simplify_divisor = True
                pv = alloc_doubles(it, 'vals', vs); pw = alloc_doubles(it, 'w', ws)
                yb = alloc_doubles(it, 'y', [F(0)] * nb); xb = alloc_doubles(it, 'x', [F(0)] * nb); st = alloc_doubles(it, 'step', [F(0)])
                it.call('@h_init_process', [mn, mx, nb, periodic, pv, pw, nv, yb, xb, st])
                return read_doubles(it, yb, nb), read_doubles(it, xb, nb), read_doubles(it, st, 1)[0]
            res, stt = explore(mod, models.all_models(), body, parsed=parsed, max_paths=3000); ck.stubs |= stt['models_used']
            tag = 'HistogramNew(n=%d,%s,max-min=%s)' % (nb, 'periodic' if periodic else 'non-periodic', LEN)
            ck.add_witness('%s: %d paths' % (tag, len(res)), len(res) >= (2 if nb > 1 or not periodic else 1))
            # spec: step; bin centres; index k_i = floor((v_i-min)/step + 1/2); accepted iff 0<=k<n (non-periodic) / wrapped (periodic)
            step_spec = z3.RealVal(F(1) if nb == 1 else (LEN / nb if periodic else LEN / (nb - 1)))
            ks = [z3.Int('k%d' % i) for i in range(nv)]
            kdef = []
            for i in range(nv):
                q = (vs[i] - mn) / step_spec + F(1, 2)
                kdef.append(z3.And(z3.ToReal(ks[i]) <= q, q < z3.ToReal(ks[i]) + 1))
            for pi, (it, (yv, xv, st)) in enumerate(res):
                pc = list(it.pc)
                if pi == 0:
                    smt.prove(ck, '%s: step as documented' % tag, pc, [st != step_spec], TO, probe=[z3.Real('free') != step_spec])
                    for j in range(nb):
                        smt.prove(ck, '%s: bin centre x[%d] = min + %d*step' % (tag, j, j), pc, [xv[j] != mn + j * step_spec], TO, probe=[z3.Real('free') != mn + j * step_spec])
                for j in range(nb):
                    exp = z3.RealVal(0)
                    for i in range(nv):
                        hit = (ks[i] % nb == j) if periodic else (ks[i] == j)
                        exp = exp + z3.If(hit, ws[i], z3.RealVal(0))
                    s_, mdl = smt.prove(ck, '%s path %d: bin %d holds exactly the weights of the values nearest to it' % (tag, pi, j), pc + kdef, [yv[j] != exp], TO, probe=kdef + [z3.Real('free') != exp])
                    if s_ == 'sat': found.append((tag, nb, periodic, mdl, vs, ws))
                # weight conservation (sum of bins = accepted weight) follows from the per-bin identities; stated once per path as a cross-check
                tot = sum(yv[1:], yv[0]); acc = z3.RealVal(0)
                for i in range(nv): acc = acc + (ws[i] if periodic else z3.If(z3.And(ks[i] >= 0, ks[i] < nb), ws[i], z3.RealVal(0)))
                smt.prove(ck, '%s path %d: sum of bins = total accepted weight' % (tag, pi), pc + kdef, [tot != acc], TO, probe=kdef + [z3.Real('free') != acc])
            if nb == 2 and LEN == 1: ck.sample({'unit': tag, 'paths': len(res), 'bin0_expr': str(res[-1][1][0][0])[:200], 'pc': [str(c)[:120] for c in res[-1][0].pc[:4]]})
    # Normalize: ratios unchanged and integral one
    mx = z3.Real('mx'); norm_found = []
    for nb in (2, 3) if tier == 'quick' else (1, 2, 3, 4, 5):
        y0 = [z3.Real('y%d' % i) for i in range(nb)]
        def body(it):
            it.assume(mx > mn)
            py = alloc_doubles(it, 'y0', y0); yb = alloc_doubles(it, 'y', [F(0)] * nb); st = alloc_doubles(it, 'step', [F(0)])
            it.call('@h_init_norm', [mn, mx, nb, py, yb, st]); return read_doubles(it, yb, nb), read_doubles(it, st, 1)[0]
        res, stt = explore(mod, models.all_models(), body, parsed=parsed)
        for pi, (it, (yv, st)) in enumerate(res):
            pc = list(it.pc)
            absum = sum([z3.If(y >= 0, y, -y) for y in y0[1:]], z3.If(y0[0] >= 0, y0[0], -y0[0]))
            nz = [absum != 0]
            for j in range(nb):
                s_, mdl = smt.prove(ck, 'Normalize(n=%d) path %d: y[%d]*area = old y[%d] (ratios unchanged)' % (nb, pi, j, j), pc + nz, [yv[j] * absum * st != y0[j]], TO, probe=nz + [z3.Real('free') * absum != y0[j]])
                if s_ == 'sat': norm_found.append((nb, mdl))
            ab2 = sum([z3.If(y >= 0, y, -y) for y in yv[1:]], z3.If(yv[0] >= 0, yv[0], -yv[0]))
            s_, mdl = smt.prove(ck, 'Normalize(n=%d) path %d: sum|y|*step = 1' % (nb, pi), pc + nz, [ab2 * st != 1], TO, probe=nz + [z3.Real('free') != 1])
            if s_ == 'sat': norm_found.append((nb, mdl))
    for nb, mdl in norm_found[:1]: found.append(('HistogramNew::Normalize', nb, 'normalize', mdl, None, None))
    ck.extra['normalize_refuted'] = len(norm_found)
    return found

def e2_legacy(ck, mod, tier, parsed):
    """A5: legacy Histogram automatic range = [min(data), max(data)] for any sign of the data; bins never indexed outside."""
    TO = 60; found = []
    for nvals in ((2, 3) if tier == 'quick' else (1, 2, 3, 4)):
        vs = [z3.Real('d%d' % i) for i in range(nvals)]
        n = 3
        def body(it):
            pv = alloc_doubles(it, 'vals', vs); pdf = alloc_doubles(it, 'pdf', [F(0)] * n); mm = alloc_doubles(it, 'mm', [F(0)] * 3)
            it.assume(z3.Or([vs[i] != vs[0] for i in range(1, nvals)]) if nvals > 1 else z3.BoolVal(True))   # interval > 0
            DBLMAX = z3.RealVal(F(sys.float_info.max))
            for v in vs: it.assume(z3.And(v <= DBLMAX, v >= -DBLMAX))      # data are finite doubles
            it.call('@h_legacy', [pv, nvals, n, 1, 0, F(0), F(1), 0, 0, pdf, mm]); return read_doubles(it, pdf, n), read_doubles(it, mm, 3)
        if nvals == 1: continue
        res, stt = explore(mod, models.all_models(), body, parsed=parsed, max_paths=4000); ck.stubs |= stt['models_used']
        ck.add_witness('legacy Histogram auto range, %d values: %d paths' % (nvals, len(res)), len(res) >= 2)
        dmin = vs[0]; dmax = vs[0]
        for v in vs[1:]: dmin = z3.If(v < dmin, v, dmin); dmax = z3.If(v > dmax, v, dmax)
        bad_min = bad_max = bad_sum = None; tmin = tmax = tsum = 0.0
        for it, (pdf, mm) in res:
            pc = list(it.pc)
            r, dt, mdl = smt.check(pc + [mm[0] != dmin], TO); tmin += dt
            if r != 'unsat' and bad_min is None: bad_min = (r, mdl)
            r, dt, mdl = smt.check(pc + [mm[1] != dmax], TO); tmax += dt
            if r != 'unsat' and bad_max is None: bad_max = (r, mdl)
            r, dt, mdl = smt.check(pc + [sum(pdf[1:], pdf[0]) != nvals], TO); tsum += dt
            if r != 'unsat' and bad_sum is None: bad_sum = (r, mdl)
        for nm, bad, dt in (('getMin() = smallest datum', bad_min, tmin), ('getMax() = largest datum (any sign)', bad_max, tmax), ('every datum lands in a bin (sum of counts = number of data)', bad_sum, tsum)):
            st = 'unsat' if bad is None else ('sat' if bad[0] == 'sat' else 'unknown')
            ck.obligation('legacy Histogram auto range, %d values, all %d paths: %s' % (nvals, len(res), nm), st, dt, True, {'model': bad[1]} if bad else None)
            if st == 'sat': found.append((nm, nvals, bad[1], vs))
    # legacy Normalize from an arbitrary state: integral one, ratios unchanged (bins are not integers after bond/angle scaling)
    for n in ((2, 3) if tier == 'quick' else (2, 3, 4, 5)):
        pdf = [z3.Real('b%d' % i) for i in range(n)]; iv = z3.Real('interval')
        def body(it, n=n, pdf=pdf):
            for b in pdf: it.assume(b >= 0)
            it.assume(iv > 0); it.assume(sum(pdf[1:], pdf[0]) > 0)
            pp = alloc_doubles(it, 'pdf', pdf); out = alloc_doubles(it, 'out', [F(0)] * n); it.call('@h_legacy_norm', [pp, n, iv, out]); return read_doubles(it, out, n)
        res, stt = explore(mod, models.all_models(), body, parsed=parsed, max_paths=2000); ck.stubs |= stt['models_used']
        tot = sum(pdf[1:], pdf[0])
        bad = None; tsum = 0.0
        for it, o in res:
            r, dt, mdl = smt.check(list(it.pc) + [z3.Or([o[i] * tot * iv != pdf[i] for i in range(n)] + [sum(o[1:], o[0]) * iv != 1])], TO); tsum += dt
            if r != 'unsat' and bad is None: bad = (r, mdl)
        st = 'unsat' if bad is None else ('sat' if bad[0] == 'sat' else 'unknown')
        ck.obligation('legacy Histogram::Normalize from an arbitrary state (%d real-valued bins, %d paths): integral = 1 and ratios unchanged' % (n, len(res)), st, tsum, True, {'model': bad[1]} if bad else None)
        if st == 'sat': found.append(('Normalize: integral = 1 / ratios unchanged', n, bad[1], pdf))
    return found

def check_c13(ck, tier, replay=None):
    if replay: return do_replay(replay)
    wd = common.workdir()
    build_layout(wd)
    ir, dt = common.compile_ir(common.harness_path(HARNESS), extra=['-I' + common.REPO])
    mod = llir.parse_module(ir)
    ck.units += ['tools/src/libtools/histogramnew.cc (Process, Initialize_, Normalize)', 'tools/src/libtools/histogram.cc (legacy Histogram::ProcessData)', 'tools/include/votca/tools/table.h accessors']
    ck.functions.update(common.ir_func_sizes(mod, r'^@h_|HistogramNew|Histogram11ProcessData'))
    ck.assumptions += ['E1 (memory safety): allocation failure out of scope (--no-malloc-may-fail); state = arbitrary object satisfying nbins>=1, y buffer of exactly nbins doubles, step>0 finite',
                       'E2 (which bin / weight conservation / normalisation / legacy range): doubles as exact reals, floor -> integer; values exactly on a bin edge follow floor(x+1/2)', 'legacy histogram: n_=3 bins, auto_interval on, no scaling, at least two distinct data values, each within [-DBL_MAX, DBL_MAX]']
    bad_e1 = e1_memory(ck, mod, tier, wd)
    parsed = {}
    f2 = []; f3 = []
    for fn, out in ((e2_semantics, f2), (e2_legacy, f3)):
        try: out.extend(fn(ck, mod, tier, parsed))
        except symx.Unsupported as e:
            if str(e).startswith('OOB'):
                # the interpreter followed the real code to an access outside an object: a memory-safety counterexample in exact arithmetic
                r, dt, mdl = smt.check(getattr(e, 'pc', []), 30)
                ck.obligation('E2 %s: every access stays inside its object' % fn.__name__, 'sat' if r == 'sat' else 'unknown', dt, True, {'access': str(e), 'model': mdl})
                if r == 'sat' and not bad_e1:
                    rep = common.write_replay('C13', str(e), {}, {'kind': 'memory', 'mn': (mdl or {}).get('mn'), 'mx': None, 'nbins': 4, 'periodic': 1, 'v': (mdl or {}).get('v0'), 'clause': 'E2 OOB'})
                    ok, why = replay_memory({'mn': (mdl or {}).get('mn'), 'mx': None, 'nbins': 4, 'periodic': 1, 'v': (mdl or {}).get('v0')})
                    ck.violation('C13 HistogramNew::Process out-of-bounds', 'out-of-bounds access reached by symbolic execution: %s; %s' % (e, why), rep, reproduced=ok)
            else: ck.inconc('%s: %s' % (fn.__name__, e))
    # ---- violations with native replay ----
    for nm, r in bad_e1:
        tr = next((v for k, v in r['trace'].items() if 'UBCLASS' not in k and not k.startswith('f_h_process.assertion')), None) or next(iter(r['trace'].values()), {})
        meta = {'kind': 'memory', 'mn': tr.get('mn'), 'mx': tr.get('mx'), 'nbins': (tr.get('nbins') or '').rstrip('l'), 'periodic': tr.get('periodic'), 'v': tr.get('v'), 'step': tr.get('step'), 'clause': nm}
        rep = common.write_replay('C13', nm, {'README': 'ASan replay: ./check C13 --replay <dir>\n'}, meta)
        ok, why = replay_memory(meta)
        ck.violation('C13 HistogramNew::Process out-of-bounds', 'HistogramNew::Process writes outside the bin buffer (%s); %s' % (nm, why), rep, reproduced=ok)
    n_norm = sum(1 for t in f2 if t[2] == 'normalize')
    for tag, nb, periodic, mdl, vs, ws in [t for t in f2 if t[2] == 'normalize']:
        meta = {'kind': 'normalize', 'nb': nb, 'model': mdl}
        rep = common.write_replay('C13', tag + str(mdl), {}, meta); ok, why = replay_normalize(meta)
        ck.violation('C13 HistogramNew::Normalize', 'HistogramNew::Normalize: integral != 1 or bin ratios changed; %s' % why, rep, reproduced=ok)
    f2 = [t for t in f2 if t[2] != 'normalize']
    for tag, nb, periodic, mdl, vs, ws in f2[:3]:
        meta = {'kind': 'bins', 'nb': nb, 'periodic': periodic, 'model': mdl}
        rep = common.write_replay('C13', tag + str(mdl), {}, meta); ok, why = replay_bins(meta)
        ck.violation('C13 %s bin semantics' % tag.split('(')[0], '%s: a value is not added to its nearest bin / weight not conserved; %s' % (tag, why), rep, reproduced=ok)
    for nm, nvals, mdl, vs in f3[:3]:
        meta = {'kind': 'legacy', 'nvals': nvals, 'model': mdl, 'clause': nm}
        rep = common.write_replay('C13', nm + str(mdl), {}, meta); ok, why = replay_legacy(meta)
        ck.violation('C13 legacy Histogram auto range', 'legacy Histogram: %s fails; %s' % (nm, why), rep, reproduced=ok)

def _f(x, d=0.0):
    if x is None: return d
    x = str(x).rstrip('?lf')
    try: return float(F(x))
    except Exception:
        try: return float(x)
        except Exception: return d

def replay_memory(meta):
    """Real HistogramNew under ASan: Initialize(min,max,nbins) (+periodic) then Process(v)."""
    src = os.path.join(common.workdir(), 'rep_mem.cc')
    open(src, 'w').write('#include <string>\n#include <vector>\n#include <cstdio>\n#include "tools/src/libtools/table.cc"\n#include "tools/src/libtools/histogramnew.cc"\nint main(int c,char**a){ votca::tools::HistogramNew h; h.setPeriodic(atoi(a[4])!=0); h.Initialize(atof(a[1]),atof(a[2]),atol(a[3])); double v=atof(a[5]); h.Process(v,1.0); puts("done"); return 0; }\n')
    b = common.native_build([src], 'C13_rep_mem', extra=['-I' + common.REPO], san=True, libs=[])
    mn = _f(meta['mn']); mx = _f(meta['mx'], 1.0); nb = int(_f(meta['nbins'], 4)); per = int(_f(meta['periodic'], 1)); v = _f(meta['v'])
    cands = [(mn, mx, nb, per, v)]
    # the CBMC state has an arbitrary step; also try the canonical witness of the same fault class: a value whole periods below min
    for n in (nb, 4): cands += [(0.0, float(n), n, 1, -float(n)), (0.0, float(n), n, 1, -2.0 * n)]
    for c in cands:
        rc, so, se = common.run_native(b, args=[repr(c[0]), repr(c[1]), str(c[2]), str(c[3]), repr(c[4])])
        if rc != 0 and ('AddressSanitizer' in se or 'runtime error' in se): return True, 'ASan: %s with Initialize(%r,%r,%d) periodic=%d Process(%r)' % (se.split('\n')[0][:120], c[0], c[1], c[2], c[3], c[4])
    return False, 'no sanitizer report for the candidate inputs'

def replay_bins(meta):
    mdl = meta['model'] or {}; nb = meta['nb']; per = meta['periodic']
    binn = common.native_build([common.harness_path(HARNESS)], 'C13_native_r', extra=['-I' + common.REPO], defs=['VERIF_NATIVE'], libs=[])
    mn = _f(mdl.get('mn')); mx = _f(mdl.get('mx'), mn + 1)
    step = 1.0 if nb == 1 else ((mx - mn) / nb if per else (mx - mn) / (nb - 1))
    bins = [0.0] * nb; why = []
    for i in range(2):
        if 'v%d' % i not in mdl: continue
        v = _f(mdl.get('v%d' % i)); w = _f(mdl.get('w%d' % i), 1.0)
        rc, so, se = common.run_native(binn, 'proc %s %s %d %d %s %s ' % (mn.hex(), mx.hex(), nb, per, v.hex(), w.hex()) + ' '.join(b.hex() for b in bins) + '\n')
        got = [float.fromhex(x) for x in so.split()[1:]]
        k = math.floor((v - mn) / step + 0.5); exp = list(bins)
        if per: exp[k % nb] += w
        elif 0 <= k < nb: exp[k] += w
        if any(abs(a - b) > 1e-9 * max(1, abs(b)) for a, b in zip(got, exp)): return True, 'Initialize(%r,%r,%d) periodic=%d Process(%r,%r): bins %s, expected %s' % (mn, mx, nb, per, v, w, got, exp)
        bins = got
    return False, 'bins as expected on the model inputs'

def replay_normalize(meta):
    """Real HistogramNew: Initialize(mn, mx, nb), bins from the model, Normalize(); integral must be 1 and ratios unchanged."""
    mdl = meta.get('model') or {}; nb = meta['nb']
    mn = _f(mdl.get('mn'), 0.0); mx = _f(mdl.get('mx'), mn + 1.0); y0 = [_f(mdl.get('y%d' % i), 0.0) for i in range(nb)]
    binp = common.native_build([common.harness_path(HARNESS)], 'C13_native_norm', extra=['-I' + common.REPO], defs=['VERIF_NATIVE'], libs=[])
    line = 'norm %s %s %d 0 %s %s %s\n' % (float(mn).hex(), float(mx).hex(), nb, float(0).hex(), float(1).hex(), ' '.join(float(y).hex() for y in y0))
    rc, so, se = common.run_native(binp, stdin_text=line)
    o = [float.fromhex(t) for t in so.split()]
    if len(o) != nb + 1: return True, 'native run failed: %s %s' % (so[:100], se[:200])
    step, y = o[0], o[1:]; area = sum(abs(v) for v in y0) * step
    integ = sum(abs(v) for v in y) * step
    bad = abs(integ - 1.0) > 1e-9 or any(abs(y[i] * area - y0[i]) > 1e-9 * max(1, abs(y0[i])) for i in range(nb))
    return bad, 'Initialize(%r,%r,%d), bins %s: after Normalize bins %s, integral %r' % (mn, mx, nb, y0, y, integ)

def replay_legacy(meta):
    mdl = meta['model'] or {}; n = meta['nvals']
    if meta.get('clause', '').startswith('Normalize'):
        bins = [_f(mdl.get('b%d' % i), 0.5) for i in range(n)]; iv = _f(mdl.get('interval'), 1.0)
        src = os.path.join(common.workdir(), 'rep_legn.cc')
        open(src, 'w').write('#include <cstdio>\n#include <cstdlib>\n#include "%s"\nint main(int c,char**a){ double v[8],o[8]; long n=c-2; for(long i=0;i<n;i++) v[i]=atof(a[i+2]); h_legacy_norm(v,n,atof(a[1]),o); double s=0; for(long i=0;i<n;i++) s+=o[i]; printf("%%.17g\\n", s*atof(a[1])); }\n' % common.harness_path(HARNESS))
        b = common.native_build([src], 'C13_rep_legn', extra=['-I' + common.REPO], libs=[])
        rc, so, se = common.run_native(b, args=[repr(iv)] + [repr(v) for v in bins])
        integ = float(so.split()[0]) if so.split() else float('nan')
        return not (abs(integ - 1.0) <= 1e-9), 'bins %s, interval %r: integral after Normalize = %r' % (bins, iv, integ)
    vals = [_f(mdl.get('d%d' % i)) for i in range(n)]
    src = os.path.join(common.workdir(), 'rep_leg.cc')
    open(src, 'w').write('#include <cstdio>\n#include <cstdlib>\n#include "%s"\nint main(int c,char**a){ double v[8],pdf[8],mm[3]; long n=c-1; for(long i=0;i<n;i++) v[i]=atof(a[i+1]); h_legacy(v,n,3,1,0,0,1,0,0,pdf,mm); printf("%%.17g %%.17g\\n",mm[0],mm[1]); }\n' % common.harness_path(HARNESS))
    b = common.native_build([src], 'C13_rep_leg', extra=['-I' + common.REPO], libs=[])
    rc, so, se = common.run_native(b, args=[repr(v) for v in vals])
    lo, hi = [float(x) for x in so.split()]
    bad = lo != min(vals) or hi != max(vals)
    return bad, 'data %s: getMin()=%r getMax()=%r' % (vals, lo, hi)

def do_replay(path):
    meta = json.load(open(os.path.join(path, 'input.json')))
    ok, why = {'memory': replay_memory, 'bins': replay_bins, 'legacy': replay_legacy, 'normalize': replay_normalize}[meta['kind']](meta)
    print('replay: %s (%s)' % ('reproduced' if ok else 'not reproduced', why))
    if ok: print('VIOLATION property=C13 replay=%s' % path); return 1
    return 0

if __name__ == '__main__':
    sys.exit(common.main_wrapper('C13', check_c13, level='model_checking'))
