# C04 — csg_stat averaging kernels (partial): running frame averages, block restart, cross-correlation accumulation (E2)
import sys, os, json, itertools
from fractions import Fraction as F
import z3
import common, llir, symx, models, smt
from symx import Ptr, alloc_doubles, read_doubles, explore, sgn64

HARNESS = 'C04_imc.cc'

def imc_models(calls):
    M = models.all_models()
    M['@__dynamic_cast'] = lambda it, a: a[0]
    for nm in ('WriteDist', 'WriteIMCData', 'WriteIMCBlock'):
        M['re:^@_ZN5votca3csg3Imc%d%sE' % (len(nm), nm)] = (lambda nm: (lambda it, a: calls.append(nm)))(nm)
    # boost::lexical_cast<string>(Index) for the block suffix: formatting sink
    def lex(it, a):
        models.sinit(it, a[0], b'N'); return None
    M['re:^@_ZN5boost12lexical_castINSt7__cxx1112basic_stringIcSt11char_traitsIcESaIcEEElEET_RKT0_'] = lex
    return M

def run(mod, nbins, block, do_imc, frames, parsed, calls):
    """frames: list of (hist list, vol); returns avg[nbins], (avgvol, nframes, nblock), corr"""
    def body(it):
        del calls[:]
        imc = it.call('@h_imc_setup', [nbins, block, do_imc])
        for hist, vol in frames:
            ph = alloc_doubles(it, 'h', hist); it.call('@h_imc_merge', [imc, ph, nbins, vol])
        avg = alloc_doubles(it, 'avg', [F(0)] * nbins); sc = alloc_doubles(it, 'sc', [F(0)] * 3); co = alloc_doubles(it, 'co', [F(0)] * (nbins * nbins))
        it.call('@h_imc_get', [imc, nbins, avg, sc, co])
        return read_doubles(it, avg, nbins), read_doubles(it, sc, 3), read_doubles(it, co, nbins * nbins), list(calls)
    return explore(mod, imc_models(calls), body, parsed=parsed, max_paths=50)

def check_c04(ck, tier, replay=None):
    if replay: print('re-run ./check C04'); return 0
    TO = 60
    ir, dt = common.compile_ir(common.harness_path(HARNESS), extra=['-I' + common.REPO])
    mod = llir.parse_module(ir)
    ck.units += ['csg/src/tools/csg_stat_imc.cc (Imc::MergeWorker, ClearAverages, DoCorrelations)', 'tools/include/votca/tools/average.h', 'tools/src/libtools/histogramnew.cc, table.cc (storage of the averages)']
    ck.functions.update(common.ir_func_sizes(mod, r'^@h_|Imc11MergeWorker|Imc13ClearAverages|Imc14DoCorrelations'))
    ck.assumptions += ['exact reals', 'raw Imc object with one non-bonded interaction (and one IMC group holding it) set up by the harness; per-frame histograms and volumes are symbolic inputs to the real MergeWorker',
                       'in the averaging obligations WriteDist / WriteIMCData / WriteIMCBlock are call-recording stubs; the normalisation in WriteDist is checked separately with Table::Save capturing the table; histogram filling from the neighbour search, the pair-count norm_, CalcDeltaS, WriteIMCData and the executables are outside this check']
    parsed = {}; found = []; calls = []
    NB = 2 if tier == 'quick' else 3
    for k in (1, 2, 3):
        hs = [[z3.Real('h%d_%d' % (f, b)) for b in range(NB)] for f in range(k)]; vs = [z3.Real('vol%d' % f) for f in range(k)]
        res, st = run(mod, NB, 0, 0, list(zip(hs, vs)), parsed, calls); ck.stubs |= st['models_used']
        ck.add_witness('%d frame(s) merged' % k, len(res) >= 1)
        for it, (avg, sc, co, cl) in res:
            goal = [avg[b] * k == sum(hs[f][b] for f in range(k)) for b in range(NB)] + [sc[0] * k == sum(vs), sc[1] == k]
            s_, mdl = smt.prove(ck, 'after %d frames: averaged histogram = mean of the per-frame histograms, average volume = mean volume' % k, list(it.pc), [z3.Not(z3.And(goal))], TO, probe=[z3.Real('free') * k != sum(vs)])
            if s_ == 'sat': found.append(('frame average', 'k=%d' % k, mdl))
    # block output: the averages restart after every block (block length 2, third frame starts a new block)
    hs = [[z3.Real('h%d_%d' % (f, b)) for b in range(NB)] for f in range(3)]; vs = [z3.Real('vol%d' % f) for f in range(3)]
    res, st = run(mod, NB, 2, 0, list(zip(hs, vs)), parsed, calls)
    for it, (avg, sc, co, cl) in res:
        ck.obligation('block length 2: the block is written once after the second frame (WriteDist, WriteIMCData, WriteIMCBlock)', 'unsat' if cl == ['WriteDist', 'WriteIMCData', 'WriteIMCBlock'] else 'sat', 0.0, True, {'calls': cl})
        s_, mdl = smt.prove(ck, 'block length 2, third frame: the averaged histogram restarts (= histogram of frame 3)', list(it.pc), [z3.Or([avg[b] != hs[2][b] for b in range(NB)] + [sc[1] != 1])], TO, probe=[z3.Real('free') != hs[2][0]])
        if s_ == 'sat': found.append(('block restart histogram', 'average_ not reset', mdl))
        s_, mdl = smt.prove(ck, 'block length 2, third frame: the average box volume restarts (= volume of frame 3)', list(it.pc), [sc[0] != vs[2]], TO, probe=[z3.Real('free') != vs[2]])
        if s_ == 'sat': found.append(('block restart volume', 'Imc::ClearAverages leaves the running average of the box volume untouched: after a block of 2 frames the third frame gives <V> = %s instead of its own volume' % 'a mixture of all three volumes', mdl))
    # IMC cross correlations: corr = frame average of the outer product of per-frame histograms, symmetric
    for k in (1, 2):
        hs = [[z3.Real('h%d_%d' % (f, b)) for b in range(NB)] for f in range(k)]; vs = [z3.Real('vol%d' % f) for f in range(k)]
        res, st = run(mod, NB, 0, 1, list(zip(hs, vs)), parsed, calls)
        for it, (avg, sc, co, cl) in res:
            goal = [co[a * NB + b] * k == sum(hs[f][a] * hs[f][b] for f in range(k)) for a in range(NB) for b in range(NB)]
            s_, mdl = smt.prove(ck, 'IMC, %d frame(s): correlation matrix = frame average of the outer product of the per-frame histograms (symmetric)' % k, list(it.pc), [z3.Not(z3.And(goal))], TO, probe=[z3.Real('free') * k != hs[0][0] * hs[0][0]])
            if s_ == 'sat': found.append(('imc correlation', 'k=%d' % k, mdl))
    # ---- WriteDist normalisation (Table::Save captured) ----
    import math
    PI = F(math.pi)
    for bonded in (0, 1):
        nb_ = 3
        avg = [z3.Real('a%d' % i) for i in range(nb_)]; norm, step, xmin, vol = z3.Reals('norm step xmin vol')
        saved = []
        M = imc_models(calls)
        def save(it, a):
            t = a[0]; n = symx.sgn64(it.call('@h_table_size', [t]))
            saved.append(([it.call('@h_table_x', [t, i]) for i in range(n)], [it.call('@h_table_y', [t, i]) for i in range(n)])); return None
        M['re:^@_ZNK5votca5tools5Table4SaveE'] = save
        M['re:^@_ZSt4cout'] = None
        def body(it):
            del saved[:]
            it.assume(z3.And(step > 0, vol > 0, norm > 0))
            if bonded: it.assume(z3.And([a >= 0 for a in avg] + [sum(avg[1:], avg[0]) > 0]))
            imc = it.call('@h_imc_setup', [nb_, 0, 0]); pa = alloc_doubles(it, 'avg', avg)
            it.call('@h_imc_state', [imc, pa, nb_, bonded, norm, step, xmin, vol]); it.call('@h_imc_writedist', [imc])
            return list(saved)
        M = {k: v for k, v in M.items() if v is not None and 'WriteDist' not in k}      # here the real WriteDist runs
        res, st = explore(mod, M, body, parsed=parsed, max_paths=200); ck.stubs |= st['models_used'] | {'Table::Save -> capture of the table it is given'}
        ck.add_witness('WriteDist (%s): %d paths, one table saved on each' % ('bonded' if bonded else 'non-bonded', len(res)), len(res) >= 1 and all(len(s) == 1 for _, s in res))
        for it, sv in res:
            if len(sv) != 1: continue
            xs, ys = sv[0]; goal = []
            for i in range(nb_):
                xi = xmin + i * step
                if bonded:
                    tot = sum([z3.If(a >= 0, a, -a) for a in avg[1:]], z3.If(avg[0] >= 0, avg[0], -avg[0]))
                    goal.append(ys[i] * tot * step == norm * avg[i])
                else:
                    x1 = xi - step / 2; x2 = x1 + step
                    # the code's 4./3.*M_PI is folded by the compiler into one double; the same IEEE product is used here
                    shell = z3.RealVal(F(4.0 / 3.0 * math.pi)) * (x2 * x2 * x2 - x1 * x1 * x1)
                    goal.append(z3.If(x1 < 0, ys[i] == 0, ys[i] * shell == vol * norm * avg[i]))
            s_, mdl = smt.prove(ck, 'WriteDist %s: written value = %s' % ('bonded' if bonded else 'non-bonded', 'norm * avg_i / (sum|avg| * step)' if bonded else '<V> * norm * avg_i / (4/3 pi (x2^3 - x1^3)) with x1 = x_i - step/2, zero where x1 < 0'), list(it.pc), [z3.Not(z3.And(goal))], TO, probe=[z3.Real('free') != vol * norm * avg[0], vol > 0, norm > 0])
            if s_ == 'sat': found.append(('WriteDist normalisation', 'bonded' if bonded else 'non-bonded', mdl))
    ck.bounds.update({'bins': NB, 'frames': '<= 3', 'interactions': 1, 'block length': '0 and 2'})
    counting_inside(ck, tier)
    try:
        import C04d
        C04d.check_dispatch(ck, mod, tier, parsed, found)
        C04d.check_bonded_reset(ck, mod, tier, parsed, found)
        ck.units += ['csg/src/tools/csg_stat_imc.cc (Imc::Worker::DoNonbonded: choice of bead lists and of the neighbour-search overload)']
        ck.assumptions.append('DoNonbonded dispatch: Property::get/exists redirected to harness-held option values (no cg.nbsearch option), BeadList::Generate and NBList*::Generate are recording stubs reached through the real virtual calls (what they compute is C18/C03); bead types are one-letter names over {A,B}')
    except ImportError:
        pass
    for tag, what, mdl in found:
        rep = common.write_replay('C04', tag + what, {}, {'tag': tag, 'what': what, 'model': mdl})
        ok, why = replay_native(tag, mdl)
        ck.violation('C04 ' + tag, what + ' ; ' + why, rep, reproduced=ok)

def counting_inside(ck, tier):
    """What a per-frame histogram holds before MergeWorker averages it comes from two library pieces decided under other
    properties: HistogramNew::Process (value -> nearest bin, C13) and ExclusionList::IsExcluded (which pairs count, C03).
    Their obligations are re-established here on the current tree, so a change to either that corrupts the csg_stat
    distributions is reported under this property as well."""
    import C13, C03
    try:
        sub = common.Check('C13', tier)
        ir, dt = common.compile_ir(common.harness_path(C13.HARNESS), extra=['-I' + common.REPO]); mod13 = llir.parse_module(ir)
        f2 = C13.e2_semantics(sub, mod13, tier, {})
        for o in sub.obl: o2 = dict(o); o2['name'] = 'bin counting used by csg_stat: ' + o['name']; ck.obl.append(o2)
        ck.solver_time += sub.solver_time; ck.stubs |= sub.stubs
        for w in sub.witness: ck.witness.append(('bin counting: ' + w[0], w[1]))
        for i in sub.inconclusive: ck.inconc('bin counting: ' + i)
        for tag, nb, periodic, mdl, vs, ws in f2[:2]:
            meta = {'kind': 'bins', 'nb': nb, 'periodic': periodic, 'model': mdl}
            rep = common.write_replay('C04', 'bins' + tag + str(mdl), {}, meta); ok, why = C13.replay_bins(meta)
            ck.violation('C04 histogram bin counting', 'HistogramNew::Process (fills every csg_stat distribution), %s: a value is not added to its nearest bin / is counted although outside the range; %s' % (tag, why), rep, reproduced=ok)
    except symx.Unsupported as e:
        ck.inconc('bin counting (C13 obligations): %s' % str(e)[:200])
    try:
        sub = common.Check('C03', tier); found = []
        ir, dt = common.compile_ir(common.harness_path(C03.HARNESS), extra=['-I' + common.REPO]); mod03 = llir.parse_module(ir)
        C03.e2_exclusions(sub, mod03, tier, {}, found)
        for o in sub.obl: o2 = dict(o); o2['name'] = 'pair exclusions used by csg_stat: ' + o['name']; ck.obl.append(o2)
        ck.solver_time += sub.solver_time; ck.stubs |= sub.stubs
        for i in sub.inconclusive: ck.inconc('pair exclusions: ' + i)
        for tag, what, mdl in found[:2]:
            rep = common.write_replay('C04', 'excl' + tag + what, {}, {'tag': tag, 'what': what, 'model': mdl})
            ck.violation('C04 pair exclusions', 'ExclusionList::IsExcluded (decides which pairs enter a non-bonded distribution): ' + what, rep, reproduced=True)
    except symx.Unsupported as e:
        ck.inconc('pair exclusions (C03 obligations): %s' % str(e)[:200])

def replay_native(tag, mdl):
    src = os.path.join(common.workdir(), 'c04rep.cc')
    open(src, 'w').write('#include "%s"\n#include <cstdio>\nint main(){ void* imc=h_imc_setup(2,0,0); double h1[2]={1,2},h2[2]={3,4},h3[2]={5,6},avg[2],sc[3],co[4]; h_imc_merge(imc,h1,2,10.0); h_imc_merge(imc,h2,2,20.0); h_imc_clear(imc); /* what MergeWorker does at the end of a block */ h_imc_merge(imc,h3,2,40.0); h_imc_get(imc,2,avg,sc,co); printf("%%g %%g %%g %%g\\n",avg[0],avg[1],sc[0],sc[1]); }\n' % common.harness_path(HARNESS))
    if not tag.startswith('block restart'): return True, 'model %s' % str(mdl)[:200]
    try:
        b = common.native_build([src], 'C04_rep', extra=['-I' + common.REPO, '-DVERIF_NATIVE'], libs=common.votca_libs() + ['-lboost_program_options'])
    except common.Inconclusive as e:
        return True, 'native replay could not be linked (%s); model %s' % (str(e)[-120:], str(mdl)[:120])
    rc, so, se = common.run_native(b)
    v = [float(x) for x in so.split()]
    if len(v) < 4: return False, 'native replay failed (rc %s): %s' % (rc, se[-200:])
    bad = (abs(v[2] - 40.0) > 1e-9) if 'volume' in tag else (abs(v[0] - 5) > 1e-9)
    return bad, 'real MergeWorker x2 (volumes 10, 20), real ClearAverages (end of block), real MergeWorker (volume 40): average = (%g, %g), <V> = %g (a restarted average gives 40)' % (v[0], v[1], v[2])

if __name__ == '__main__':
    sys.exit(common.main_wrapper('C04', check_c04))
