# C03, the pair searches themselves: NBListGrid::Generate / NBList::Generate on a real Topology, beads at symbolic positions.
# Compositional: the minimum-image vector is the topology's own BCShortestConnection (decided in C02, re-established inside the
# C01 check); here: a pair is delivered exactly once iff its shortest-connection length is below the cutoff and it is not
# excluded, and it is stored with that vector and distance.
import sys, os, json, time, itertools, multiprocessing
from fractions import Fraction as F
import z3
import common, llir, symx, models, smt
from symx import Ptr, alloc_i64, alloc_doubles, read_doubles, explore, sgn64, is_sym

HARNESS = 'C03_pairs.cc'
def R(x): return x if is_sym(x) else z3.RealVal(F(x))
_MOD = {}
def _module(irpath):
    if irpath not in _MOD: _MOD[irpath] = (llir.parse_module(open(irpath).read()), {})
    return _MOD[irpath]

def run_task(t):
    mod, parsed = _module(t['ir'])
    n = t['n']; L = [F(x) for x in t['L']]; c = F(t['cutoff']); grid = t['grid']
    pos = [z3.Real('p%d' % i) for i in range(3 * n)]
    def body(it):
        lo, hi = t['window']
        for b in range(n):
            for d in range(3):
                p = pos[3 * b + d]
                cell = t['cells'].get(str(b))
                if cell is not None:        # bead b confined to one grid cell of the primary image (open interval)
                    w = L[d] / t['N'][d]; it.assume(z3.And(p > cell[d] * w, p < (cell[d] + 1) * w))
                else: it.assume(z3.And(p > lo * L[d], p < hi * L[d]))
        pp = alloc_doubles(it, 'pos', pos); pb = alloc_doubles(it, 'box', [L[0], 0, 0, 0, L[1], 0, 0, 0, L[2]]); pm = alloc_i64(it, 'mols', t['mols'])
        ids = it.alloc(8 * 64, 'ids'); rs = it.alloc(8 * 128, 'rs'); sc = it.alloc(8 * 4 * n * n, 'sc')
        k = sgn64(it.call('@h_pairs', [grid, n, pp, pb, c, pm, t['excl'], ids, rs, 32, sc]))
        kk = max(0, min(k, 32))
        return (k, [sgn64(it.load(Ptr(ids.obj, 8 * i), 8)) for i in range(2 * kk)], read_doubles(it, rs, 4 * kk),
                {(i, j): read_doubles(it, Ptr(sc.obj, 8 * 4 * (i * n + j)), 4) for i in range(n) for j in range(i + 1, n)})
    t0 = time.time()
    try:
        res, st = explore(mod, models.all_models(), body, parsed=parsed, max_paths=t.get('max_paths', 6000), timeout=t.get('timeout', 1200))
    except symx.Unsupported as ex:
        return {'task': t, 'error': 'Unsupported: %s' % ex, 'results': [], 'npaths': 0}
    # per path: the queries (as SMT-LIB text is awkward across processes: decide here)
    out = []; cR = z3.RealVal(c)
    for it, (k, ids, rs, sc) in res:
        pc = list(it.pc); bad = None
        pairs = [(ids[2 * a], ids[2 * a + 1]) for a in range(max(k, 0))]
        if k < 0: bad = ('threw', None)
        else:
            for (i, j), v in sc.items():
                excluded = bool(t['excl']) and t['mols'][i] == t['mols'][j]
                cnt = sum(1 for pq in pairs if set(pq) == {i, j})
                S = R(v[3])
                if cnt > 1: bad = ('pair (%d,%d) delivered %d times' % (i, j, cnt), None); break
                if excluded:
                    if cnt: bad = ('excluded pair (%d,%d) delivered' % (i, j), None); break
                    continue
                # delivered <=> shortest-connection length < cutoff (the case length == cutoff is outside: strict inequality on a double)
                # sound auxiliary facts (a norm is at least each of its components in absolute value): they make the
                # 'never tested because the cells are not neighbours' case a linear problem
                lem = [z3.And(S >= R(v[d]), S >= -R(v[d])) for d in range(3)]
                q = pc + lem + ([S >= cR] if cnt else [S < cR])
                st_, mdl, _ = _check(q)
                if st_ == 'sat': bad = ('pair (%d,%d) %s although its shortest-connection length is %s the cutoff' % (i, j, 'delivered' if cnt else 'missing', 'not below' if cnt else 'below'), mdl); break
                if st_ == 'unknown': bad = ('unknown', None); break
                if cnt:
                    a = [x for x, pq in enumerate(pairs) if set(pq) == {i, j}][0]
                    sgn = 1 if pairs[a] == (i, j) else -1
                    goal = z3.And([R(rs[4 * a + d]) == sgn * R(v[d]) for d in range(3)] + [R(rs[4 * a + 3]) == S])
                    st_, mdl, _ = _check(pc + [z3.Not(goal)])
                    if st_ == 'sat': bad = ('pair (%d,%d) stored with a vector/distance that is not its shortest connection' % (i, j), mdl); break
                    if st_ == 'unknown': bad = ('unknown', None); break
        out.append((k, bad))
        if bad and bad[0] != 'unknown': break          # one replayable failure is enough for this exploration
    return {'task': t, 'results': out, 'npaths': len(res), 'instructions': st['instructions'], 'time_s': round(time.time() - t0, 1), 'models': sorted(st['models_used'])}

def _check(cons):
    s = z3.Solver(); s.set('timeout', 30000)
    s.add(*smt.purify(list(cons)))
    r = s.check()
    if r == z3.sat:
        m = s.model(); return 'sat', {str(d): str(m[d]) for d in m.decls() if str(d).startswith('p')}, None
    return ('unsat' if r == z3.unsat else 'unknown'), None, None

def plan(tier, irpath):
    tasks = []; quick = tier == 'quick'
    base = {'ir': irpath, 'cutoff': '1', 'window': (-1, 2)}
    # simple search: 2 and 3 beads anywhere in the window, with and without exclusions
    for n in (2, 3):
        for excl, mols in ((0, list(range(n))), (1, [0] * (n - 1) + [1])):
            tasks.append(dict(base, grid=0, n=n, L=['5/2', '5/2', '5/2'], N=[1, 1, 1], cells={}, mols=mols, excl=excl, label='simple search, %d beads%s, cubic box 2.5, cutoff 1' % (n, ', beads 0..%d in one molecule and mutually excluded' % (n - 2) if excl else '')))
    # grid search: bead 0 confined to one grid cell of the primary image, bead 1 anywhere in the 3x3x3 images around it
    grids = [(['5/2', '5/2', '5/2'], [2, 2, 2]), (['5/2', '9/2', '2'], [2, 4, 2])] + ([] if quick else [(['7/2', '7/2', '7/2'], [3, 3, 3])])
    for L, N in grids:
        cells = list(itertools.product(*[range(k) for k in N]))
        pick = [cells[0], cells[-1]] if quick else (cells if len(cells) <= 16 else [cells[0], cells[13], cells[-1]])
        for cA in pick:
            tasks.append(dict(base, grid=1, n=2, L=L, N=N, cells={'0': list(cA)}, mols=[0, 1], excl=0, label='grid search, %dx%dx%d cells (box %s, cutoff 1), bead 0 in cell %s, bead 1 anywhere within one box length around the box' % (N[0], N[1], N[2], 'x'.join(L), list(cA))))
    tasks.append(dict(base, grid=1, n=2, L=['5/2', '5/2', '5/2'], N=[2, 2, 2], cells={'0': [0, 0, 0]}, mols=[0, 0], excl=1, label='grid search, 2x2x2 cells, both beads in one molecule and excluded'))
    return tasks

def check_pairs(ck, tier, found):
    ir, dt = common.compile_ir(common.harness_path(HARNESS), extra=['-I' + common.REPO])
    irpath = os.path.join(common.workdir(), 'C03_pairs.ll')
    mod = llir.parse_module(ir)
    ck.units += ['csg/src/libcsg/nblist.cc', 'csg/src/libcsg/nblistgrid.cc (Generate, TestBead, TestCell)', 'csg/src/libcsg/beadlist.cc', 'csg/src/libcsg/topology.cc']
    ck.functions.update(common.ir_func_sizes(mod, r'^@h_pairs|NBListGrid(8Generate|8TestBead|8TestCell|14InitializeGrid|7getCell)|NBList8Generate|PairList'))
    tasks = plan(tier, irpath)
    etasks = [{'ir': irpath, 'kind': 'excl', 'angle_first': af, 'label': 'CreateExclusions'} for af in (1, 0)]
    A, B, C = 65, 66, 67
    for variant, tt, types, lab in ((1, (A, A, A), [A, A, A], 'one list, beads AAA'), (1, (A, A, A), [A, A, B], 'one list of type A, beads AAB'), (2, (A, B, B), [A, B, B], 'two lists (A; B), beads ABB'), (2, (A, B, B), [B, A, B], 'two lists (A; B), beads BAB'),
                                     (3, (A, B, C), [A, B, C], 'three lists (A; B; C), beads ABC'), (3, (A, A, B), [A, A, B], 'three separately generated lists (A; A; B), beads AAB'), (3, (A, B, A), [A, B, A], 'three separately generated lists (A; B; A), beads ABA'), (3, (A, A, A), [A, A, A], 'three separately generated lists (A; A; A), beads AAA')):
        etasks.append({'ir': irpath, 'kind': 'triples', 'n': 3, 'L': ['5/2', '5/2', '5/2'], 'cutoff': '1', 'window': (-1, 2), 'variant': variant, 't': list(tt), 'types': types, 'label': 'simple three-body search, ' + lab})
    nw = min(14, os.cpu_count() or 4); t0 = time.time()
    with multiprocessing.get_context('fork').Pool(nw) as pool:
        allres = pool.map(dispatch, sorted(tasks + etasks, key=lambda t: 0 if (t.get('kind') == 'excl' or t.get('grid')) else 1), chunksize=1)
    results = [r for r in allres if r['task'].get('kind') not in ('excl', 'triples')]
    for r in allres:
        t = r['task']
        if t.get('kind') != 'triples': continue
        ck.stubs |= set(r.get('models', []))
        if r.get('error') and not r.get('results'): ck.inconc('three-body search %s: %s' % (t['label'], r['error'])); continue
        if r.get('error'): ck.inconc('three-body search %s: %s' % (t['label'], r['error']))
        ck.add_witness('%s: %d paths' % (t['label'], r['npaths']), r['npaths'] >= 1)
        bads = [b for k, b in r['results'] if b]; unk = [b for b in bads if b[0] == 'unknown']; real = [b for b in bads if b[0] != 'unknown']
        name = '%s, 3 beads anywhere around a cubic box 2.5, cutoff 1: exactly the triples (centre; {j,k}) allowed by the type lists with both centre distances below the cutoff are delivered, once each, never with a bead twice' % t['label']
        ck.obligation(name, 'sat' if real else ('unknown' if unk else 'unsat'), 0.0, True, {'paths': r['npaths'], 'first_failure': real[0][0] if real else None})
        if real: found.append(('triples', name + ' ; ' + real[0][0], {'task': {k: v for k, v in t.items() if k != 'ir'}, 'model': real[0][1] or {}}))
    for r in allres:
        t = r['task']
        if t.get('kind') != 'excl': continue
        ck.stubs |= set(r.get('models', []))
        if r.get('error'): ck.inconc('CreateExclusions: ' + r['error']); continue
        af = t['angle_first']
        ck.add_witness('CreateExclusions (%s first): %d index assignments explored' % ('angle' if af else 'bond', r['npaths']), r['npaths'] >= 24)
        name = 'exclusions from bonded interactions, angle (a,b,c) and bond (d,e) over every choice of bead indices in a 4-bead molecule, %s registered first: IsExcluded(x,y) <=> x != y and x,y share an interaction; a bead of another molecule is never excluded' % ('angle' if af else 'bond')
        bad = r.get('bad')
        ck.obligation(name, 'sat' if bad else 'unsat', 0.0, True, bad or {'index_assignments': r['npaths']})
        if bad: found.append(('create-exclusions', name + ' ; fails for %s' % bad, {'task': {'label': 'CreateExclusions', 'kind': 'excl'}, 'model': bad}))
    ck.notes.append('pair-search clauses: %d explorations, %.0f s wall, %d paths' % (len(tasks), time.time() - t0, sum(r['npaths'] for r in results)))
    for r in results:
        t = r['task']; ck.stubs |= set(r.get('models', []))
        if r.get('error'): ck.inconc('pair search %s: %s' % (t['label'], r['error'])); continue
        ck.add_witness('pair search %s: %d paths, pairs delivered on %d of them' % (t['label'], r['npaths'], sum(1 for k, b in r['results'] if k > 0)), r['npaths'] >= 2 and any(k > 0 for k, b in r['results']) or bool(t['excl'] and len(set(t['mols'])) == 1))
        bads = [b for k, b in r['results'] if b]
        unk = [b for b in bads if b[0] == 'unknown']; real = [b for b in bads if b[0] != 'unknown']
        name = 'pair search (%s): every non-excluded pair is delivered exactly once iff its shortest-connection length is below the cutoff, stored with that vector and distance; excluded pairs never' % t['label']
        ck.obligation(name, 'sat' if real else ('unknown' if unk else 'unsat'), r.get('time_s', 0.0), True, {'paths': r['npaths'], 'first_failure': real[0][0] if real else None})
        if real: found.append(('pairs', name + ' ; ' + real[0][0], {'task': {k: v for k, v in t.items() if k != 'ir'}, 'model': real[0][1] or {}}))
    ck.bounds['pair search'] = 'orthorhombic boxes and cutoff as listed per obligation; 2 beads (simple search also 3); bead positions arbitrary reals within one box length around the box (grid search: bead 0 within one grid cell); cell faces, ties of the image rounding and length == cutoff excluded'
    ck.assumptions.append('pair search: the minimum-image vector and distance are what Topology::BCShortestConnection returns for the two positions (its minimum-image property is C02); match functions and the three-body lists are outside')

def ss_models():
    """std::stringstream used only to build interaction names: contents kept per stream object"""
    M = models.all_models(); buf = {}
    def ctor(it, a):
        # libstdc++ x86-64 layout: istream {vptr, gcount} at 0, ostream {vptr} at 16, stringbuf at 24, basic_ios at 128
        this = a[0]; buf[this.obj] = []; it.zerofill(this, 392)
        for off in (0, 16):
            vt = it.alloc(128, 'stringstream-vtable(model)'); it.zerofill(vt, 128); it.store(Ptr(vt.obj, 64 - 24), 128 - off, 8); it.store(Ptr(this.obj, this.off + off), Ptr(vt.obj, 64), 8)
        import fileio
        it.store(Ptr(this.obj, this.off + 128 + 240), fileio.FileIO()._facet(it), 8)
        return None
    M_clear = lambda it, a: None
    def ins_long(it, a):
        if a[0].obj in buf: buf[a[0].obj] += list(str(sgn64(a[1])).encode())
        return a[0]
    def ins_str(it, a):
        if a[0].obj in buf: buf[a[0].obj] += models.rd(it, a[1], a[2])
        return a[0]
    def str_(it, a):
        res, this = a; models.sinit(it, res, buf.get(this.obj, [])); return None
    M.update({'re:^@_ZNSt7__cxx1118basic_stringstreamIcSt11char_traitsIcESaIcEEC[12]Ev': ctor, 're:^@_ZNSt7__cxx1118basic_stringstreamIcSt11char_traitsIcESaIcEED[012]Ev': lambda it, a: None,
              '@_ZNSo9_M_insertIlEERSoT_': ins_long, 're:^@_ZSt16__ostream_insertIcSt11char_traitsIcEE': ins_str, '@_ZNKSt7__cxx1118basic_stringstreamIcSt11char_traitsIcESaIcEE3strEv': str_})
    return M

def excl_task(t):
    """ExclusionList::CreateExclusions on a topology whose bonded interactions are an angle (a,b,c) and a bond (d,e) with
    SYMBOLIC bead indices among the four beads of one molecule, in the given registration order."""
    mod, parsed = _module(t['ir']); angle_first = t['angle_first']
    a, b, c, d, e = z3.Ints('a b c d e')
    def body(it):
        for v in (a, b, c, d, e): it.assume(z3.And(v >= 0, v <= 3))
        it.assume(z3.Distinct(a, b, c)); it.assume(d != e)
        it.track_vars = [a, b, c, d, e]
        out = it.alloc(8 * 25, 'out')
        rc = sgn64(it.call('@h_create_excl', [a, b, c, d, e, angle_first, out]))
        return rc, [sgn64(it.load(Ptr(out.obj, 8 * i), 8)) for i in range(25)]
    try:
        res, st = explore(mod, ss_models(), body, parsed=parsed, max_paths=3000, timeout=900)
    except symx.Unsupported as ex:
        return {'task': t, 'error': 'Unsupported: %s' % ex, 'npaths': 0}
    bad = None
    for it, (rc, out) in res:
        s_ = z3.Solver(); s_.add(*it.pc)
        if s_.check() != z3.sat: continue
        m = s_.model(); va, vb, vc, vd, ve = [m.eval(v, model_completion=True).as_long() for v in (a, b, c, d, e)]
        for i in range(5):
            for j in range(5):
                exp = 1 if (i != j and ({i, j} <= {va, vb, vc} or {i, j} == {vd, ve})) else 0
                if rc != 0 or out[5 * i + j] != exp:
                    bad = bad or {'a': va, 'b': vb, 'c': vc, 'd': vd, 'e': ve, 'angle_first': angle_first, 'pair': [i, j], 'got': out[5 * i + j], 'expected': exp}
    return {'task': t, 'npaths': len(res), 'bad': bad, 'models': sorted(st['models_used'])}

def expected_triples(t):
    """(centre, {j,k}) candidates allowed by the type lists of the variant"""
    n = t['n']; ty = t['types']; v = t['variant']; t1, t2, t3 = t['t']
    L1 = [i for i in range(n) if ty[i] == t1]; L2 = [i for i in range(n) if ty[i] == (t1 if v == 1 else t2)]; L3 = [i for i in range(n) if ty[i] == (t1 if v == 1 else (t2 if v == 2 else t3))]
    cand = set()
    for c in L1:
        for j in L2:
            for k in L3:
                if len({c, j, k}) == 3: cand.add((c, frozenset((j, k))))
    return cand

def triple_task(t):
    mod, parsed = _module(t['ir']); n = t['n']; L = [F(x) for x in t['L']]; c = F(t['cutoff'])
    pos = [z3.Real('p%d' % i) for i in range(3 * n)]
    def body(it):
        lo, hi = t['window']
        for b in range(n):
            for d in range(3): it.assume(z3.And(pos[3 * b + d] > lo * L[d], pos[3 * b + d] < hi * L[d]))
        pp = alloc_doubles(it, 'pos', pos); pb = alloc_doubles(it, 'box', [L[0], 0, 0, 0, L[1], 0, 0, 0, L[2]]); pt = alloc_i64(it, 'types', t['types'])
        ids = it.alloc(8 * 96, 'ids'); sc = it.alloc(8 * 4 * n * n, 'sc')
        k = sgn64(it.call('@h_triples', [n, pp, pb, c, pt, t['variant'], t['t'][0], t['t'][1], t['t'][2], ids, 32, sc]))
        kk = max(0, min(k, 32))
        return k, [sgn64(it.load(Ptr(ids.obj, 8 * i), 8)) for i in range(3 * kk)], {(i, j): read_doubles(it, Ptr(sc.obj, 8 * 4 * (i * n + j)), 4) for i in range(n) for j in range(n) if i != j}
    try:
        res, st = explore(mod, models.all_models(), body, parsed=parsed, max_paths=400, timeout=150, partial=True)
    except symx.Unsupported as ex:
        return {'task': t, 'error': 'Unsupported: %s' % ex, 'results': [], 'npaths': 0}
    if st.get('truncated'): res = res[:60]
    cand = expected_triples(t); cR = z3.RealVal(c); out = []
    for it, (k, ids, sc) in res:
        pc = list(it.pc); bad = None
        got = [(ids[3 * a], frozenset((ids[3 * a + 1], ids[3 * a + 2]))) for a in range(max(k, 0))]
        if k < 0: bad = ('threw', None)
        for g in got:
            if bad: break
            if len(g[1]) != 2 or g[0] in g[1]: bad = ('degenerate triple %s delivered (a bead twice)' % ((g[0],) + tuple(sorted(g[1])),), _model(pc))
            elif g not in cand: bad = ('triple %s delivered although the type lists do not allow it' % ((g[0],) + tuple(sorted(g[1])),), _model(pc))
            elif got.count(g) > 1: bad = ('triple %s delivered %d times' % ((g[0],) + tuple(sorted(g[1])), got.count(g)), _model(pc))
        for (ce, jk) in sorted(cand, key=lambda x: (x[0], sorted(x[1]))):
            if bad: break
            j, k2 = sorted(jk); S1 = R(sc[(ce, j)][3]); S2 = R(sc[(ce, k2)][3]); present = (ce, jk) in got
            lem = [z3.And(S >= R(sc[(ce, o)][d]), S >= -R(sc[(ce, o)][d])) for o, S in ((j, S1), (k2, S2)) for d in range(3)]
            q = pc + lem + ([z3.Or(S1 >= cR, S2 >= cR)] if present else [z3.And(S1 < cR, S2 < cR)])
            st_, mdl, _ = _check(q)
            if st_ == 'sat': bad = ('triple (centre %d; %d,%d) %s although %s' % (ce, j, k2, 'delivered' if present else 'missing', 'a centre distance is not below the cutoff' if present else 'both centre distances are below the cutoff'), mdl)
            elif st_ == 'unknown': bad = ('unknown', None)
        out.append((k, bad))
        if bad and bad[0] != 'unknown': break
    r = {'task': t, 'results': out, 'npaths': len(res), 'instructions': st['instructions'], 'models': sorted(st['models_used'])}
    if st.get('truncated') and not any(b and b[0] != 'unknown' for k, b in out): r['error'] = 'exploration truncated (%s) and no failure on the explored paths' % st['truncated']
    return r

def _model(pc):
    s = z3.Solver(); s.set('timeout', 30000); s.add(*smt.purify(list(pc)))
    if s.check() != z3.sat: return {}
    m = s.model(); return {str(d): str(m[d]) for d in m.decls() if str(d).startswith('p')}

def dispatch(t):
    return excl_task(t) if t.get('kind') == 'excl' else (triple_task(t) if t.get('kind') == 'triples' else run_task(t))

def replay_native(meta):
    if meta['task'].get('kind') == 'excl':
        binp = common.native_build([common.harness_path(HARNESS)], 'C03p_native', extra=['-I' + common.REPO], defs=['VERIF_NATIVE'], libs=['-lexpat'])
        m = meta['model']; rc, so, se = common.run_native(binp, args=['excl'] + [str(m[k]) for k in ('a', 'b', 'c', 'd', 'e', 'angle_first')])
        line = [l for l in so.split('\n') if l.startswith('RESULT')]
        if not line: return True, 'native run gave no result'
        v = [int(x) for x in line[0].split()[1:]]; i, j = m['pair']
        return v[0] != 0 or v[1 + 5 * i + j] != m['expected'], 'native CreateExclusions with angle (%d,%d,%d), bond (%d,%d), %s first: IsExcluded(%d,%d) = %d, expected %d' % (m['a'], m['b'], m['c'], m['d'], m['e'], 'angle' if m['angle_first'] else 'bond', i, j, v[1 + 5 * i + j], m['expected'])
    binp = common.native_build([common.harness_path(HARNESS)], 'C03p_native', extra=['-I' + common.REPO], defs=['VERIF_NATIVE'], libs=['-lexpat'])
    if meta['task'].get('kind') == 'triples':
        binp = common.native_build([common.harness_path(HARNESS)], 'C03p_native', extra=['-I' + common.REPO], defs=['VERIF_NATIVE'], libs=['-lexpat'])
        t = meta['task']; m = meta.get('model') or {}; n = t['n']
        def num(v):
            try: return float(F(str(v).rstrip('?')))
            except Exception: return 0.0
        pos = [num(m.get('p%d' % i, '0')) for i in range(3 * n)]; L = [float(F(x)) for x in t['L']]; c = float(F(t['cutoff']))
        args = ['triples', str(n), str(t['variant'])] + [str(x) for x in t['t']] + [repr(c)] + [repr(x) for x in (L[0], 0, 0, 0, L[1], 0, 0, 0, L[2])] + [repr(x) for x in pos] + [str(x) for x in t['types']]
        rc, so, se = common.run_native(binp, args=args); line = [l for l in so.split('\n') if l.startswith('RESULT')]
        if not line: return True, 'native run gave no result'
        v = [int(x) for x in line[0].split()[1:]]; got = [(v[1 + 3 * a], frozenset((v[2 + 3 * a], v[3 + 3 * a]))) for a in range(max(v[0], 0))]
        import math
        def dist(i, j):
            d = [pos[3 * j + q] - pos[3 * i + q] for q in range(3)]; d = [x - L[q] * round(x / L[q]) for q, x in enumerate(d)]; return math.sqrt(sum(x * x for x in d))
        exp = sorted((ce, tuple(sorted(jk))) for ce, jk in expected_triples(t) if all(dist(ce, o) < c for o in jk))
        gl = sorted((ce, tuple(sorted(jk))) for ce, jk in got)
        return gl != exp, 'native three-body search (%s), positions %s: delivered %s, expected %s' % (t['label'], pos, gl, exp)
    t = meta['task']; m = meta.get('model') or {}; n = t['n']
    def num(v):
        v = str(v).rstrip('?')
        try: return float(F(v))
        except Exception: return 0.0
    pos = [num(m.get('p%d' % i, '0')) for i in range(3 * n)]; L = [float(F(x)) for x in t['L']]; c = float(F(t['cutoff']))
    args = ['pairs', str(t['grid']), str(n), str(t['excl']), repr(c)] + [repr(x) for x in (L[0], 0, 0, 0, L[1], 0, 0, 0, L[2])] + [repr(x) for x in pos] + [str(x) for x in t['mols']]
    rc, so, se = common.run_native(binp, args=args)
    line = [l for l in so.split('\n') if l.startswith('RESULT')]
    if not line: return True, 'native run gave no result'
    v = line[0].split()[1:]; k = int(v[0]); pairs = [(int(v[1 + 6 * a]), int(v[2 + 6 * a])) for a in range(max(k, 0))]
    # brute-force oracle
    import math
    bad = []
    for i in range(n):
        for j in range(i + 1, n):
            d = [pos[3 * j + q] - pos[3 * i + q] for q in range(3)]; d = [x - L[q] * round(x / L[q]) for q, x in enumerate(d)]; dist = math.sqrt(sum(x * x for x in d))
            exp = dist < c and not (t['excl'] and t['mols'][i] == t['mols'][j]); cnt = sum(1 for pq in pairs if set(pq) == {i, j})
            if cnt != (1 if exp else 0): bad.append('pair (%d,%d): minimum-image distance %.6g, cutoff %g, delivered %d time(s)' % (i, j, dist, c, cnt))
    return bool(bad), 'native %s search, positions %s: %s' % ('grid' if t['grid'] else 'simple', pos, '; '.join(bad) if bad else 'as expected')

# ---------------------------------------------------------------- bead selection by type / "name:" pattern (used by C18)
def check_selection(ck, tier, found):
    """BeadList::Generate(top, select): with the selection string's bytes symbolic.  The glob matcher itself is decided bit-precisely
    in C18/E1; here it is a contract stub (arguments recorded, result a fresh boolean), and the obligation is that Generate asks
    it exactly (select, bead type) -- or (select without the 'name:' prefix, bead name) -- and keeps exactly the beads it accepts."""
    ir, dt = common.compile_ir(common.harness_path(HARNESS), extra=['-I' + common.REPO]); mod = llir.parse_module(ir); parsed = {}
    ck.units += ['csg/src/libcsg/beadlist.cc (Generate)']
    L = 8 if tier == 'quick' else 10
    name0, name1 = b'1:RES:CA', b'CB'
    for prefix in (b'name:', b''):
        nsym = L - len(prefix)
        sb = [z3.Int('c%d' % i) for i in range(nsym)]
        calls = []
        def m_wild(it, a):
            pat = bytes_or_sym(it, a[0]); st = bytes_or_sym(it, a[1]); r = z3.Bool('w%d' % len(calls)); calls.append((pat, st, r))
            return z3.If(r, z3.IntVal(1), z3.IntVal(0))
        def bytes_or_sym(it, sp): return models.sget(it, sp)
        M = models.all_models(); names = [n for n in list(mod.funcs) + list(mod.decls) if 'verif_wildcmp_hook' in n]
        for nm in names: M[nm] = m_wild
        def body(it):
            del calls[:]
            for c in sb: it.assume(z3.And(c >= 33, c <= 126))       # printable, no blank
            if not prefix: it.assume(z3.Not(z3.And([sb[i] == ch for i, ch in enumerate(b'name:')])))
            buf = it.alloc(L + 1, 'select')
            for i, ch in enumerate(prefix): it.store(Ptr(buf.obj, i), ch, 1)
            for i, c in enumerate(sb): it.store(Ptr(buf.obj, len(prefix) + i), c, 1)
            it.store(Ptr(buf.obj, L), 0, 1)
            n0 = it.alloc(len(name0) + 1, 'n0'); n1 = it.alloc(len(name1) + 1, 'n1')
            for i, ch in enumerate(name0 + b'\0'): it.store(Ptr(n0.obj, i), ch, 1)
            for i, ch in enumerate(name1 + b'\0'): it.store(Ptr(n1.obj, i), ch, 1)
            ty = alloc_i64(it, 'types', [65, 66]); sel = it.alloc(16, 'sel')
            k = it.call('@h_select', [buf, ty, n0, n1, sel])
            return k, [it.load(Ptr(sel.obj, 8 * i), 8) for i in range(2)], list(calls)
        if not names: ck.inconc('bead selection: the forwarding hook of the glob matcher was not found in the module'); return
        res, st = explore(mod, M, body, parsed=parsed, max_paths=600, timeout=240, partial=True); ck.stubs |= st['models_used'] | {'tools::wildcmp(string,string) -> contract stub (decided bit-precisely in the E1 part of C18)'}
        truncated = st.get('truncated')
        ck.add_witness('bead selection (%s): %d paths' % ('name: prefix' if prefix else 'type selection', len(res)), len(res) >= 1)
        q = []
        for it, (k, sel, cl) in res:
            pc = list(it.pc); goal = []
            if len(cl) != 2: q.append((pc, [z3.BoolVal(True)])); continue
            exp_pat = list(sb) if prefix else list(sb)
            for i, (pat, st_, r) in enumerate(cl):
                target = (name0, name1)[i] if prefix else (b'A', b'B')[i]
                goal.append(z3.BoolVal(len(pat) == nsym and [x & 0xff if not is_sym(x) else None for x in st_] == list(target)))
                if len(pat) == nsym: goal += [(x if is_sym(x) else z3.IntVal(x & 0xff)) == sb[j] for j, x in enumerate(pat)]
                s_i = sel[i] if is_sym(sel[i]) else z3.IntVal(sgn64(sel[i]))
                goal.append(s_i == z3.If(r, 1, 0))
            q.append((pc, [z3.Not(z3.And(goal))]))
        name = 'BeadList::Generate with a %d-character selection %s: the glob matcher is asked exactly (%s, bead %s) for every bead and exactly the accepted beads are listed, once' % (L, '"name:" + %d arbitrary printable characters' % nsym if prefix else 'of arbitrary printable characters not starting with "name:"', 'the text after the prefix' if prefix else 'the whole selection', 'name' if prefix else 'type')
        s_, mdl = smt.agg_core(ck, name, q[:120] if truncated else q, 60)
        if truncated and s_ != 'sat': ck.inconc('bead selection (%s): exploration truncated (%s) and no failure on the explored paths' % ('name: prefix' if prefix else 'type selection', truncated))
        if s_ == 'sat': found.append(('selection', name, {'task': {'label': 'bead selection', 'kind': 'select', 'prefix': prefix.decode(), 'n': nsym, 'names': [name0.decode(), name1.decode()]}, 'model': mdl}))

def replay_selection(meta):
    binp = common.native_build([common.harness_path(HARNESS)], 'C03p_native', extra=['-I' + common.REPO], defs=['VERIF_NATIVE'], libs=['-lexpat'])
    t = meta['task']; m = meta.get('model') or {}
    import re, itertools
    def glob(p, s_):
        # '*' any run, '?' one character, everything else literal (the semantics of tools::wildcmp)
        return re.fullmatch(''.join('.*' if c == '*' else ('.' if c == '?' else re.escape(c)) for c in p), s_, re.S) is not None
    def run(sel):
        rc, so, se = common.run_native(binp, args=['select', sel, '65', '66'] + t['names'])
        line = [l for l in so.split('\n') if l.startswith('RESULT')]
        if not line: return None, None
        v = [int(x) for x in line[0].split()[1:]]
        pat = sel[5:] if sel.startswith('name:') else sel; targets = t['names'] if sel.startswith('name:') else ['A', 'B']
        return v[1:3], [1 if glob(pat, x) else 0 for x in targets]
    first = t['prefix'] + ''.join(chr(int(str(m.get('c%d' % i, 42)))) for i in range(t['n']))
    # the solver's model shows that the matcher is asked something else; the selections built from it and from a small probe
    # alphabet are run natively until one shows the difference in the beads selected
    cands = [first] + [t['prefix'] + ''.join(c) for c in itertools.product('*?:1CRAB', repeat=min(t['n'], 3))] if t['n'] <= 3 else [first] + [''.join(c) + 'x' * (t['n'] - 3) for c in itertools.product('*?:AB', repeat=3)]
    last = None
    for sel in cands[:600]:
        got, exp = run(sel)
        if got is None: return True, 'native run gave no result for %r' % sel
        last = (sel, got, exp)
        if got != exp: return True, 'native BeadList::Generate(%r) on beads named %s / typed A,B selects %s, glob semantics give %s' % (sel, t['names'], got, exp)
    return False, 'native BeadList::Generate agrees with glob semantics on %d probe selections (last %r)' % (len(cands[:600]), last)
