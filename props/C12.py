# C12 — splines and table smoothing (E2): interpolation, continuity, straight-line reproduction, linearity, boundary conditions
import sys, os, json, time, random, math, itertools
from fractions import Fraction as F
import z3
import common, llir, symx, models, smt
from symx import Ptr, alloc_doubles, read_doubles, explore, is_sym

HARNESS = 'C12_spline.cc'
GRIDS = {4: [[F(0), F(1), F(2), F(3)], [F(0), F(1, 2), F(2), F(3)]], 5: [[F(0), F(1), F(2), F(3), F(4)], [F(-1), F(0), F(1, 3), F(2), F(7, 2)]], 3: [[F(0), F(1), F(2)], [F(0), F(1, 2), F(2)]], 6: [[F(0), F(1), F(3, 2), F(3), F(4), F(6)]]}

# ---- contract stub for Eigen::HouseholderQR (third-party): x with A x = b, obligation det A != 0 ----
class QRContract:
    def __init__(s): s.A = {}; s.events = []
    def models(s):
        def rdmat(it, m):
            data = it.load(m, 8); rows = symx.sgn64(it.load(Ptr(m.obj, m.off + 8), 8)); cols = symx.sgn64(it.load(Ptr(m.obj, m.off + 16), 8))
            return [[it.load(Ptr(data.obj, data.off + 8 * (c * rows + r)), 8, llir.FloatTy(64)) for c in range(cols)] for r in range(rows)]
        def ctor(it, a):
            this, mat = a[0], a[1]
            s.A[(id(it), this.obj, this.off)] = rdmat(it, mat); return None
        def dtor(it, a): return None
        def solve(it, a):
            this, rhs, dst = a
            A = s.A[(id(it), this.obj, this.off)]; n = len(A)
            bd = it.load(rhs, 8); b = [it.load(Ptr(bd.obj, bd.off + 8 * i), 8, llir.FloatTy(64)) for i in range(n)]
            x, info = solve_linear(it, A, b)
            s.events.append(info)
            nd = it.alloc(8 * n, 'qr_solution'); it.store(dst, nd, 8); it.store(Ptr(dst.obj, dst.off + 8), n, 8)
            for i in range(n): it.store(Ptr(nd.obj, 8 * i), x[i], 8)
            return None
        P = 'N5Eigen13HouseholderQRINS_6MatrixIdLin1ELin1ELi0ELin1ELin1EEEE'
        return {'re:^@_Z' + P + 'C[12]IS2_EERNS_9EigenBaseIT_EE': ctor, 're:^@_Z' + P + 'D[12]Ev': dtor, 're:^@_ZNK' + P[1:] + '11_solve_impl': solve}

def solve_linear(it, A, b):
    """exact solve by fraction-free Gaussian elimination when A is concrete; otherwise fresh symbols with A x = b"""
    n = len(A)
    if all(not is_sym(v) for row in A for v in row):
        M = [[F(v) for v in row] for row in A]; B = [it.R(v) if is_sym(v) else z3.RealVal(F(v)) for v in b]
        det = F(1)
        for c in range(n):
            piv = next((r for r in range(c, n) if M[r][c] != 0), None)
            if piv is None:
                xs = [z3.Real('qr_free!%d_%d' % (it.icount, i)) for i in range(n)]
                return xs, {'singular': True, 'matrix': [[str(v) for v in row] for row in A]}
            if piv != c: M[c], M[piv] = M[piv], M[c]; B[c], B[piv] = B[piv], B[c]; det = -det
            det *= M[c][c]
            for r in range(n):
                if r != c and M[r][c] != 0:
                    f = M[r][c] / M[c][c]
                    M[r] = [a - f * bb for a, bb in zip(M[r], M[c])]; B[r] = B[r] - z3.RealVal(f) * B[c]
        return [z3.simplify(B[i] / z3.RealVal(M[i][i])) for i in range(n)], {'singular': False, 'det': str(det)}
    xs = [z3.Real('qr_x!%d_%d' % (it.icount, i)) for i in range(n)]
    for r in range(n):
        it.assume(sum((it.R(A[r][c]) * xs[c] for c in range(1, n)), it.R(A[r][0]) * xs[0]) == it.R(b[r]))
    return xs, {'singular': None, 'symbolic_matrix': True}

def run(mod, fn, args_builder, parsed, extra_models=None, assume=(), max_paths=5000):
    M = models.all_models()
    if extra_models: M.update(extra_models)
    def body(it):
        for c in assume: it.assume(c)
        return args_builder(it)
    return explore(mod, M, body, parsed=parsed, max_paths=max_paths)

def spline_eval(mod, kind, x, y, r, parsed, assume=(), periodic=0, qr=None):
    """all paths of Interpolate(x,y); Calculate(r); CalculateDerivative(r).  returns [(pc, value, deriv, aux)]"""
    n = len(x)
    def build(it):
        px = alloc_doubles(it, 'x', x); py = alloc_doubles(it, 'y', y); out = alloc_doubles(it, 'out', [F(0), F(0)]); aux = alloc_doubles(it, 'aux', [F(0)] * n)
        if kind == 'lin': rc = it.call('@h_lin', [px, py, n, r, out])
        elif kind == 'akima': rc = it.call('@h_akima', [px, py, n, periodic, r, out, aux])
        else: rc = it.call('@h_cubic', [px, py, n, periodic, r, out, aux])
        o = read_doubles(it, out, 2)
        return symx.sgn64(rc), o[0], o[1], read_doubles(it, aux, n)
    res, st = run(mod, kind, build, parsed, extra_models=qr.models() if qr else None, assume=assume)
    return [(list(it.pc), v) for it, v in res if v[0] == 0], st

def agg_prove(ck, name, queries, TO, found, tag):
    """queries: [(assumptions, negated_goal)] -- all must be unsat; reported as one obligation"""
    st, mdl = smt.agg_core(ck, name, queries, TO)
    if st == 'sat': found.append((tag, name, mdl))
    return st

def generic_spline_clauses(ck, mod, kind, x, ysyms, parsed, TO, found, label, assume=(), periodic=0, qr_factory=None, c1=True):
    """interpolation, continuity (C0, optionally C1), derivative consistency, straight-line reproduction"""
    n = len(x); r = z3.Real('r')
    mk = (lambda: qr_factory()) if qr_factory else (lambda: None)
    # polynomials per interval: r strictly inside interval i
    inside = {}
    for i in range(n - 1):
        p, st = spline_eval(mod, kind, x, ysyms, r, parsed, list(assume) + [r > x[i], r < x[i + 1]], periodic, mk())
        inside[i] = p; ck.stubs |= st['models_used']
    ck.add_witness('%s: every interval reached (%s paths)' % (label, [len(inside[i]) for i in range(n - 1)]), all(len(inside[i]) >= 1 for i in range(n - 1)))
    sub = lambda e, val: z3.substitute(e, (r, val if z3.is_expr(val) else z3.RealVal(val)))
    # S1 (C07): derivative of the value polynomial equals CalculateDerivative -- checked by a symmetric difference identity:
    # for a cubic P on the interval, P'(r) is determined by P; we compare d/dr via polynomial differentiation in z3 terms
    from algz import Algebra
    q = []
    for i in range(n - 1):
        for pc, (rc, val, der, aux) in inside[i]:
            A = Algebra()
            try:
                dval = A.total_deriv(A.rf(val), 'r')
                P = A.residual(A.rf(der), dval)
                q.append((A.definitions() + pc, [A.poly_z3(P) != 0]))
            except Exception as e:
                ck.inconc('%s derivative normal form: %s' % (label, e))
    agg_prove(ck, '%s: CalculateDerivative(r) = d/dr Calculate(r) on every open interval' % label, q, TO, found, label)
    # interpolation + continuity at knots: left and right polynomials at x_i equal y_i
    q0 = []; q1 = []
    for i in range(n):
        for side, iv in (('right', i), ('left', i - 1)):
            if iv < 0 or iv > n - 2: continue
            for pc, (rc, val, der, aux) in inside[iv]:
                pcs = [sub(c, x[i]) if False else c for c in pc]
                # the interval constraints on r are strict; evaluate the polynomial expression at the knot by substitution,
                # keeping only the path-condition atoms that do not mention r
                keep = [c for c in pc if not mentions(c, r)]
                q0.append((keep, [sub(val, x[i]) != ysyms[i]]))
        if 0 < i < n - 1 and c1:
            for pcl, (_, vl, dl, _) in inside[i - 1]:
                for pcr, (_, vr, dr, _) in inside[i]:
                    keep = [c for c in pcl + pcr if not mentions(c, r)]
                    q1.append((keep, [sub(dl, x[i]) != sub(dr, x[i])]))
    agg_prove(ck, '%s: S(x_i) = y_i from both adjacent polynomials (interpolation and continuity)' % label, q0, TO, found, label)
    if c1: agg_prove(ck, '%s: first derivative continuous at interior knots' % label, q1, TO, found, label)
    # Calculate exactly at a knot (the comparisons in getInterval decide which polynomial is used)
    qk = []
    for i in range(n):
        p, _ = spline_eval(mod, kind, x, ysyms, x[i] if z3.is_expr(x[i]) else F(x[i]), parsed, assume, periodic, mk())
        for pc, (rc, val, der, aux) in p: qk.append((pc, [val != ysyms[i]]))
    agg_prove(ck, '%s: Calculate(x_i) = y_i when called exactly on a knot' % label, qk, TO, found, label)
    # straight-line data reproduced inside the grid and in the clamped end intervals
    a, b = z3.Reals('la lb')
    yl = [a * (xi if z3.is_expr(xi) else z3.RealVal(xi)) + b for xi in x]
    ql = []
    for i in range(n - 1):
        p, _ = spline_eval(mod, kind, x, yl, r, parsed, list(assume) + [r >= x[i], r <= x[i + 1]], periodic, mk())
        for pc, (rc, val, der, aux) in p: ql.append((pc, [z3.Or(val != a * r + b, der != a)]))
    if periodic == 0:
        agg_prove(ck, '%s: straight-line data y = a x + b reproduced exactly (value and slope) everywhere inside the grid' % label, ql, TO, found, label)
    return inside

def akima_clauses(ck, mod, g, parsed, TO, found, label):
    """One exploration of Interpolate per evaluation region; all clauses are stated on the coefficients of that same path."""
    n = len(g); ys = [z3.Real('y%d' % i) for i in range(n)]; r = z3.Real('r'); a, b = z3.Reals('la lb')
    def ev(y, rr, assume):
        def build(it):
            px = alloc_doubles(it, 'x', g); py = alloc_doubles(it, 'y', y); out = alloc_doubles(it, 'out', [F(0), F(0)]); sl = alloc_doubles(it, 'sl', [F(0)] * n); co = alloc_doubles(it, 'co', [F(0)] * (4 * n))
            rc = it.call('@h_akima_coef', [px, py, n, 0, rr, out, sl, co]); o = read_doubles(it, out, 2)
            return symx.sgn64(rc), o[0], o[1], read_doubles(it, co, 4 * (n - 1))
        res, st = run(mod, 'akima', build, parsed, assume=assume); ck.stubs |= st['models_used']
        return [(list(it.pc), v) for it, v in res if v[0] == 0]
    h = [g[i + 1] - g[i] for i in range(n - 1)]
    P = lambda c, i, z: c[4 * i] + c[4 * i + 1] * z + c[4 * i + 2] * z * z + c[4 * i + 3] * z * z * z
    dP = lambda c, i, z: c[4 * i + 1] + 2 * c[4 * i + 2] * z + 3 * c[4 * i + 3] * z * z
    q_int = []; q_c1 = []; q_calc = []; q_line = []; npaths = []
    for i in range(n - 1):
        paths = ev(ys, r, [r >= g[i], r <= g[i + 1]] if 0 < i < n - 2 else ([r <= g[1]] if i == 0 else [r >= g[n - 2]]))
        npaths.append(len(paths))
        for pc, (rc, val, der, c) in paths:
            z = r - z3.RealVal(g[i])
            # Calculate / CalculateDerivative use the coefficients of the interval containing r (clamped at both ends)
            inside = [r >= g[i], r <= g[i + 1]] if 0 < i < n - 2 else ([r < g[1]] if i == 0 else [r > g[n - 2]])
            q_calc.append((pc + inside, [z3.Or(val != P(c, i, z), der != dP(c, i, z))]))
            if i == 0:
                keep = [x for x in pc if not mentions(x, r)]
                for k in range(n - 1):
                    q_int.append((keep, [z3.Or(P(c, k, z3.RealVal(0)) != ys[k], P(c, k, z3.RealVal(h[k])) != ys[k + 1])]))
                    if k < n - 2: q_c1.append((keep, [dP(c, k, z3.RealVal(h[k])) != dP(c, k + 1, z3.RealVal(0))]))
        pl = ev([a * z3.RealVal(x) + b for x in g], r, [r >= g[i], r <= g[i + 1]])
        for pc, (rc, val, der, c) in pl: q_line.append((pc, [z3.Or(val != a * r + b, der != a)]))
    ck.add_witness('%s: every interval reached (%s paths)' % (label, npaths), all(k >= 1 for k in npaths))
    agg_prove(ck, '%s: each interval polynomial takes the data values at both of its knots (interpolation, continuity)' % label, q_int, TO, found, label)
    agg_prove(ck, '%s: first derivative continuous at interior knots' % label, q_c1, TO, found, label)
    agg_prove(ck, '%s: Calculate/CalculateDerivative evaluate the polynomial (and its derivative) of the interval containing r, also exactly on knots' % label, q_calc, TO, found, label)
    agg_prove(ck, '%s: straight-line data y = a x + b reproduced exactly (value and slope) everywhere inside the grid' % label, q_line, TO, found, label)

def mentions(e, p):
    stack = [e]; seen = set()
    while stack:
        x = stack.pop()
        if x.get_id() in seen: continue
        seen.add(x.get_id())
        if x.eq(p): return True
        stack.extend(x.children())
    return False

def check_c12(ck, tier, replay=None):
    if replay: print('re-run ./check C12'); return 0
    TO = 60 if tier == 'quick' else 300
    ir, dt = common.compile_ir(common.harness_path(HARNESS), extra=['-I' + common.REPO])
    mod = llir.parse_module(ir)
    ck.units += ['tools/src/libtools/linspline.cc', 'tools/src/libtools/akimaspline.cc', 'tools/src/libtools/cubicspline.cc + cubicspline.h coefficient functions', 'tools/src/libtools/spline.cc (getInterval)', 'tools/src/libtools/table.cc (Smooth)']
    ck.functions.update(common.ir_func_sizes(mod, r'^@h_|Spline|Table6Smooth'))
    ck.assumptions += ['doubles as exact reals', 'Eigen::HouseholderQR (third party) replaced by its contract in CubicSpline::Interpolate: the solution of A x = b computed exactly, with the obligation det A != 0; the assembly of A and b is the real code',
                       'Akima/cubic: knots are concrete rational grids (uniform and non-uniform, listed in bounds), ordinates symbolic; linear spline: knots symbolic and strictly increasing', 'isApproximatelyEqual(1e-15) in AkimaSpline::getSlope is executed as written (forks)']
    validate(ck, mod)
    parsed = {}; found = []
    # ---------------- linear spline, symbolic knots ----------------
    for n in ((2, 3) if tier == 'quick' else (2, 3, 4)):
        xs = [z3.Real('x%d' % i) for i in range(n)]; ys = [z3.Real('y%d' % i) for i in range(n)]
        inc = [xs[i] < xs[i + 1] for i in range(n - 1)]
        generic_spline_clauses(ck, mod, 'lin', xs, ys, parsed, TO, found, 'LinSpline(n=%d, symbolic knots)' % n, assume=inc, c1=False)
        # linearity in the ordinates
        r = z3.Real('r'); lam = z3.Real('lam'); y2 = [z3.Real('z%d' % i) for i in range(n)]
        q = []
        for i in range(n - 1):
            dom = inc + [r >= xs[i], r <= xs[i + 1]]
            p1, _ = spline_eval(mod, 'lin', xs, ys, r, parsed, dom); p2, _ = spline_eval(mod, 'lin', xs, y2, r, parsed, dom)
            p3, _ = spline_eval(mod, 'lin', xs, [ys[k] + lam * y2[k] for k in range(n)], r, parsed, dom)
            for (c1_, v1), (c2_, v2), (c3_, v3) in itertools.product(p1, p2, p3): q.append((c1_ + c2_ + c3_, [v3[1] != v1[1] + lam * v2[1]]))
        agg_prove(ck, 'LinSpline(n=%d): S[y + lam z] = S[y] + lam S[z] (depends linearly on the ordinates)' % n, q, TO, found, 'lin')
    # ---------------- Akima, concrete grids ----------------
    for n in ((4, 5) if tier == 'quick' else (4, 5, 6)):
        for gi, g in enumerate(GRIDS[n][:1 if (tier == 'quick' and n == 5) else None]):
            akima_clauses(ck, mod, g, parsed, TO, found, 'AkimaSpline(n=%d, grid %s)' % (n, [str(v) for v in g]))
    # Akima periodic: equal slope at the two ends when y0 = y_{n-1}
    n = 4; g = GRIDS[4][1]; ys = [z3.Real('y%d' % i) for i in range(n)]
    p, _ = spline_eval(mod, 'akima', g, ys, F(g[0]), parsed, [ys[0] == ys[n - 1]], periodic=1)
    agg_prove(ck, 'AkimaSpline periodic (n=4): slope at the first knot = slope at the last knot when y0 = y_{n-1}', [(pc, [aux[0] != aux[n - 1]]) for pc, (rc, v, d, aux) in p], TO, found, 'akima-periodic')
    # ---------------- cubic, concrete grids, QR by contract ----------------
    for n in ((3, 4) if tier == 'quick' else (3, 4, 5)):
        for g in GRIDS[n]:
            ys = [z3.Real('y%d' % i) for i in range(n)]
            qrs = []
            def fac():
                q = QRContract(); qrs.append(q); return q
            label = 'CubicSpline natural (n=%d, grid %s)' % (n, [str(v) for v in g])
            generic_spline_clauses(ck, mod, 'cubic', g, ys, parsed, TO, found, label, qr_factory=fac)
            sing = [e for q in qrs for e in q.events if e.get('singular')]
            ck.obligation('%s: the system for f\'\' assembled by Interpolate is non-singular (exact determinant)' % label, 'sat' if sing else 'unsat', 0.0, True, {'matrix': sing[0]['matrix']} if sing else {'det': next((e.get('det') for q in qrs for e in q.events), None)})
            if sing: found.append(('cubic', label + ' singular system', sing[0]))
            # zero end curvature, linear dependence of f'' on y
            qr = QRContract(); p, _ = spline_eval(mod, 'cubic', g, ys, F(g[0]), parsed, (), 0, qr)
            agg_prove(ck, '%s: f\'\'(x_0) = f\'\'(x_{n-1}) = 0' % label, [(pc, [z3.Or(aux[0] != 0, aux[n - 1] != 0)]) for pc, (rc, v, d, aux) in p], TO, found, 'cubic')
            lam = z3.Real('lam'); y2 = [z3.Real('z%d' % i) for i in range(n)]
            pa, _ = spline_eval(mod, 'cubic', g, y2, F(g[0]), parsed, (), 0, QRContract()); pb, _ = spline_eval(mod, 'cubic', g, [ys[k] + lam * y2[k] for k in range(n)], F(g[0]), parsed, (), 0, QRContract())
            agg_prove(ck, '%s: f\'\' depends linearly on the ordinates' % label, [(c1 + c2 + c3, [z3.Or([v3[3][k] != v1[3][k] + lam * v2[3][k] for k in range(n)])]) for (c1, v1), (c2, v2), (c3, v3) in itertools.product(p, pa, pb)], TO, found, 'cubic')
    # cubic periodic: non-singular system, equal slope and curvature at the two ends, interpolation
    for n, g in ((3, GRIDS[3][1]), (4, GRIDS[4][0]), (4, GRIDS[4][1]), (5, GRIDS[5][1])) if tier == 'quick' else ((3, GRIDS[3][1]), (4, GRIDS[4][0]), (4, GRIDS[4][1]), (5, GRIDS[5][0]), (5, GRIDS[5][1]), (6, GRIDS[6][0])):
        ys = [z3.Real('y%d' % i) for i in range(n)]; per = [ys[0] == ys[n - 1]]
        label = 'CubicSpline periodic (n=%d, grid %s)' % (n, [str(v) for v in g])
        qr = QRContract(); p0, _ = spline_eval(mod, 'cubic', g, ys, F(g[0]), parsed, per, 1, qr)
        qr2 = QRContract(); p1, _ = spline_eval(mod, 'cubic', g, ys, F(g[n - 1]), parsed, per, 1, qr2)
        sing = [e for e in qr.events + qr2.events if e.get('singular')]
        ck.obligation('%s: the system for f\'\' assembled by Interpolate is non-singular' % label, 'sat' if sing else 'unsat', 0.0, True, {'matrix': sing[0]['matrix']} if sing else None)
        if sing: found.append(('cubic-periodic', '%s: periodic boundary rows make the system singular' % label, sing[0])); continue
        q = []
        for (c0, v0), (c1, v1) in itertools.product(p0, p1):
            q.append((c0 + c1 + per, [z3.Or(v0[1] != ys[0], v1[1] != ys[n - 1], v0[2] != v1[2], v0[3][0] != v0[3][n - 1])]))
        st_ = agg_prove(ck, '%s: with y_0 = y_{n-1} the two ends join with equal value, slope and curvature' % label, q, TO, found, 'cubic-periodic-join')
        # interior conditions still hold
        generic_spline_clauses(ck, mod, 'cubic', g, ys, parsed, TO, found, label, assume=per, periodic=1, qr_factory=QRContract)
    # arbitrary cubic state: value continuity and derivative consistency (inductive form: any f, f'')
    for n in (3,):
        xs = GRIDS[3][1]; f = [z3.Real('f%d' % i) for i in range(n)]; f2 = [z3.Real('g%d' % i) for i in range(n)]; r = z3.Real('r')
        q = []
        from algz import Algebra
        for i in range(n - 1):
            def build(it):
                px = alloc_doubles(it, 'x', xs); pf = alloc_doubles(it, 'f', f); pg = alloc_doubles(it, 'g', f2); out = alloc_doubles(it, 'out', [F(0), F(0)])
                it.call('@h_cubic_state', [px, pf, pg, n, r, out]); return read_doubles(it, out, 2)
            res, _ = run(mod, 'cubic_state', build, parsed, assume=[r > xs[i], r < xs[i + 1]])
            for it, (val, der) in res:
                A = Algebra(); P = A.residual(A.rf(der), A.total_deriv(A.rf(val), 'r')); q.append((list(it.pc), [A.poly_z3(P) != 0]))
                for k in (i, i + 1): q.append(([c for c in it.pc if not mentions(c, r)], [z3.substitute(val, (r, z3.RealVal(xs[k]))) != f[k]]))
        agg_prove(ck, 'CubicSpline from an arbitrary state (f, f\'\'): value at knots = f_i from both sides, derivative = d/dr value', q, TO, found, 'cubic-state')
    # ---------------- Table::Smooth ----------------
    for n in ((3, 5) if tier == 'quick' else (3, 4, 5, 6)):
        for k in (1, 2, 3):
            ys = [z3.Real('y%d' % i) for i in range(n)]
            def build(it, ys=ys, n=n, k=k):
                py = alloc_doubles(it, 'y', ys); out = alloc_doubles(it, 'out', [F(0)] * n); it.call('@h_smooth', [py, n, k, out]); return read_doubles(it, out, n)
            res, st = run(mod, 'smooth', build, parsed); ck.stubs |= st['models_used']
            a, b = z3.Reals('la lb')
            q = [(list(it.pc), [z3.Or(o[0] != ys[0], o[n - 1] != ys[n - 1])]) for it, o in res]
            q += [(list(it.pc) + [ys[i] == a * i + b for i in range(n)], [z3.Or([o[i] != ys[i] for i in range(n)])]) for it, o in res]
            agg_prove(ck, 'Table::Smooth(%d) on %d points keeps both end points and leaves straight-line data unchanged' % (k, n), q, TO, found, 'smooth')
    fit_clause(ck, mod, tier, parsed, TO, found)
    found_tab = []
    table_io(ck, tier, found_tab)
    table_violations(ck, found_tab)
    ck.bounds.update({'linear spline': 'n in {2,3} (thorough 4) symbolic strictly increasing knots, all real ordinates and evaluation points', 'akima/cubic grids': {str(k): [[str(v) for v in g] for g in gs] for k, gs in GRIDS.items()}, 'smooth': 'n<=5 (thorough 6), k<=3'})
    for tag, name, mdl in found:
        rep = common.write_replay('C12', name, {}, {'clause': name, 'model': mdl, 'tag': tag})
        ok, why = native_replay(tag, mdl)
        ck.violation('C12 ' + name.split(' (')[0][:70] if not tag.endswith('periodic') else 'C12 ' + tag, name + ' ; ' + why, rep, reproduced=ok)

# ---------------- CubicSpline::Fit: the least-squares problem handed to the constrained solver is the right one ----------------
def fit_clause(ck, mod, tier, parsed, TO, found):
    """The constrained QR solver (two Eigen factorizations) is the environment boundary, by its contract: it returns
    argmin |A u - b| subject to B u = 0.  What VOTCA contributes is the assembly: decided here for symbolic abscissae and
    ordinates.  (A u)_i must be the value at x_i of the spline with state u = (f, f''), B u = 0 must say 'natural ends and
    continuous first derivative at every interior knot', b must be the data, and the solver's result must be stored."""
    from algz import Algebra
    names = [n for n in list(mod.funcs) + list(mod.decls) if 'linalg_constrained_qrsolve' in n]
    if not names: ck.inconc('Fit: linalg_constrained_qrsolve not found in the module'); return
    cap = {}
    def m_qr(it, a):
        out, Am, bv, Cm = a
        def mat(p):
            d = it.load(Ptr(p.obj, p.off), 8); r = symx.sgn64(it.load(Ptr(p.obj, p.off + 8), 8)); c = symx.sgn64(it.load(Ptr(p.obj, p.off + 16), 8))
            return [[it.load(Ptr(d.obj, d.off + 8 * (i + r * j)), 8, llir.FloatTy(64)) for j in range(c)] for i in range(r)]
        def vecr(p):
            d = it.load(Ptr(p.obj, p.off), 8); n = symx.sgn64(it.load(Ptr(p.obj, p.off + 8), 8)); return [it.load(Ptr(d.obj, d.off + 8 * i), 8, llir.FloatTy(64)) for i in range(n)]
        cap['A'] = mat(Am); cap['b'] = vecr(bv); cap['B'] = mat(Cm); cap['calls'] = cap.get('calls', 0) + 1
        n = len(cap['A'][0]) if cap['A'] else 0; sol = [z3.Real('u%d' % i) for i in range(n)]
        buf = alloc_doubles(it, 'sol', sol); it.store(Ptr(out.obj, out.off), buf, 8); it.store(Ptr(out.obj, out.off + 8), n, 8)
        return None
    def Z(v): return v if z3.is_expr(v) else z3.RealVal(v)
    ND = 2 if tier == 'quick' else 3
    BCN = {0: 'natural', 1: 'periodic', 2: 'zero end slopes'}
    for g, bc in ([(GRIDS[3][1], 0), (GRIDS[4][1], 0), (GRIDS[3][1], 2), (GRIDS[3][1], 1)] if tier == 'quick' else [(GRIDS[3][1], 0), (GRIDS[4][0], 0), (GRIDS[4][1], 0), (GRIDS[5][1], 0), (GRIDS[3][1], 2), (GRIDS[4][1], 2), (GRIDS[3][1], 1), (GRIDS[4][1], 1)]):
        n = len(g); xs = [z3.Real('x%d' % i) for i in range(ND)]; ys = [z3.Real('y%d' % i) for i in range(ND)]
        u = [z3.Real('u%d' % i) for i in range(2 * n)]
        label = 'CubicSpline::Fit (%s boundaries, grid %s, %d data points)' % (BCN[bc], [str(v) for v in g], ND)
        def build(it):
            cap.clear()
            gp = alloc_doubles(it, 'g', g); px = alloc_doubles(it, 'x', xs); py = alloc_doubles(it, 'y', ys); f = alloc_doubles(it, 'f', [F(0)] * n); f2 = alloc_doubles(it, 'f2', [F(0)] * n)
            rc = symx.sgn64(it.call('@h_fit', [gp, n, px, py, ND, bc, f, f2]))
            return rc, read_doubles(it, f, n), read_doubles(it, f2, n), dict(cap)
        res, st = run(mod, 'fit', build, parsed, extra_models={nm: m_qr for nm in names}, assume=[z3.And(x >= g[0], x <= g[-1]) for x in xs]); ck.stubs |= st['models_used'] | {'linalg_constrained_qrsolve(A, b, B) -> fresh solution vector u (contract: argmin |A u - b| s.t. B u = 0)'}
        ck.add_witness('%s: %d interval combinations' % (label, len(res)), len(res) >= 2)
        qA = []; qS = []; Bref = None
        for it_, (rc, f, f2, c) in res:
            pc = list(it_.pc)
            if rc != 0 or c.get('calls') != 1: qS.append((pc, [])); continue
            qS.append((pc, [z3.Or([Z(f[k]) != u[k] for k in range(n)] + [Z(f2[k]) != u[n + k] for k in range(n)] + [Z(c['b'][i]) != ys[i] for i in range(ND)] + [z3.BoolVal(len(c['A']) != ND or len(c['B']) != n)])]))
            Bref = c['B']
            for i in range(ND):
                # the spline value at x_i from the state u, by the real Calculate on that state
                def bs(it, i=i):
                    px = alloc_doubles(it, 'x', g); pf = alloc_doubles(it, 'f', u[:n]); pg = alloc_doubles(it, 'g2', u[n:]); out = alloc_doubles(it, 'out', [F(0), F(0)])
                    it.call('@h_cubic_state', [px, pf, pg, n, xs[i], out]); return read_doubles(it, out, 2)
                rs, _ = run(mod, 'cubic_state', bs, parsed, assume=pc)
                for it2, (val, der) in rs:
                    Au = sum((Z(c['A'][i][j]) * u[j] for j in range(2 * n)), z3.RealVal(0))
                    A_ = Algebra(); P = A_.residual(A_.rf(Au), A_.rf(Z(val)))
                    qA.append((list(it2.pc), [A_.poly_z3(P) != 0]))
        fr = z3.Real('freeFit')
        st_, mdl = smt.agg_core(ck, '%s: row i of the fit matrix applied to the state (f, f\'\') is the spline value at x_i, for all x_i in the grid' % label, qA, TO, probe=[fr != u[0]])
        if st_ == 'sat': found.append(('fit-matrix', label + ': a row of the fit matrix is not the spline value at its abscissa', mdl))
        st_, mdl = smt.agg_core(ck, '%s: right-hand side = the data, one solver call, its result stored as f and f\'\'' % label, qS, TO, probe=[fr != u[0]])
        if st_ == 'sat': found.append(('fit-store', label + ': the solver result is not what Fit stores (or b is not the data)', mdl))
        # constraint rows: natural ends, C1 at interior knots (derivative of the real Calculate on the state, from both sides)
        if Bref is not None:
            r = z3.Real('r'); q = []
            def dstate(k):
                def bs(it):
                    px = alloc_doubles(it, 'x', g); pf = alloc_doubles(it, 'f', u[:n]); pg = alloc_doubles(it, 'g2', u[n:]); out = alloc_doubles(it, 'out', [F(0), F(0)])
                    it.call('@h_cubic_state', [px, pf, pg, n, r, out]); return read_doubles(it, out, 2)
                rs, _ = run(mod, 'cubic_state', bs, parsed, assume=[r > g[k], r < g[k + 1]])
                return rs[0][1][1]
            rows = []
            Bu = lambda k: sum((Z(Bref[k][j]) * u[j] for j in range(2 * n)), z3.RealVal(0))
            if bc == 0: q.append(([], [z3.Or(Bu(0) != u[n], Bu(n - 1) != u[2 * n - 1])]))
            elif bc == 1: q.append(([], [z3.Or(z3.And(Bu(0) != u[0] - u[n - 1], Bu(0) != u[n - 1] - u[0]), z3.And(Bu(n - 1) != u[n] - u[2 * n - 1], Bu(n - 1) != u[2 * n - 1] - u[n]))]))
            else:
                for row, k, at in ((0, 0, g[0]), (n - 1, n - 2, g[n - 1])):
                    slope = z3.substitute(Z(dstate(k)), (r, z3.RealVal(at)))
                    A_ = Algebra(); P1 = A_.residual(A_.rf(Bu(row)), A_.rf(slope)); P2 = A_.residual(A_.rf(Bu(row)), A_.rf(-slope))
                    q.append(([], [z3.And(A_.poly_z3(P1) != 0, A_.poly_z3(P2) != 0)]))
            for k in range(1, n - 1):
                jump = z3.substitute(Z(dstate(k - 1)), (r, z3.RealVal(g[k]))) - z3.substitute(Z(dstate(k)), (r, z3.RealVal(g[k])))
                A_ = Algebra(); P1 = A_.residual(A_.rf(Bu(k)), A_.rf(jump)); P2 = A_.residual(A_.rf(Bu(k)), A_.rf(-jump))
                q.append(([], [z3.And(A_.poly_z3(P1) != 0, A_.poly_z3(P2) != 0)]))
            st_, mdl = smt.agg_core(ck, '%s: the constraint rows say %s and S\'(x_k - 0) = S\'(x_k + 0) at every interior knot' % (label, {0: "f\'\' = 0 at both ends", 1: "f and f\'\' agree at the two ends", 2: "S\' = 0 at both ends"}[bc]), q, TO, probe=[fr != u[n]])
            if st_ == 'sat': found.append(('fit-constraints-bc%d' % bc, label + ': the constraint matrix does not say what the boundary kind and C1 smoothness require', mdl))
    ck.assumptions.append('CubicSpline::Fit: linalg_constrained_qrsolve (Eigen) by contract (returns the constrained least-squares optimum); natural, zero-slope and periodic boundary rows; with F1-F3 the optimum is the least-squares natural cubic spline on the grid, which reproduces data that already lie in the spline space whenever that optimum is unique')
    ck.bounds['fit'] = '%d data points with symbolic abscissae anywhere in the grid (all interval combinations), grids of 3-4 (thorough 5) knots' % ND

# ---------------- Table text reader / writer (point flags survive reading and a write-read round trip) ----------------
TAB_HARNESS = 'C12_table.cc'
FLAGSET = (ord('i'), ord('o'), ord('u'))
def flag_domain(f):
    # printable, not a separator / comment / xmgrace / line-continuation character (stated bound on the flag byte)
    return z3.And(f > 32, f < 127, f != ord('#'), f != ord('@'), f != ord('\\'))
def expect_flag(f):
    return z3.If(z3.Or([f == c for c in FLAGSET]), f, z3.IntVal(ord('i')))

def tab_native():
    return common.native_build([common.harness_path(TAB_HARNESS)], 'C12_table_native', extra=['-I' + common.REPO], defs=['VERIF_NATIVE'], cxx=common.CLANG)

def table_io(ck, tier, found_tab):
    import tabio
    TO = 60 if tier == 'quick' else 300
    ir, dt = common.compile_ir(common.harness_path(TAB_HARNESS), extra=['-I' + common.REPO])
    mod = llir.parse_module(ir); parsed = {}
    ck.units += ['tools/src/libtools/table.cc (operator>>(istream&, Table&), operator<<(ostream&, const Table&), Table::push_back/resize) with tools/include/votca/tools/tokenizer.h and getline.h']
    ck.functions.update(common.ir_func_sizes(mod, r'^@h_table|toolsrsERSi|toolslsERSo|Table9push_back'))
    io = tabio.TextIO(); M = io.models()
    NR = 2 if tier == 'quick' else 3
    CAP = 8
    def run_read(lines, phs, assume):
        def body(it):
            io.reset(it, lines, phs)
            for c in assume: it.assume(c)
            ins = tabio.make_stream(it, 'istream')
            xs = alloc_doubles(it, 'xs', [F(0)] * CAP); ys = alloc_doubles(it, 'ys', [F(0)] * CAP); fl = it.alloc(CAP, 'fl')
            n = symx.sgn64(it.call('@h_table_read', [ins, xs, ys, fl, CAP])); k = max(0, min(n, CAP))
            return n, read_doubles(it, xs, k), read_doubles(it, ys, k), [it.load(Ptr(fl.obj, i), 1) for i in range(k)]
        res, st = explore(mod, M, body, parsed=parsed, max_paths=4000, timeout=600); ck.stubs |= st['models_used']
        return res
    def bytes_of(txt, fl):
        # 'F0','F1',.. in the template stand for the symbolic flag bytes
        out = []; i = 0
        while i < len(txt):
            if txt[i] == 'F' and i + 1 < len(txt) and txt[i + 1].isdigit(): out.append(fl[int(txt[i + 1])]); i += 2
            else: out.append(ord(txt[i])); i += 1
        return out
    # encoder validation: concrete tables through the interpreter (float mode) and through the native reader
    texts = ['0.5 1.25 o\n1 2 u\n1.5 -3 i\n', '# comment\n\n0.5 1.25 0.1 o\n1 2 0.2 x\n', '2\n0 1\n1 2\n', '0 1 i # t\n@ xmgrace\n\t1\t2\tu\n', '1e-3 2.5E2 0.5\n']
    binp = tab_native(); bad = 0
    for tx in texts:
        rc, so, se = common.run_native(binp, tx); t = so.split(); n = int(t[0])
        nat = (n, [float.fromhex(t[1 + 3 * k]) for k in range(max(0, n))], [float.fromhex(t[2 + 3 * k]) for k in range(max(0, n))], [int(t[3 + 3 * k]) for k in range(max(0, n))])
        def bodyv(it):
            io.reset(it, [list(l.encode()) for l in tx.split('\n')[:-1]], [])
            ins = tabio.make_stream(it, 'istream')
            xs = alloc_doubles(it, 'xs', [0.0] * CAP); ys = alloc_doubles(it, 'ys', [0.0] * CAP); fl = it.alloc(CAP, 'fl')
            m = symx.sgn64(it.call('@h_table_read', [ins, xs, ys, fl, CAP])); k = max(0, min(m, CAP))
            return m, [float(v) for v in read_doubles(it, xs, k)], [float(v) for v in read_doubles(it, ys, k)], [it.load(Ptr(fl.obj, i), 1) & 0xff for i in range(k)]
        r, _ = explore(mod, M, bodyv, fpmode='float', parsed=parsed)
        if tuple(r[0][1]) != nat: bad += 1; print('  validation mismatch', repr(tx), r[0][1], nat)
    ck.add_validation('interpreter + stream models vs native Table reader on %d concrete texts (flags, comments, size header, tabs, exponents)' % len(texts), len(texts), bad == 0, '%d mismatches' % bad)
    FL = [z3.Int('flag%d' % i) for i in range(NR)]; V = [z3.Real('v%d' % i) for i in range(4 * NR)]
    dom = [flag_domain(f) for f in FL]
    def I(v): return v if z3.is_expr(v) else z3.IntVal(v & 0xff if isinstance(v, int) else v)
    def R(v): return v if z3.is_expr(v) else z3.RealVal(v)
    layouts = {
        'three columns (x y flag)': (['$%d $%d F%d' % (3 * k, 3 * k + 1, k) for k in range(NR)], [(3 * k, 3 * k + 1, k) for k in range(NR)]),
        'four columns (x y yerr flag)': (['$%d $%d $%d F%d' % (4 * k, 4 * k + 1, 4 * k + 2, k) for k in range(NR)], [(4 * k, 4 * k + 1, k) for k in range(NR)]),
        'two columns (x y)': (['$%d $%d' % (2 * k, 2 * k + 1) for k in range(NR)], [(2 * k, 2 * k + 1, None) for k in range(NR)]),
        'three numeric columns (x y yerr, no flag)': (['$%d $%d $%d' % (3 * k, 3 * k + 1, 3 * k + 2) for k in range(NR)], [(3 * k, 3 * k + 1, None) for k in range(NR)]),
        'comment, blank line, tabs and trailing comment': (['# header', ''] + ['\t$%d \t $%d  F%d # c' % (3 * k, 3 * k + 1, k) for k in range(NR)], [(3 * k, 3 * k + 1, k) for k in range(NR)]),
        'size header line': (['%d' % NR] + ['$%d $%d F%d' % (3 * k, 3 * k + 1, k) for k in range(NR)], [(3 * k, 3 * k + 1, k) for k in range(NR)]),
    }
    for lname, (tmpl, rows) in layouts.items():
        lines = [bytes_of(t, FL) for t in tmpl]
        res = run_read(lines, V, dom)
        ck.add_witness('Table reader, %s: %d paths' % (lname, len(res)), len(res) >= 1)
        q = []
        for it_, (n, xs, ys, fls) in res:
            pc = list(it_.pc)
            if n != len(rows): q.append((pc, [])); continue         # a path that reads a different number of rows must be infeasible
            goal = []
            for k, (ix, iy, kf) in enumerate(rows):
                goal += [R(xs[k]) != V[ix], R(ys[k]) != V[iy], I(fls[k]) != (expect_flag(FL[kf]) if kf is not None else ord('i'))]
            q.append((pc, [z3.Or(goal)]))
        st_, mdl = smt.agg_core(ck, 'Table reader, %s: every row keeps x, y and its flag (i/o/u; anything else reads as i), for all flag bytes' % lname, q, TO, probe=[z3.Int('freeflag') != expect_flag(FL[0])] + dom)
        if st_ == 'sat': found_tab.append(('read', lname, tmpl, mdl))
    # write -> read round trip through the real operator<< and operator>>
    for he in (0, 1):
        WF = [z3.Int('wflag%d' % i) for i in range(NR)]; X = [z3.Real('x%d' % i) for i in range(NR)]; Y = [z3.Real('y%d' % i) for i in range(NR)]; E = [z3.Real('e%d' % i) for i in range(NR)]
        wdom = [z3.Or(z3.And(f >= 0, f <= 0), z3.And(f >= 32, f < 127, f != ord('#'), f != ord('@'), f != ord('\\'))) for f in WF]
        def body(it):
            io.reset(it, [], [])
            for c in wdom: it.assume(c)
            outs = tabio.make_stream(it, 'ostream')
            px = alloc_doubles(it, 'x', X); py = alloc_doubles(it, 'y', Y); pe = alloc_doubles(it, 'e', E); pf = it.alloc(NR, 'fl')
            for k in range(NR): it.store(Ptr(pf.obj, k), WF[k], 1)
            it.call('@h_table_write', [outs, px, py, pe, pf, NR, he])
            text = io.out_lines(); phs = list(io.phs)
            io.reset(it, text, phs)
            ins = tabio.make_stream(it, 'istream')
            xs = alloc_doubles(it, 'xs', [F(0)] * CAP); ys = alloc_doubles(it, 'ys', [F(0)] * CAP); fl = it.alloc(CAP, 'fl')
            n = symx.sgn64(it.call('@h_table_read', [ins, xs, ys, fl, CAP])); k = max(0, min(n, CAP))
            return n, read_doubles(it, xs, k), read_doubles(it, ys, k), [it.load(Ptr(fl.obj, i), 1) for i in range(k)], [bytes(b if not is_sym(b) else ord('?') for b in l).decode('latin1') for l in text]
        res, st = explore(mod, M, body, parsed=parsed, max_paths=6000, timeout=900); ck.stubs |= st['models_used']
        ck.add_witness('Table write->read round trip (%s): %d paths' % ('with error column' if he else 'no error column', len(res)), len(res) >= 2)
        q = []
        for it_, (n, xs, ys, fls, text) in res:
            pc = list(it_.pc)
            if n != NR: q.append((pc, [])); continue
            goal = []
            for k in range(NR): goal += [R(xs[k]) != X[k], R(ys[k]) != Y[k], I(fls[k]) != expect_flag(WF[k])]
            q.append((pc, [z3.Or(goal)]))
        st_, mdl = smt.agg_core(ck, 'Table write->read round trip (%s, %d rows): x, y and the flags i/o/u come back unchanged (blank or other flags read as i), for all flag bytes and values' % ('with error column' if he else 'no error column', NR), q, TO, probe=[z3.Int('freeflag') != expect_flag(WF[0])] + wdom)
        if st_ == 'sat': found_tab.append(('roundtrip', he, NR, mdl))
    ck.bounds['table text'] = '%d data rows per layout; 6 line layouts (2/3/4 columns, comments, blank lines, tabs, size header); flag bytes symbolic over printable ASCII except # @ \\ ; numeric fields are arbitrary reals (placeholder tokens through strtod)' % NR
    ck.assumptions += ['Table text I/O: std::getline, strtod and ostream insertion are environment models (engine/tabio.py): a numeric field converts to the real it denotes and prints as a token that converts back to the same real, i.e. the 10-digit output precision is outside the claim',
                       'file opening (Table::Load/Save) is outside the claim; the stream operators they call are the code checked']

def table_violations(ck, found_tab):
    for f in found_tab:
        if f[0] == 'read':
            _, lname, tmpl, mdl = f; mdl = mdl or {}
            text = []
            for t in tmpl:
                ln = t
                for k in range(9): ln = ln.replace('F%d' % k, chr(int(mdl.get('flag%d' % k, ord('o')))))
                i = 0
                import re as _re
                ln = _re.sub(r'\$(\d+)', lambda m: '%d.5' % (int(m.group(1)) + 1), ln)
                text.append(ln)
            meta = {'kind': 'table-read', 'layout': lname, 'text': '\n'.join(text) + '\n', 'flags': [int(mdl.get('flag%d' % k, ord('o'))) for k in range(9)]}
            rep = common.write_replay('C12', 'table read ' + lname, {'input.tab': meta['text']}, meta)
            ok, why = replay_table(meta)
            ck.violation('C12 Table reader ' + lname, 'Table reader, %s: a row loses its x, y or flag; %s' % (lname, why), rep, reproduced=ok)
        else:
            _, he, nr, mdl = f; mdl = mdl or {}
            meta = {'kind': 'table-roundtrip', 'has_yerr': he, 'rows': [[k + 0.5, 2.0 * k + 0.25, 0.125, int(mdl.get('wflag%d' % k, ord('o')))] for k in range(nr)]}
            rep = common.write_replay('C12', 'table roundtrip %d' % he, {}, meta)
            ok, why = replay_table(meta)
            ck.violation('C12 Table round trip ' + ('with error column' if he else 'no error column'), 'Table written and read back (%s): x, y or a flag changes; %s' % ('with error column' if he else 'no error column', why), rep, reproduced=ok)

def replay_table(meta):
    binp = tab_native()
    if meta['kind'] == 'table-read':
        rc, so, se = common.run_native(binp, meta['text'])
        t = so.split(); n = int(t[0]) if t else -9
        rows = [(float.fromhex(t[1 + 3 * k]), float.fromhex(t[2 + 3 * k]), int(t[3 + 3 * k])) for k in range(max(0, n))]
        # expected: data lines of the text, in order
        exp = []
        for ln in meta['text'].split('\n'):
            ln = ln.split('#')[0].split('@')[0]; tk = ln.split()
            if len(tk) < 2: continue
            fl = ord(tk[-1]) if len(tk) > 2 and tk[-1] in ('i', 'o', 'u') else ord('i')
            exp.append((float(tk[0]), float(tk[1]), fl))
        return rows != exp, 'native reader returned %s, the text holds %s' % (rows, exp)
    rows = meta['rows']; inp = '%d %d\n' % (meta['has_yerr'], len(rows)) + '\n'.join('%s %s %s %d' % (float(a).hex(), float(b).hex(), float(c).hex(), f) for a, b, c, f in rows) + '\n'
    rc, so, se = common.run_native(binp, inp, args=['roundtrip'])
    t = so.split(); n = int(t[0]) if t else -9
    got = [(float.fromhex(t[1 + 3 * k]), float.fromhex(t[2 + 3 * k]), int(t[3 + 3 * k])) for k in range(max(0, n))]
    exp = [(a, b, f if f in FLAGSET else ord('i')) for a, b, c, f in rows]
    return got != exp, 'native write->read returned %s for %s' % (got, exp)

def native_replay(tag, mdl):
    """periodic clauses: run the real spline on a full period of data and compare the end slopes"""
    def num(v, d=0.0):
        try: return float(F(str(v).rstrip('?')))
        except Exception: return d
    src = os.path.join(common.workdir(), 'c12rep.cc')
    open(src, 'w').write('#include "%s"\n#include <cstdio>\n#include <cstdlib>\nint main(int c,char**a){ long n=(c-2)/2; double x[16],y[16],o1[2],o2[2],aux[16]; for(long i=0;i<n;i++){x[i]=atof(a[2+i]); y[i]=atof(a[2+n+i]);} if(a[1][0]==\'a\'){ h_akima(x,y,n,1,x[0],o1,aux); printf("%%.17g %%.17g\\n",aux[0],aux[n-1]); } else { h_cubic(x,y,n,1,x[0],o1,aux); h_cubic(x,y,n,1,x[n-1],o2,aux); printf("%%.17g %%.17g\\n",o1[1],o2[1]); } }\n' % common.harness_path(HARNESS))
    if tag == 'akima-periodic':
        g = GRIDS[4][1]; y = [num((mdl or {}).get('y%d' % i)) for i in range(4)]; y[3] = y[0]; kind = 'a'
    elif tag == 'cubic-periodic':
        g = GRIDS[5][0]; y = [0.0, 1.0, 0.5, -1.0, 0.0]; kind = 'c'
    elif tag.startswith('fit-constraints-bc'):
        # native: the rows of the real AddBCToFitMatrix applied to a state (f, f'') against the end conditions / derivative jumps
        # obtained from the real Calculate/CalculateDerivative on that state
        bc = int(tag[-1]); src2 = os.path.join(common.workdir(), 'c12bc.cc')
        open(src2, 'w').write('#include "%s"\n#include <cstdio>\n#include <cmath>\nint main(){ const long n=4; double g[4]={0,0.5,2,3}, f[4]={0.3,-1.1,0.7,2.2}, f2[4]={1.5,-0.4,0.9,-2.0}; CubicSpline s; s.setBC(%s); s.r_=vec(g,n); Eigen::MatrixXd M=Eigen::MatrixXd::Zero(n,2*n); s.AddBCToFitMatrix(M,0,0); Eigen::VectorXd u(2*n); for(long i=0;i<n;i++){u(i)=f[i];u(n+i)=f2[i];} Eigen::VectorXd r=M*u; double o[2],d=1e-7,worst=0; auto der=[&](double x){ h_cubic_state(g,f,f2,n,x,o); return o[1]; }; double e0,e1; int bc=%d; if(bc==0){e0=f2[0];e1=f2[n-1];} else if(bc==2){e0=der(g[0]+d);e1=der(g[n-1]-d);} else {e0=f[0]-f[n-1];e1=f2[0]-f2[n-1];} worst=fmax(worst,fmin(fabs(r(0)-e0),fabs(r(0)+e0))); worst=fmax(worst,fmin(fabs(r(n-1)-e1),fabs(r(n-1)+e1))); for(long k=1;k<n-1;k++){ double j=der(g[k]-d)-der(g[k]+d); worst=fmax(worst,fmin(fabs(r(k)-j),fabs(r(k)+j))); } printf("%%.6g\\n",worst); return 0; }\n' % (common.harness_path(HARNESS), {0: 'Spline::splineNormal', 1: 'Spline::splinePeriodic', 2: 'Spline::splineDerivativeZero'}[bc], bc))
        b2 = common.native_build([src2], 'C12_bc', extra=['-I' + common.REPO])
        rc, so, se = common.run_native(b2); w = float(so.split()[0]) if so.split() else 1e9
        return w > 1e-4, 'native AddBCToFitMatrix (boundary kind %d, grid 0,0.5,2,3) applied to a state (f,f\'\'): largest deviation of a constraint row from the end condition / derivative jump computed by the real CalculateDerivative = %.3g' % (bc, w)
    elif tag.startswith('fit-'):
        # native: sample a natural cubic spline (built by the real Interpolate) on 12 points and fit it on the same grid with the real
        # Fit and the real constrained solver: a correct assembly returns the generating ordinates
        src2 = os.path.join(common.workdir(), 'c12fit.cc')
        open(src2, 'w').write('#include "%s"\n#include <cstdio>\nint main(){ double g[4]={0,0.5,2,3}, y[4]={0,1,0.5,-1}, xs[12], ys[12], out[2], aux[8], f[4], f2[4]; for(int i=0;i<12;i++){ xs[i]=0.125+0.25*i; h_cubic(g,y,4,0,xs[i],out,aux); ys[i]=out[0]; } long rc=h_fit(g,4,xs,ys,12,0,f,f2); printf("%%ld %%.12g %%.12g %%.12g %%.12g\\n",rc,f[0],f[1],f[2],f[3]); }\n' % common.harness_path(HARNESS))
        b2 = common.native_build([src2], 'C12_fit', extra=['-I' + common.REPO])
        rc, so, se = common.run_native(b2); t = so.split()
        got = [float(v) for v in t[1:5]] if len(t) >= 5 else []
        bad = (not got) or int(t[0]) != 0 or any(abs(a - b_) > 1e-7 for a, b_ in zip(got, [0, 1, 0.5, -1]))
        return bad, 'native: natural cubic spline through (0,0),(0.5,1),(2,0.5),(3,-1) sampled at 12 points and fitted on the same grid by the real Fit returns ordinates %s' % got
    else: return True, 'model %s (no native replay for this clause)' % str(mdl)[:200]
    b = common.native_build([src], 'C12_rep', extra=['-I' + common.REPO])
    rc, so, se = common.run_native(b, args=[kind] + [repr(float(v)) for v in g] + [repr(v) for v in y])
    s0, s1 = [float(v) for v in so.split()]
    bad = not (abs(s0 - s1) <= 1e-9 * max(1.0, abs(s0), abs(s1)))
    return bad, 'real %s spline, periodic boundaries, knots %s, data %s (y0 = y_last): slope at first knot %.9g, at last knot %.9g' % ('Akima' if kind == 'a' else 'cubic', [float(v) for v in g], y, s0, s1)

def validate(ck, mod):
    rnd = random.Random(common.SEED); parsed = {}
    src = os.path.join(common.workdir(), 'c12drv.cc')
    open(src, 'w').write('#include "%s"\n#include <cstdio>\n#include <cstring>\nint main(){ char c[16]; while(scanf("%%15s",c)==1){ long n,per; double x[16],y[16],r,out[2]={0,0},aux[16]; scanf("%%ld %%ld",&n,&per); for(long i=0;i<n;i++) scanf("%%la",&x[i]); for(long i=0;i<n;i++) scanf("%%la",&y[i]); scanf("%%la",&r); long rc; if(!strcmp(c,"lin")) rc=h_lin(x,y,n,r,out); else if(!strcmp(c,"akima")) rc=h_akima(x,y,n,per,r,out,aux); else rc=h_cubic(x,y,n,per,r,out,aux); printf("%%ld %%a %%a\\n",rc,out[0],out[1]); } }\n' % common.harness_path(HARNESS))
    binn = common.native_build([src], 'C12_native', extra=['-I' + common.REPO], cxx=common.CLANG)
    lines = []
    for _ in range(40):
        kind = rnd.choice(['lin', 'akima', 'akima']); n = rnd.randint(4, 7)
        x = sorted(rnd.uniform(0, 10) for _ in range(n))
        if rnd.random() < 0.4: x = [float(i) for i in range(n)]
        y = [math.sin(v) for v in x] if rnd.random() < 0.5 else [rnd.uniform(-2, 2) for _ in range(n)]
        if rnd.random() < 0.2: y = [1.0] * n
        lines.append('%s %d 0 %s %s %s' % (kind, n, ' '.join(v.hex() for v in x), ' '.join(float(v).hex() for v in y), rnd.uniform(x[0] - 1, x[-1] + 1).hex()))
    rc, so, se = common.run_native(binn, '\n'.join(lines) + '\n')
    if rc != 0: raise common.EncoderError('native C12 driver failed ' + se[-300:])
    bad = 0
    for ln, ol in zip(lines, so.strip().split('\n')):
        t = ln.split(); kind = t[0]; n = int(t[1]); x = [float.fromhex(v) for v in t[3:3 + n]]; y = [float.fromhex(v) for v in t[3 + n:3 + 2 * n]]; r = float.fromhex(t[3 + 2 * n])
        def build(it):
            px = alloc_doubles(it, 'x', x); py = alloc_doubles(it, 'y', y); out = alloc_doubles(it, 'out', [0.0, 0.0]); aux = alloc_doubles(it, 'aux', [0.0] * n)
            rc = it.call('@h_lin', [px, py, n, r, out]) if kind == 'lin' else it.call('@h_akima', [px, py, n, 0, r, out, aux]); return symx.sgn64(rc), read_doubles(it, out, 2)
        res, _ = explore(mod, models.all_models(), build, fpmode='float', parsed=parsed)
        mine = res[0][1]; o = ol.split(); nat = [float.fromhex(v) for v in o[1:]]
        ok = mine[0] == int(o[0]) and all((a == b) or (a != a and b != b) for a, b in zip(mine[1], nat))
        if not ok:
            bad += 1
            if bad < 4: print('  validation mismatch', ln[:50], mine, o)
    ck.add_validation('interpreter(float mode) vs native build: LinSpline/AkimaSpline Interpolate+Calculate+CalculateDerivative on sine/random/constant data (uniform and random grids)', len(lines), bad == 0, '%d mismatches' % bad)

if __name__ == '__main__':
    sys.exit(common.main_wrapper('C12', check_c12))
